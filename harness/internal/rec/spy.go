package rec

import (
	"bytes"
	"fmt"
	"math"
	"reflect"
	"time"

	"go.uber.org/zap/zapcore"
)

// Call is one normalised encoder call observed by the spy. Integer widths are
// folded (what matters is the value received), floats are kept by bits.
type Call struct {
	Kind string // int uint f64 f32 c128 c64 bool str bytestr binary dur time reflected array object ns
	Key  string // "" for array elements
	Val  any
	Sub  []Call // for array / object
	Err  string // error returned by the nested marshaler
}

func (c Call) String() string {
	if c.Kind == "array" || c.Kind == "object" {
		return fmt.Sprintf("%s(%q)%v err=%q", c.Kind, c.Key, c.Sub, c.Err)
	}
	if t, ok := c.Val.(time.Time); ok {
		n, off := t.Zone()
		return fmt.Sprintf("time(%q)=%s zone=%s/%d", c.Key, t.Format(time.RFC3339Nano), n, off)
	}
	return fmt.Sprintf("%s(%q)=%v", c.Kind, c.Key, c.Val)
}

// Spy implements zapcore.ObjectEncoder and zapcore.ArrayEncoder.
type Spy struct{ Calls []Call }

func (s *Spy) add(kind, key string, v any) {
	s.Calls = append(s.Calls, Call{Kind: kind, Key: key, Val: v})
}

func errText(err error) string {
	if err == nil {
		return ""
	}
	return err.Error()
}

// ObjectEncoder.
func (s *Spy) AddArray(k string, m zapcore.ArrayMarshaler) error {
	sub := &Spy{}
	err := m.MarshalLogArray(sub)
	s.Calls = append(s.Calls, Call{Kind: "array", Key: k, Sub: sub.Calls, Err: errText(err)})
	return err
}
func (s *Spy) AddObject(k string, m zapcore.ObjectMarshaler) error {
	sub := &Spy{}
	err := m.MarshalLogObject(sub)
	s.Calls = append(s.Calls, Call{Kind: "object", Key: k, Sub: sub.Calls, Err: errText(err)})
	return err
}
func (s *Spy) AddBinary(k string, v []byte)          { s.add("binary", k, append([]byte(nil), v...)) }
func (s *Spy) AddByteString(k string, v []byte)      { s.add("bytestr", k, string(v)) }
func (s *Spy) AddBool(k string, v bool)              { s.add("bool", k, v) }
func (s *Spy) AddComplex128(k string, v complex128)  { s.add("c128", k, v) }
func (s *Spy) AddComplex64(k string, v complex64)    { s.add("c64", k, v) }
func (s *Spy) AddDuration(k string, v time.Duration) { s.add("dur", k, v) }
func (s *Spy) AddFloat64(k string, v float64)        { s.add("f64", k, math.Float64bits(v)) }
func (s *Spy) AddFloat32(k string, v float32)        { s.add("f32", k, math.Float32bits(v)) }
func (s *Spy) AddInt(k string, v int)                { s.add("int", k, int64(v)) }
func (s *Spy) AddInt64(k string, v int64)            { s.add("int", k, v) }
func (s *Spy) AddInt32(k string, v int32)            { s.add("int", k, int64(v)) }
func (s *Spy) AddInt16(k string, v int16)            { s.add("int", k, int64(v)) }
func (s *Spy) AddInt8(k string, v int8)              { s.add("int", k, int64(v)) }
func (s *Spy) AddString(k, v string)                 { s.add("str", k, v) }
func (s *Spy) AddTime(k string, v time.Time)         { s.add("time", k, v) }
func (s *Spy) AddUint(k string, v uint)              { s.add("uint", k, uint64(v)) }
func (s *Spy) AddUint64(k string, v uint64)          { s.add("uint", k, v) }
func (s *Spy) AddUint32(k string, v uint32)          { s.add("uint", k, uint64(v)) }
func (s *Spy) AddUint16(k string, v uint16)          { s.add("uint", k, uint64(v)) }
func (s *Spy) AddUint8(k string, v uint8)            { s.add("uint", k, uint64(v)) }
func (s *Spy) AddUintptr(k string, v uintptr)        { s.add("uint", k, uint64(v)) }
func (s *Spy) AddReflected(k string, v interface{}) error {
	s.add("reflected", k, v)
	return nil
}
func (s *Spy) OpenNamespace(k string) { s.add("ns", k, nil) }

// ArrayEncoder.
func (s *Spy) AppendBool(v bool)              { s.add("bool", "", v) }
func (s *Spy) AppendByteString(v []byte)      { s.add("bytestr", "", string(v)) }
func (s *Spy) AppendComplex128(v complex128)  { s.add("c128", "", v) }
func (s *Spy) AppendComplex64(v complex64)    { s.add("c64", "", v) }
func (s *Spy) AppendFloat64(v float64)        { s.add("f64", "", math.Float64bits(v)) }
func (s *Spy) AppendFloat32(v float32)        { s.add("f32", "", math.Float32bits(v)) }
func (s *Spy) AppendInt(v int)                { s.add("int", "", int64(v)) }
func (s *Spy) AppendInt64(v int64)            { s.add("int", "", v) }
func (s *Spy) AppendInt32(v int32)            { s.add("int", "", int64(v)) }
func (s *Spy) AppendInt16(v int16)            { s.add("int", "", int64(v)) }
func (s *Spy) AppendInt8(v int8)              { s.add("int", "", int64(v)) }
func (s *Spy) AppendString(v string)          { s.add("str", "", v) }
func (s *Spy) AppendUint(v uint)              { s.add("uint", "", uint64(v)) }
func (s *Spy) AppendUint64(v uint64)          { s.add("uint", "", v) }
func (s *Spy) AppendUint32(v uint32)          { s.add("uint", "", uint64(v)) }
func (s *Spy) AppendUint16(v uint16)          { s.add("uint", "", uint64(v)) }
func (s *Spy) AppendUint8(v uint8)            { s.add("uint", "", uint64(v)) }
func (s *Spy) AppendUintptr(v uintptr)        { s.add("uint", "", uint64(v)) }
func (s *Spy) AppendDuration(v time.Duration) { s.add("dur", "", v) }
func (s *Spy) AppendTime(v time.Time)         { s.add("time", "", v) }
func (s *Spy) AppendArray(m zapcore.ArrayMarshaler) error {
	return s.AddArray("", m)
}
func (s *Spy) AppendObject(m zapcore.ObjectMarshaler) error {
	return s.AddObject("", m)
}
func (s *Spy) AppendReflected(v interface{}) error { s.add("reflected", "", v); return nil }

func sameComplex(a, b complex128) bool {
	return math.Float64bits(real(a)) == math.Float64bits(real(b)) && math.Float64bits(imag(a)) == math.Float64bits(imag(b))
}

// SameTime reports whether two times are the same instant shown in the same zone.
func SameTime(a, b time.Time) bool {
	if !a.Equal(b) {
		return false
	}
	an, ao := a.Zone()
	bn, bo := b.Zone()
	return an == bn && ao == bo
}

func sameVal(a, b any) bool {
	switch x := a.(type) {
	case complex128:
		y, ok := b.(complex128)
		return ok && sameComplex(x, y)
	case complex64:
		y, ok := b.(complex64)
		return ok && math.Float32bits(real(x)) == math.Float32bits(real(y)) && math.Float32bits(imag(x)) == math.Float32bits(imag(y))
	case time.Time:
		y, ok := b.(time.Time)
		return ok && SameTime(x, y)
	case []byte:
		y, ok := b.([]byte)
		return ok && bytes.Equal(x, y)
	}
	if a == nil || b == nil {
		return a == nil && b == nil
	}
	ta, tb := reflect.TypeOf(a), reflect.TypeOf(b)
	if ta != tb {
		return false
	}
	if ta.Comparable() {
		// Comparable() describes the static type only: a struct or array with an interface
		// member holding a slice or map still panics on ==.
		eq := func() (r bool) {
			defer func() {
				if recover() != nil {
					r = false
				}
			}()
			return a == b
		}()
		if eq {
			return true
		}
	}
	if reflect.DeepEqual(a, b) {
		return true
	}
	// values DeepEqual cannot equate with themselves (funcs, NaN inside containers)
	return fmt.Sprintf("%#v", a) == fmt.Sprintf("%#v", b)
}

// SameCalls compares two call sequences; it returns a description of the first difference.
func SameCalls(want, got []Call) string {
	if len(want) != len(got) {
		return fmt.Sprintf("want %d calls %v, got %d calls %v", len(want), want, len(got), got)
	}
	for i := range want {
		w, g := want[i], got[i]
		if w.Kind != g.Kind || w.Key != g.Key {
			return fmt.Sprintf("call %d: want %v got %v", i, w, g)
		}
		if w.Kind == "array" || w.Kind == "object" {
			if d := SameCalls(w.Sub, g.Sub); d != "" {
				return fmt.Sprintf("call %d (%s %q): %s", i, w.Kind, w.Key, d)
			}
			if (w.Err == "") != (g.Err == "") {
				return fmt.Sprintf("call %d: error want %q got %q", i, w.Err, g.Err)
			}
			continue
		}
		if !sameVal(w.Val, g.Val) {
			return fmt.Sprintf("call %d: want %v got %v", i, w, g)
		}
	}
	return ""
}
