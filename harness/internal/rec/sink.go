// Package rec holds recorders: event-logging sinks, encoder spies and hooks.
package rec

import (
	"sync"
)

// Event is one sink event.
type Event struct {
	Kind  byte // 'W' or 'S'
	Bytes []byte
}

// Outcome programs the result of one Write call.
type Outcome struct {
	N   int // -1: len(p)
	Err error
}

// Sink is a recording zapcore.WriteSyncer. It copies every payload.
type Sink struct {
	mu       sync.Mutex
	Events   []Event
	Outcomes []Outcome // consumed per Write; empty = accept everything
	SyncErrs []error   // consumed per Sync
	Name     string
	// canary is touched WITHOUT the sink's own mutex on entry of every call: zap promises to
	// serialise all calls into a sink below Lock/BufferedWriteSyncer, so in a -race build two
	// overlapping calls are a race report even though the event log itself is mutex-guarded.
	canary int
}

// Write records p.
func (s *Sink) Write(p []byte) (int, error) {
	s.canary++
	s.mu.Lock()
	defer s.mu.Unlock()
	s.Events = append(s.Events, Event{'W', append([]byte(nil), p...)})
	if len(s.Outcomes) > 0 {
		o := s.Outcomes[0]
		s.Outcomes = s.Outcomes[1:]
		n := o.N
		if n < 0 || n > len(p) {
			n = len(p)
		}
		return n, o.Err
	}
	return len(p), nil
}

// Sync records a sync.
func (s *Sink) Sync() error {
	s.canary++
	s.mu.Lock()
	defer s.mu.Unlock()
	s.Events = append(s.Events, Event{Kind: 'S'})
	if len(s.SyncErrs) > 0 {
		e := s.SyncErrs[0]
		s.SyncErrs = s.SyncErrs[1:]
		return e
	}
	return nil
}

// Writes returns the payloads written so far.
func (s *Sink) Writes() [][]byte {
	s.mu.Lock()
	defer s.mu.Unlock()
	var out [][]byte
	for _, e := range s.Events {
		if e.Kind == 'W' {
			out = append(out, e.Bytes)
		}
	}
	return out
}

// Syncs returns the number of Sync calls.
func (s *Sink) Syncs() int {
	s.mu.Lock()
	defer s.mu.Unlock()
	n := 0
	for _, e := range s.Events {
		if e.Kind == 'S' {
			n++
		}
	}
	return n
}

// Len returns the number of events.
func (s *Sink) Len() int {
	s.mu.Lock()
	defer s.mu.Unlock()
	return len(s.Events)
}

// Snapshot returns a copy of the event kinds, e.g. "WSW".
func (s *Sink) Snapshot() string {
	s.mu.Lock()
	defer s.mu.Unlock()
	b := make([]byte, len(s.Events))
	for i, e := range s.Events {
		b[i] = e.Kind
	}
	return string(b)
}

// All returns the concatenation of all written bytes.
func (s *Sink) All() []byte {
	var out []byte
	for _, w := range s.Writes() {
		out = append(out, w...)
	}
	return out
}

// EventsCopy returns a copy of the event log.
func (s *Sink) EventsCopy() []Event {
	s.mu.Lock()
	defer s.mu.Unlock()
	return append([]Event(nil), s.Events...)
}

// Reset forgets all events.
func (s *Sink) Reset() {
	s.mu.Lock()
	s.Events = nil
	s.mu.Unlock()
}
