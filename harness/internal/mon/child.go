// Package mon holds process-level monitors: child runner, race-log collector,
// watchdog and quiescence detector.
package mon

import (
	"fmt"
	"os"
	"os/exec"
	"path/filepath"
	"regexp"
	"runtime"
	"sort"
	"strings"
	"sync/atomic"
	"syscall"
	"time"

	"go.uber.org/zap/verif/internal/ev"
)

var childSeq atomic.Int64

// ChildOpts configures one child batch.
type ChildOpts struct {
	Race    bool
	Prop    string
	Args    []string
	Timeout time.Duration // generous wall-clock watchdog; firing = inconclusive
	Env     []string
	// CrashIsViolation: a Go panic or fatal error that kills the child is a violation of the
	// property (used where the property itself forbids panics), otherwise it is inconclusive.
	CrashIsViolation bool
}

// ChildOutcome is what the parent learned from outside the child.
type ChildOutcome struct {
	ExitCode    int
	TimedOut    bool
	Signaled    bool
	RaceReports []string // de-duplicated report blocks
	RaceTotal   int
	Output      string // tail of combined stdout/stderr
	ResultFile  string
}

var lineNo = regexp.MustCompile(`:\d+ \+0x[0-9a-f]+|\+0x[0-9a-f]+|:\d+`)
var addr = regexp.MustCompile(`0x[0-9a-f]+`)
var gor = regexp.MustCompile(`goroutine \d+|Goroutine \d+`)

// dedupeRace splits race logs into report blocks and de-duplicates them by stack
// signature with line numbers and addresses stripped.
func dedupeRace(text string) (uniq []string, total int) {
	blocks := strings.Split(text, "==================")
	seen := map[string]bool{}
	for _, b := range blocks {
		if !strings.Contains(b, "WARNING: DATA RACE") {
			continue
		}
		total++
		var sig []string
		for _, l := range strings.Split(b, "\n") {
			l = strings.TrimSpace(l)
			if strings.HasPrefix(l, "go.uber.org/") || strings.HasPrefix(l, "main.") {
				sig = append(sig, l)
			}
		}
		key := gor.ReplaceAllString(addr.ReplaceAllString(lineNo.ReplaceAllString(strings.Join(sig, "|"), ""), ""), "g")
		if !seen[key] {
			seen[key] = true
			uniq = append(uniq, strings.TrimSpace(b))
		}
	}
	return uniq, total
}

// RunChild runs `zverify child <prop> <args...> <resultfile>` and merges the
// child's evidence into r. Race reports and abnormal exits are returned to the caller.
func RunChild(r *ev.Run, o ChildOpts) ChildOutcome {
	bin := os.Getenv("ZVERIFY_BIN")
	if o.Race {
		bin = os.Getenv("ZVERIFY_RACE_BIN")
	}
	if bin == "" {
		bin, _ = os.Executable()
	}
	work := ev.WorkDir()
	n := childSeq.Add(1)
	res := filepath.Join(work, fmt.Sprintf("child-%s-%d.json", o.Prop, n))
	outFile := filepath.Join(work, fmt.Sprintf("child-%s-%d.out", o.Prop, n))
	raceBase := filepath.Join(work, fmt.Sprintf("race-%s-%d", o.Prop, n))
	if o.Timeout == 0 {
		o.Timeout = 10 * time.Minute
	}
	args := append([]string{"-s", "QUIT", "-k", "10", fmt.Sprintf("%d", int(o.Timeout.Seconds())), bin, "child", o.Prop}, o.Args...)
	args = append(args, res)
	cmd := exec.Command("timeout", args...)
	f, _ := os.Create(outFile)
	cmd.Stdout, cmd.Stderr = f, f
	cmd.Env = append(os.Environ(), "GORACE=halt_on_error=0 log_path="+raceBase, fmt.Sprintf("VERIF_SEED=%d", r.Seed), "VERIF_TIER="+r.Tier, "VERIF_WORK="+work)
	cmd.Env = append(cmd.Env, o.Env...)
	err := cmd.Run()
	f.Close()
	oc := ChildOutcome{ResultFile: res}
	if err != nil {
		if ee, ok := err.(*exec.ExitError); ok {
			oc.ExitCode = ee.ExitCode()
			if ws, ok := ee.Sys().(syscall.WaitStatus); ok && ws.Signaled() {
				oc.Signaled = true
			}
		} else {
			oc.ExitCode = -1
		}
	}
	if oc.ExitCode == 124 || oc.ExitCode == 137 {
		oc.TimedOut = true
	}
	if b, err := os.ReadFile(outFile); err == nil {
		if len(b) > 6000 {
			b = b[len(b)-6000:]
		}
		oc.Output = string(b)
	}
	logs, _ := filepath.Glob(raceBase + ".*")
	sort.Strings(logs)
	var all strings.Builder
	for _, l := range logs {
		if b, err := os.ReadFile(l); err == nil {
			all.Write(b)
		}
		os.Remove(l)
	}
	oc.RaceReports, oc.RaceTotal = dedupeRace(all.String())
	if _, err := os.Stat(res); err == nil {
		if err := r.MergeFrom(res); err != nil {
			r.Inconclusive(fmt.Sprintf("child %s %v: unreadable result: %v", o.Prop, o.Args, err))
		}
		os.Remove(res)
	}
	os.Remove(outFile)
	return oc
}

// Judge applies the standard interpretation of a child outcome: race reports are
// violations, a watchdog timeout is inconclusive, any other abnormal exit without a
// result is inconclusive with the output kept.
func Judge(r *ev.Run, o ChildOpts, oc ChildOutcome, caseID string) {
	r.Count("race_reports_total", int64(oc.RaceTotal))
	for i, rep := range oc.RaceReports {
		if len(rep) > 3000 {
			rep = rep[:3000]
		}
		r.Violate(ev.Violation{Case: caseID, Class: "data-race", Msg: fmt.Sprintf("race detector report %d/%d: %s", i+1, len(oc.RaceReports), firstLines(rep, 14)), Witness: map[string]any{"args": o.Args, "report": rep}})
	}
	if oc.TimedOut {
		r.Inconclusive(fmt.Sprintf("%s: child %v hit the wall-clock watchdog; output tail: %s", caseID, o.Args, tail(oc.Output, 1500)))
		return
	}
	if oc.ExitCode != 0 {
		if o.CrashIsViolation && (strings.Contains(oc.Output, "panic:") || strings.Contains(oc.Output, "fatal error:")) {
			i := strings.Index(oc.Output, "panic:")
			if i < 0 {
				i = strings.Index(oc.Output, "fatal error:")
			}
			r.Violate(ev.Violation{Case: caseID, Class: "process-crash", Msg: "the workload process died: " + firstLines(oc.Output[i:], 12), Witness: map[string]any{"args": o.Args, "output": tail(oc.Output[i:], 3000)}})
			return
		}
		r.Inconclusive(fmt.Sprintf("%s: child %v exited with %d; output tail: %s", caseID, o.Args, oc.ExitCode, tail(oc.Output, 1500)))
	}
}

func firstLines(s string, n int) string {
	ls := strings.Split(s, "\n")
	if len(ls) > n {
		ls = ls[:n]
	}
	return strings.Join(ls, " / ")
}

func tail(s string, n int) string {
	if len(s) > n {
		return s[len(s)-n:]
	}
	return s
}

// RunRaw runs a command under a wall-clock watchdog and reports how it ended.
func RunRaw(bin string, args []string, timeout time.Duration) ChildOutcome {
	cmd := exec.Command(bin, args...)
	cmd.Stdout, cmd.Stderr = nil, nil
	oc := ChildOutcome{}
	if err := cmd.Start(); err != nil {
		oc.ExitCode = -1
		return oc
	}
	done := make(chan error, 1)
	go func() { done <- cmd.Wait() }()
	var err error
	select {
	case err = <-done:
	case <-time.After(timeout):
		_ = cmd.Process.Kill()
		<-done
		oc.TimedOut = true
		oc.ExitCode = -1
		return oc
	}
	if err != nil {
		if ee, ok := err.(*exec.ExitError); ok {
			oc.ExitCode = ee.ExitCode()
			if ws, ok := ee.Sys().(syscall.WaitStatus); ok && ws.Signaled() {
				oc.Signaled = true
			}
		} else {
			oc.ExitCode = -1
		}
	}
	return oc
}

// Stacks returns a dump of all goroutines.
func Stacks() string {
	buf := make([]byte, 8<<20)
	return string(buf[:runtime.Stack(buf, true)])
}

// Quiescent reports whether, in two goroutine dumps taken some time apart, every
// goroutine whose stack mentions one of the markers is blocked (not running, runnable,
// in a syscall or sleeping) with an identical stack. Callers use it only when no
// harness-controlled event is pending (the harness itself is blocked or has stopped
// producing ticks), so a goroutine waiting in a select cannot be served either. Only
// then can nothing that exists unblock them, whatever the machine load.
func Quiescent(a, b string, markers ...string) bool {
	pick := func(s string) []string {
		var out []string
		for _, g := range strings.Split(s, "\n\n") {
			if strings.Contains(g, "mon.Stacks(") {
				continue // the goroutine taking this very dump is running by construction
			}
			for _, m := range markers {
				if strings.Contains(g, m) {
					out = append(out, g)
					break
				}
			}
		}
		return out
	}
	ga, gb := pick(a), pick(b)
	if len(ga) == 0 || len(ga) != len(gb) {
		return false
	}
	body := func(g string) string {
		if i := strings.IndexByte(g, '\n'); i >= 0 {
			return g[i:]
		}
		return g
	}
	for i := range ga {
		head := strings.SplitN(ga[i], "\n", 2)[0]
		for _, st := range []string{"[running", "[runnable", "[syscall", "[sleep", "[IO wait", "[GC "} {
			if strings.Contains(head, st) {
				return false
			}
		}
		if body(ga[i]) != body(gb[i]) {
			return false
		}
	}
	return true
}

// Hang is the verdict of Watch.
type Hang struct {
	Panicked string
	Hung     bool // the function did not return within the watchdog
	Dead     bool // and the marked goroutines are quiescent: nothing can unblock them
	Dump     string
}

// Watch runs f in its own goroutine. If f does not return within limit, two goroutine dumps
// decide between a deadlock (Dead) and a merely slow run (inconclusive for the caller).
func Watch(limit time.Duration, f func(), markers ...string) Hang {
	done := make(chan string, 1)
	go func() {
		defer func() {
			if x := recover(); x != nil {
				done <- fmt.Sprint("panic: ", x)
				return
			}
			done <- ""
		}()
		f()
	}()
	select {
	case p := <-done:
		return Hang{Panicked: p}
	case <-time.After(limit):
	}
	d1 := Stacks()
	select {
	case p := <-done:
		return Hang{Panicked: p}
	case <-time.After(1500 * time.Millisecond):
	}
	d2 := Stacks()
	return Hang{Hung: true, Dead: Quiescent(d1, d2, markers...), Dump: tail(d2, 6000)}
}
