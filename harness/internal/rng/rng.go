// Package rng provides the seeded, splittable PRNG every generator derives from.
package rng

import (
	"hash/fnv"
	"math/rand/v2"
)

// R is a deterministic random source.
type R struct{ *rand.Rand }

// For returns the generator for case i of the named stream under seed.
func For(seed int64, stream string, i int) *R {
	h := fnv.New64a()
	h.Write([]byte(stream))
	return &R{rand.New(rand.NewPCG(uint64(seed)*0x9E3779B97F4A7C15+uint64(i), h.Sum64()^uint64(i)*0xBF58476D1CE4E5B9))}
}

// Split derives an independent generator.
func (r *R) Split() *R { return &R{rand.New(rand.NewPCG(r.Uint64(), r.Uint64()))} }

// Intn returns a value in [0,n).
func (r *R) Intn(n int) int {
	if n <= 0 {
		return 0
	}
	return r.IntN(n)
}

// Range returns a value in [lo,hi].
func (r *R) Range(lo, hi int) int { return lo + r.Intn(hi-lo+1) }

// Bool returns true with probability 1/2.
func (r *R) Bool() bool { return r.Uint64()&1 == 1 }

// P returns true with probability num/den.
func (r *R) P(num, den int) bool { return r.Intn(den) < num }

// Pick returns a random element.
func Pick[T any](r *R, xs []T) T { return xs[r.Intn(len(xs))] }
