// Package ev collects what a run observed (evidence), records violations with
// replay files, and applies the committed known-findings list.
package ev

import (
	"encoding/json"
	"fmt"
	"os"
	"path/filepath"
	"sort"
	"strconv"
	"strings"
	"sync"
	"time"
)

// Violation is one refuting observation.
type Violation struct {
	Case    string `json:"case"`  // case identifier: stream/index
	Class   string `json:"class"` // narrow classification used by known findings
	Msg     string `json:"msg"`
	Witness any    `json:"witness,omitempty"`
}

// Finding is one entry of known_findings.json.
type Finding struct {
	ID       string `json:"id"`
	Property string `json:"property"`
	Status   string `json:"status"` // "open" or "fixed"
	Class    string `json:"class,omitempty"`
	Commit   string `json:"commit,omitempty"`
	What     string `json:"what"`
	Line     string `json:"line,omitempty"`
}

// Run accumulates the evidence of one check run.
type Run struct {
	Prop  string
	Tier  string
	Seed  int64
	Level string
	Rule  string

	// ChildResult is set in child processes: where the run's state goes for the parent to merge
	ChildResult string

	mu           sync.Mutex
	finishing    bool
	evals        int64
	distinct     map[uint64]struct{} // 64-bit FNV-1a of the case keys (millions of keys in thorough runs)
	samples      []any
	counters     map[string]int64
	sets         map[string]map[string]struct{}
	extra        map[string]any
	assumptions  []string
	violations   []Violation
	nviol        int
	known        map[string]int
	knownWhat    map[string]string
	inconclusive []string
	incomplete   []string
	classes      map[string]int
	start        time.Time
	dir          string
	findings     []Finding
	exhaustive   *bool
	ReplayOnly   bool
	Only         string // when set, only the case with this id is run (replay)
}

// Want reports whether the case with this id should run.
func (r *Run) Want(id string) bool { return r.Only == "" || r.Only == id }

// Dir returns the verification root directory (/verif).
func Dir() string {
	if d := os.Getenv("VERIF_DIR"); d != "" {
		return d
	}
	return "/verif"
}

// WorkDir returns the per-run scratch directory.
func WorkDir() string {
	if d := os.Getenv("VERIF_WORK"); d != "" {
		return d
	}
	d := filepath.Join(Dir(), ".work", "w"+strconv.Itoa(os.Getpid()))
	_ = os.MkdirAll(d, 0o755)
	return d
}

// Seed returns VERIF_SEED (default 1).
func Seed() int64 {
	if s := os.Getenv("VERIF_SEED"); s != "" {
		if v, err := strconv.ParseInt(strings.TrimSpace(s), 10, 64); err == nil {
			return v
		}
	}
	return 1
}

// New starts a run.
func New(prop, tier, level string) *Run {
	r := &Run{
		Prop: prop, Tier: tier, Seed: Seed(), Level: level,
		distinct: map[uint64]struct{}{}, counters: map[string]int64{},
		sets: map[string]map[string]struct{}{}, extra: map[string]any{},
		known: map[string]int{}, knownWhat: map[string]string{},
		start: time.Now(), dir: Dir(),
	}
	b, err := os.ReadFile(filepath.Join(r.dir, "known_findings.json"))
	if out := os.Getenv("VERIF_OUT"); out != "" {
		r.dir = out // evidence/ and replays/ of scratch runs go elsewhere
	}
	if err == nil {
		var f struct {
			Findings []Finding `json:"findings"`
		}
		if json.Unmarshal(b, &f) == nil {
			r.findings = f.Findings
		}
	}
	return r
}

// Thorough reports whether this is the thorough tier.
func (r *Run) Thorough() bool { return r.Tier == "thorough" }

// N picks the case count for the tier.
func (r *Run) N(quick, thorough int) int {
	if r.Thorough() {
		return thorough
	}
	return quick
}

// Eval counts evaluated cases.
func (r *Run) Eval(n int) { r.mu.Lock(); r.evals += int64(n); r.mu.Unlock() }

// Distinct records a distinct non-trivial case key.
func (r *Run) Distinct(key string) {
	h := uint64(14695981039346656037)
	for i := 0; i < len(key); i++ {
		h = (h ^ uint64(key[i])) * 1099511628211
	}
	r.mu.Lock()
	r.distinct[h] = struct{}{}
	r.mu.Unlock()
}

// Count adds to a named counter.
func (r *Run) Count(name string, n int64) { r.mu.Lock(); r.counters[name] += n; r.mu.Unlock() }

// Counter reads a named counter.
func (r *Run) Counter(name string) int64 { r.mu.Lock(); defer r.mu.Unlock(); return r.counters[name] }

// SetAdd adds key to a named coverage set.
func (r *Run) SetAdd(name, key string) {
	r.mu.Lock()
	m := r.sets[name]
	if m == nil {
		m = map[string]struct{}{}
		r.sets[name] = m
	}
	m[key] = struct{}{}
	r.mu.Unlock()
}

// SetLen returns the size of a named coverage set.
func (r *Run) SetLen(name string) int { r.mu.Lock(); defer r.mu.Unlock(); return len(r.sets[name]) }

// Sample keeps up to eight literal cases.
func (r *Run) Sample(v any) {
	r.mu.Lock()
	if len(r.samples) < 8 {
		r.samples = append(r.samples, v)
	}
	r.mu.Unlock()
}

// Extra records an additional coverage key.
func (r *Run) Extra(k string, v any) { r.mu.Lock(); r.extra[k] = v; r.mu.Unlock() }

// Exhaustive marks whether a finite space was enumerated completely.
func (r *Run) Exhaustive(b bool) { r.mu.Lock(); r.exhaustive = &b; r.mu.Unlock() }

// Assume records a trusted-base statement.
func (r *Run) Assume(s string) { r.mu.Lock(); r.assumptions = append(r.assumptions, s); r.mu.Unlock() }

// Inconclusive records a case that could be judged neither way.
func (r *Run) Inconclusive(msg string) {
	r.mu.Lock()
	r.inconclusive = append(r.inconclusive, msg)
	r.mu.Unlock()
}

// Incomplete records that the monitor could not cover what it must (exit 3).
func (r *Run) Incomplete(msg string) {
	r.mu.Lock()
	r.incomplete = append(r.incomplete, msg)
	r.mu.Unlock()
}

// Violate records a violation unless an open known finding lists its class.
func (r *Run) Violate(v Violation) {
	r.mu.Lock()
	unlocked := false
	defer func() {
		if !unlocked {
			r.mu.Unlock()
		}
	}()
	for _, f := range r.findings {
		if f.Status == "open" && f.Property == r.Prop && f.Class != "" && f.Class == v.Class {
			r.known[f.ID]++
			r.knownWhat[f.ID] = f.What
			return
		}
	}
	r.nviol++
	if len(r.samples) == 0 && v.Witness != nil {
		r.samples = append(r.samples, map[string]any{"violating_case": v.Case, "witness": v.Witness})
	}
	if r.classes == nil {
		r.classes = map[string]int{}
	}
	r.classes[v.Class]++
	if len(r.violations) < 5 {
		r.violations = append(r.violations, v)
	}
	if r.nviol == maxViolations && !r.finishing {
		// nothing is learned from the thousandth violation, and a tree this broken can make a workload
		// misbehave in ways it was never sized for: report what there is and stop
		r.finishing = true
		unlocked = true
		r.mu.Unlock()
		if r.ChildResult != "" {
			_ = r.DumpTo(r.ChildResult)
			os.Exit(0)
		}
		code := r.Finish()
		os.Exit(code)
	}
}

const maxViolations = 1000

// Violations returns the number of (unlisted) violations so far.
func (r *Run) Violations() int { r.mu.Lock(); defer r.mu.Unlock(); return r.nviol }

func setSizes(sets map[string]map[string]struct{}) map[string]int {
	out := map[string]int{}
	for k, v := range sets {
		out[k] = len(v)
	}
	return out
}

// Finish writes the evidence file, prints verdict lines and returns the exit code.
func (r *Run) Finish() int {
	r.mu.Lock()
	defer r.mu.Unlock()
	cov := map[string]any{
		"evaluations":         r.evals,
		"distinct_nontrivial": len(r.distinct),
		"rule":                r.Rule,
		"samples":             r.samples,
		"counters":            r.counters,
		"coverage_sets":       setSizes(r.sets),
		"inconclusive":        len(r.inconclusive),
	}
	if r.exhaustive != nil {
		cov["exhaustive"] = *r.exhaustive
	}
	for k, v := range r.extra {
		cov[k] = v
	}
	// A few literal members of the small coverage sets, so a reader sees what was hit.
	detail := map[string][]string{}
	for name, m := range r.sets {
		if len(m) <= 64 {
			ks := make([]string, 0, len(m))
			for k := range m {
				ks = append(ks, k)
			}
			sort.Strings(ks)
			detail[name] = ks
		}
	}
	cov["coverage_set_members"] = detail
	if len(r.inconclusive) > 0 {
		n := len(r.inconclusive)
		if n > 5 {
			n = 5
		}
		cov["inconclusive_samples"] = r.inconclusive[:n]
	}
	knownIDs := make([]string, 0, len(r.known))
	for id := range r.known {
		knownIDs = append(knownIDs, id)
	}
	sort.Strings(knownIDs)
	evd := map[string]any{
		"property_id": r.Prop, "tier": r.Tier, "seed": r.Seed, "level": r.Level,
		"coverage": cov, "wall_s": time.Since(r.start).Seconds(), "violations": r.nviol,
		"assumptions":        append([]string{"the Go toolchain, runtime and race detector", "the harness oracles in /verif/harness (reference models written from the property statement)"}, r.assumptions...),
		"known_findings_hit": r.known,
	}
	if len(r.classes) > 0 {
		evd["violation_classes"] = r.classes
	}
	code := 0
	if r.evals == 0 || len(r.distinct) < 2 || len(r.samples) == 0 {
		if !r.ReplayOnly {
			fmt.Printf("NOTHING-OBSERVED property=%s evaluations=%d distinct=%d samples=%d\n", r.Prop, r.evals, len(r.distinct), len(r.samples))
			code = 3
		}
	}
	if !r.ReplayOnly {
		b, _ := json.MarshalIndent(evd, "", " ")
		_ = os.MkdirAll(filepath.Join(r.dir, "evidence"), 0o755)
		tmp := filepath.Join(r.dir, "evidence", r.Prop+".json.tmp")
		if err := os.WriteFile(tmp, b, 0o644); err == nil {
			_ = os.Rename(tmp, filepath.Join(r.dir, "evidence", r.Prop+".json"))
		}
	}
	for _, m := range r.incomplete {
		fmt.Printf("INCOMPLETE property=%s %s\n", r.Prop, m)
		code = 3
	}
	for _, id := range knownIDs {
		fmt.Printf("KNOWN-FINDING: property=%s %s: %s (%d cases this run)\n", r.Prop, id, r.knownWhat[id], r.known[id])
	}
	for i, m := range r.inconclusive {
		if i >= 12 {
			fmt.Printf("INCONCLUSIVE property=%s (+%d further inconclusive cases not listed)\n", r.Prop, len(r.inconclusive)-i)
			break
		}
		if len(m) > 300 {
			m = m[:300]
		}
		fmt.Printf("INCONCLUSIVE property=%s %s\n", r.Prop, m)
	}
	if r.nviol > 0 {
		_ = os.MkdirAll(filepath.Join(r.dir, "replays"), 0o755)
		for i, v := range r.violations {
			name := fmt.Sprintf("%s-%d-%d.json", r.Prop, r.Seed, i)
			path := filepath.Join(r.dir, "replays", name)
			rep := map[string]any{"property": r.Prop, "tier": r.Tier, "seed": r.Seed, "case": v.Case, "class": v.Class, "msg": v.Msg, "witness": v.Witness}
			b, err := json.MarshalIndent(rep, "", " ")
			if err != nil {
				rep["witness"] = fmt.Sprintf("%+v", v.Witness)
				b, _ = json.MarshalIndent(rep, "", " ")
			}
			_ = os.WriteFile(path, b, 0o644)
			msg := v.Msg
			if len(msg) > 600 {
				msg = msg[:600] + "..."
			}
			fmt.Printf("VIOLATION property=%s replay=%s\n", r.Prop, path)
			fmt.Printf("  case=%s class=%s: %s\n", v.Case, v.Class, strings.ReplaceAll(msg, "\n", "\\n"))
		}
		fmt.Printf("  violation classes: %v\n", r.classes)
		if r.nviol > len(r.violations) {
			fmt.Printf("  (+%d further violations not listed)\n", r.nviol-len(r.violations))
		}
		code = 1
	}
	if code == 0 {
		fmt.Printf("OK property=%s tier=%s seed=%d evaluations=%d distinct=%d wall=%.1fs\n", r.Prop, r.Tier, r.Seed, r.evals, len(r.distinct), time.Since(r.start).Seconds())
	}
	return code
}

// Guard runs f and converts a panic into an error string ("" = no panic).
func Guard(f func()) (panicked string) {
	defer func() {
		if x := recover(); x != nil {
			panicked = fmt.Sprint(x)
			if panicked == "" {
				panicked = "(empty panic)"
			}
		}
	}()
	f()
	return ""
}

// dump is the serialised state a child process hands to its parent.
type dump struct {
	Evals        int64               `json:"evals"`
	Distinct     []uint64            `json:"distinct"`
	Samples      []any               `json:"samples"`
	Counters     map[string]int64    `json:"counters"`
	Sets         map[string][]string `json:"sets"`
	Violations   []Violation         `json:"violations"`
	NViol        int                 `json:"nviol"`
	Known        map[string]int      `json:"known"`
	KnownWhat    map[string]string   `json:"known_what"`
	Inconclusive []string            `json:"inconclusive"`
	Incomplete   []string            `json:"incomplete"`
	Classes      map[string]int      `json:"classes"`
}

// DumpTo writes the run's state to path (child side).
func (r *Run) DumpTo(path string) error {
	r.mu.Lock()
	defer r.mu.Unlock()
	d := dump{Evals: r.evals, Samples: r.samples, Counters: r.counters, Sets: map[string][]string{}, Violations: r.violations, NViol: r.nviol,
		Known: r.known, KnownWhat: r.knownWhat, Inconclusive: r.inconclusive, Incomplete: r.incomplete, Classes: r.classes}
	for k := range r.distinct {
		d.Distinct = append(d.Distinct, k)
	}
	for name, m := range r.sets {
		for k := range m {
			d.Sets[name] = append(d.Sets[name], k)
		}
	}
	b, err := json.Marshal(d)
	if err != nil {
		for i := range d.Violations {
			d.Violations[i].Witness = fmt.Sprintf("%+v", d.Violations[i].Witness)
		}
		d.Samples = nil
		b, err = json.Marshal(d)
		if err != nil {
			return err
		}
	}
	return os.WriteFile(path, b, 0o644)
}

// MergeFrom adds a child's state to this run (parent side).
func (r *Run) MergeFrom(path string) error {
	b, err := os.ReadFile(path)
	if err != nil {
		return err
	}
	var d dump
	if err := json.Unmarshal(b, &d); err != nil {
		return err
	}
	r.mu.Lock()
	defer r.mu.Unlock()
	r.evals += d.Evals
	for _, k := range d.Distinct {
		r.distinct[k] = struct{}{}
	}
	for _, s := range d.Samples {
		if len(r.samples) < 8 {
			r.samples = append(r.samples, s)
		}
	}
	for k, v := range d.Counters {
		r.counters[k] += v
	}
	for name, ks := range d.Sets {
		m := r.sets[name]
		if m == nil {
			m = map[string]struct{}{}
			r.sets[name] = m
		}
		for _, k := range ks {
			m[k] = struct{}{}
		}
	}
	r.nviol += d.NViol
	for k, v := range d.Classes {
		if r.classes == nil {
			r.classes = map[string]int{}
		}
		r.classes[k] += v
	}
	for _, v := range d.Violations {
		if len(r.violations) < 5 {
			r.violations = append(r.violations, v)
		}
	}
	for k, v := range d.Known {
		r.known[k] += v
		r.knownWhat[k] = d.KnownWhat[k]
	}
	r.inconclusive = append(r.inconclusive, d.Inconclusive...)
	r.incomplete = append(r.incomplete, d.Incomplete...)
	return nil
}
