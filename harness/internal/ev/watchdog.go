package ev

import (
	"fmt"
	"os"
	"runtime"
	"strings"
	"time"
)

// progress is a cheap fingerprint of everything a run has counted so far.
func (r *Run) progress() int64 {
	r.mu.Lock()
	defer r.mu.Unlock()
	p := r.evals + int64(r.nviol) + int64(len(r.inconclusive))
	for _, v := range r.counters {
		p += v
	}
	for _, s := range r.sets {
		p += int64(len(s))
	}
	return p
}

func allStacks() string {
	buf := make([]byte, 16<<20)
	return string(buf[:runtime.Stack(buf, true)])
}

// blockedForever reports whether, in two dumps taken apart, every goroutine other than the
// watchdog itself is parked (not running, runnable, in a system call or sleeping) with an
// unchanged stack, and at least one of them is parked inside zap. Then nothing that exists can
// make progress, whatever the machine load: the workload is deadlocked inside zap.
func blockedForever(a, b string) (bool, string) {
	split := func(s string) map[string]string {
		m := map[string]string{}
		for _, g := range strings.Split(s, "\n\n") {
			if strings.Contains(g, "ev.allStacks(") || strings.TrimSpace(g) == "" {
				continue
			}
			head := strings.SplitN(g, "\n", 2)[0]
			// "goroutine 12 [chan receive, 2 minutes]:" - the waiting time is not part of the identity
			if i := strings.Index(head, ","); i >= 0 {
				g = head[:i] + "]:" + g[len(head):]
				head = head[:i] + "]:"
			}
			m[head] = g
		}
		return m
	}
	ga, gb := split(a), split(b)
	if len(ga) == 0 || len(ga) != len(gb) {
		return false, ""
	}
	inZap := ""
	for head, g := range ga {
		if gb[head] != g {
			return false, ""
		}
		for _, st := range []string{"[running", "[runnable", "[syscall", "[sleep", "[IO wait", "[GC ", "[finalizer wait", "[force gc", "[timer goroutine"} {
			if strings.Contains(head, st) {
				if st == "[finalizer wait" || st == "[force gc" || st == "[GC " {
					goto next // runtime housekeeping goroutines never unblock anything
				}
				return false, ""
			}
		}
		for _, l := range strings.Split(g, "\n") {
			if strings.HasPrefix(l, "go.uber.org/zap") && !strings.HasPrefix(l, "go.uber.org/zap/verif/") {
				inZap = g
				break
			}
		}
	next:
	}
	return inZap != "", inZap
}

// StartWatchdog guards a whole run against a workload that blocks forever inside zap (for
// example a lock that is not released on some path): when nothing has been counted for
// `idle`, two goroutine dumps decide. A deadlock is a violation; anything else that is merely
// slow is left alone (wall-clock time is never a verdict).
func (r *Run) StartWatchdog(idle time.Duration) {
	go func() {
		last, since := r.progress(), time.Now()
		for {
			time.Sleep(10 * time.Second)
			if p := r.progress(); p != last {
				last, since = p, time.Now()
				continue
			}
			if time.Since(since) < idle {
				continue
			}
			d1 := allStacks()
			time.Sleep(2 * time.Second)
			d2 := allStacks()
			if r.progress() != last {
				last, since = r.progress(), time.Now()
				continue
			}
			if dead, where := blockedForever(d1, d2); dead {
				if len(where) > 4000 {
					where = where[:4000]
				}
				r.Violate(Violation{Case: "watchdog", Class: "deadlock-inside-zap", Msg: "the workload stopped making progress and every goroutine is parked with an unchanged stack, one of them inside zap: a call into zap never returns", Witness: where})
				fmt.Printf("WATCHDOG property=%s: deadlock inside zap, goroutine:\n%s\n", r.Prop, where)
				if r.ChildResult != "" {
					_ = r.DumpTo(r.ChildResult)
					os.Exit(0)
				}
				os.Exit(r.Finish())
			}
			since = time.Now() // slow, not dead: look again later
		}
	}()
}
