package ref

import (
	"bytes"
	"encoding/json"
	"time"
)

// FromGo converts what zapcore.MapObjectEncoder recorded into an expectation
// tree (objects unordered).
func FromGo(v interface{}) *Node {
	switch x := v.(type) {
	case nil:
		return Null()
	case map[string]interface{}:
		n := Obj()
		for k, e := range x {
			n.Members = append(n.Members, Member{Key: k, Val: FromGo(e)})
		}
		return n
	case []interface{}:
		n := Arr()
		for _, e := range x {
			n.Elems = append(n.Elems, FromGo(e))
		}
		return n
	case bool:
		return Bool(x)
	case int:
		return Int(int64(x))
	case int64:
		return Int(x)
	case int32:
		return Int(int64(x))
	case int16:
		return Int(int64(x))
	case int8:
		return Int(int64(x))
	case uint:
		return Uint(uint64(x))
	case uint64:
		return Uint(x)
	case uint32:
		return Uint(uint64(x))
	case uint16:
		return Uint(uint64(x))
	case uint8:
		return Uint(uint64(x))
	case uintptr:
		return Uint(uint64(x))
	case float64:
		return F64(x)
	case float32:
		return F32(x)
	case complex128:
		return C128(x)
	case complex64:
		return C64(x)
	case string:
		return Str(x)
	case []byte:
		return Binary(x)
	case time.Time:
		return Time(x)
	case time.Duration:
		return Dur(x)
	}
	var buf bytes.Buffer
	enc := json.NewEncoder(&buf)
	enc.SetEscapeHTML(false)
	if err := enc.Encode(v); err != nil {
		return Any()
	}
	return Raw(bytes.TrimSuffix(buf.Bytes(), []byte("\n")))
}
