// Package ref holds the reference models: the expected-value tree carried by
// the generators and its comparison with decoded output.
package ref

import (
	"encoding/base64"
	"fmt"
	"math"
	"strconv"
	"strings"
	"time"
	"unicode/utf8"

	"go.uber.org/zap/verif/internal/jsonv"
)

// Kind of an expected value.
type Kind int

// Kinds of expected values.
const (
	KNull Kind = iota
	KBool
	KInt
	KUint
	KF64
	KF32
	KStr         // exact string (already sanitised)
	KStrContains // string that is non-empty and contains S
	KBinary
	KC128
	KC64
	KTime
	KDur
	KObj
	KArr
	KRaw // reflected value: Raw holds the reference JSON
	KAny // anything (don't-care)
)

// Member of an expected object.
type Member struct {
	Key      string
	Val      *Node
	Optional bool // presence is a recorded don't-care
}

// Node is an expected value.
type Node struct {
	Kind    Kind
	B       bool
	I       int64
	U       uint64
	F       float64
	F32     float32
	S       string
	Bytes   []byte
	C       complex128
	T       time.Time
	D       time.Duration
	Members []Member
	Elems   []*Node
	Raw     []byte
}

// Constructors.
func Null() *Node             { return &Node{Kind: KNull} }
func Bool(b bool) *Node       { return &Node{Kind: KBool, B: b} }
func Int(i int64) *Node       { return &Node{Kind: KInt, I: i} }
func Uint(u uint64) *Node     { return &Node{Kind: KUint, U: u} }
func F64(f float64) *Node     { return &Node{Kind: KF64, F: f} }
func F32(f float32) *Node     { return &Node{Kind: KF32, F32: f} }
func Str(s string) *Node      { return &Node{Kind: KStr, S: Sanitize(s)} }
func Contains(s string) *Node { return &Node{Kind: KStrContains, S: Sanitize(s)} }
func Binary(b []byte) *Node   { return &Node{Kind: KBinary, Bytes: append([]byte(nil), b...)} }
func C128(c complex128) *Node { return &Node{Kind: KC128, C: c} }
func C64(c complex64) *Node   { return &Node{Kind: KC64, C: complex128(c)} }
func Time(t time.Time) *Node  { return &Node{Kind: KTime, T: t} }
func Dur(d time.Duration) *Node {
	return &Node{Kind: KDur, D: d}
}
func Raw(b []byte) *Node { return &Node{Kind: KRaw, Raw: b} }
func Any() *Node         { return &Node{Kind: KAny} }
func Obj() *Node         { return &Node{Kind: KObj} }
func Arr(e ...*Node) *Node {
	return &Node{Kind: KArr, Elems: e}
}

// Sanitize replaces each invalid UTF-8 byte by U+FFFD (one per byte).
func Sanitize(s string) string {
	if utf8.ValidString(s) {
		return s
	}
	var b strings.Builder
	for i := 0; i < len(s); {
		r, n := utf8.DecodeRuneInString(s[i:])
		if r == utf8.RuneError && n == 1 {
			b.WriteString("�")
			i++
			continue
		}
		b.WriteString(s[i : i+n])
		i += n
	}
	return b.String()
}

// Builder assembles the expected object for a sequence of fields, tracking
// namespaces opened in the current scope.
type Builder struct {
	root *Node
	cur  *Node
}

// NewBuilder starts an empty object.
func NewBuilder() *Builder {
	n := Obj()
	return &Builder{root: n, cur: n}
}

// Add appends a member to the innermost open namespace.
func (b *Builder) Add(key string, v *Node) {
	b.cur.Members = append(b.cur.Members, Member{Key: key, Val: v})
}

// OpenNS opens a namespace: later members nest under key.
func (b *Builder) OpenNS(key string) {
	n := Obj()
	b.Add(key, n)
	b.cur = n
}

// CloseAll returns to the root object (what the encoder does at the end of an entry).
func (b *Builder) CloseAll() { b.cur = b.root }

// Root returns the assembled object.
func (b *Builder) Root() *Node { return b.root }

// TimeMode says how times are represented.
type TimeMode int

// Time representations.
const (
	TNanosFallback TimeMode = iota // nil or no-op encoder: integer nanoseconds
	TEpoch
	TEpochMillis
	TEpochNanos
	TISO8601
	TRFC3339
	TRFC3339Nano
	TLayout
)

// DurMode says how durations are represented.
type DurMode int

// Duration representations.
const (
	DNanosFallback DurMode = iota
	DSeconds
	DNanos
	DMillis
	DString
)

// Repr is the representation configuration the comparator needs.
type Repr struct {
	Time    TimeMode
	Layout  string
	Dur     DurMode
	Ordered bool // object members must match in order
}

// ISO8601Layout is the documented layout of ISO8601TimeEncoder.
const ISO8601Layout = "2006-01-02T15:04:05.000Z0700"

func (r Repr) layout() string {
	switch r.Time {
	case TISO8601:
		return ISO8601Layout
	case TRFC3339:
		return time.RFC3339
	case TRFC3339Nano:
		return time.RFC3339Nano
	}
	return r.Layout
}

func floatText(v *jsonv.Value, f float64, bits int) error {
	switch {
	case math.IsNaN(f):
		if v.Kind != jsonv.Str || v.Str != "NaN" {
			return fmt.Errorf("NaN must be the string \"NaN\", got %s", jsonv.Render(v))
		}
		return nil
	case math.IsInf(f, 1):
		if v.Kind != jsonv.Str || v.Str != "+Inf" {
			return fmt.Errorf("+Inf must be the string \"+Inf\", got %s", jsonv.Render(v))
		}
		return nil
	case math.IsInf(f, -1):
		if v.Kind != jsonv.Str || v.Str != "-Inf" {
			return fmt.Errorf("-Inf must be the string \"-Inf\", got %s", jsonv.Render(v))
		}
		return nil
	}
	if v.Kind != jsonv.Num {
		return fmt.Errorf("want a number for %v, got %s", f, jsonv.Render(v))
	}
	g, err := strconv.ParseFloat(v.Num, bits)
	if err != nil {
		return fmt.Errorf("number %s does not parse: %v", v.Num, err)
	}
	if bits == 32 {
		if math.Float32bits(float32(g)) != math.Float32bits(float32(f)) {
			return fmt.Errorf("float32 not recoverable bit-for-bit: want %v (%#x) got %s", float32(f), math.Float32bits(float32(f)), v.Num)
		}
		return nil
	}
	if math.Float64bits(g) != math.Float64bits(f) {
		return fmt.Errorf("float64 not recoverable bit-for-bit: want %v (%#x) got %s", f, math.Float64bits(f), v.Num)
	}
	return nil
}

// parseComplex parses "<float><sign><float>i", where each part is what
// strconv's 'f' format produces (digits, "NaN", "+Inf", "-Inf") and the
// imaginary part is preceded by '+' when it is not negative.
func parseComplex(s string, bits int) (re, im float64, err error) {
	if !strings.HasSuffix(s, "i") {
		return 0, 0, fmt.Errorf("no trailing i")
	}
	s = s[:len(s)-1]
	tok := func(s string) (string, string) {
		i := 0
		if i < len(s) && (s[i] == '+' || s[i] == '-') {
			i++
		}
		if strings.HasPrefix(s[i:], "Inf") || strings.HasPrefix(s[i:], "NaN") {
			return s[:i+3], s[i+3:]
		}
		for i < len(s) && (s[i] == '.' || (s[i] >= '0' && s[i] <= '9')) {
			i++
		}
		return s[:i], s[i:]
	}
	a, rest := tok(s)
	if a == "" {
		return 0, 0, fmt.Errorf("no real part")
	}
	if strings.HasPrefix(rest, "+") && len(rest) > 1 && (rest[1] == '+' || rest[1] == '-' || rest[1] == 'N') {
		rest = rest[1:] // explicit separator before a part that carries its own sign or is NaN
	}
	b, rest2 := tok(rest)
	if b == "" || rest2 != "" {
		return 0, 0, fmt.Errorf("bad imaginary part %q", rest)
	}
	if re, err = strconv.ParseFloat(a, bits); err != nil {
		return
	}
	im, err = strconv.ParseFloat(b, bits)
	return
}

func sameFloat(a, b float64, bits int) bool {
	if math.IsNaN(a) || math.IsNaN(b) {
		return math.IsNaN(a) && math.IsNaN(b)
	}
	if bits == 32 {
		return math.Float32bits(float32(a)) == math.Float32bits(float32(b))
	}
	return math.Float64bits(a) == math.Float64bits(b)
}

// Compare checks a decoded value against the expectation.
func Compare(exp *Node, got *jsonv.Value, r Repr, path string) error {
	if got == nil {
		return fmt.Errorf("%s: missing", path)
	}
	fail := func(f string, a ...any) error {
		return fmt.Errorf("%s: %s", path, fmt.Sprintf(f, a...))
	}
	switch exp.Kind {
	case KAny:
		return nil
	case KNull:
		if got.Kind != jsonv.Null {
			return fail("want null got %s", jsonv.Render(got))
		}
	case KBool:
		if got.Kind != jsonv.Bool || got.B != exp.B {
			return fail("want %v got %s", exp.B, jsonv.Render(got))
		}
	case KInt:
		if got.Kind != jsonv.Num {
			return fail("want integer %d got %s", exp.I, jsonv.Render(got))
		}
		g, err := strconv.ParseInt(got.Num, 10, 64)
		if err != nil || g != exp.I {
			return fail("want integer %d got %s", exp.I, got.Num)
		}
	case KUint:
		if got.Kind != jsonv.Num {
			return fail("want unsigned %d got %s", exp.U, jsonv.Render(got))
		}
		g, err := strconv.ParseUint(got.Num, 10, 64)
		if err != nil || g != exp.U {
			return fail("want unsigned %d got %s", exp.U, got.Num)
		}
	case KF64:
		if err := floatText(got, exp.F, 64); err != nil {
			return fail("%v", err)
		}
	case KF32:
		if err := floatText(got, float64(exp.F32), 32); err != nil {
			return fail("%v", err)
		}
	case KStr:
		if got.Kind != jsonv.Str || got.Str != exp.S {
			return fail("want string %q got %s", clip(exp.S), clip(jsonv.Render(got)))
		}
	case KStrContains:
		if got.Kind != jsonv.Str || got.Str == "" || !strings.Contains(got.Str, exp.S) {
			return fail("want non-empty string containing %q got %s", clip(exp.S), clip(jsonv.Render(got)))
		}
	case KBinary:
		if got.Kind != jsonv.Str {
			return fail("want base64 string got %s", clip(jsonv.Render(got)))
		}
		b, err := base64.StdEncoding.DecodeString(got.Str)
		if err != nil || string(b) != string(exp.Bytes) {
			return fail("base64 does not decode to the %d bytes given (err=%v)", len(exp.Bytes), err)
		}
	case KC128, KC64:
		bits := 64
		if exp.Kind == KC64 {
			bits = 32
		}
		if got.Kind != jsonv.Str {
			return fail("want complex string got %s", jsonv.Render(got))
		}
		re, im, err := parseComplex(got.Str, bits)
		if err != nil {
			return fail("complex %q does not parse: %v", got.Str, err)
		}
		if !sameFloat(re, real(exp.C), bits) || !sameFloat(im, imag(exp.C), bits) {
			return fail("complex parts not recoverable: want %v got %q", exp.C, got.Str)
		}
	case KDur:
		return compareDur(exp.D, got, r, path)
	case KTime:
		return compareTime(exp.T, got, r, path)
	case KRaw:
		want, err := jsonv.Parse(exp.Raw)
		if err != nil {
			return nil // reference encoder produced something we cannot parse: not judged
		}
		if !jsonv.Equal(want, got) {
			return fail("reflected value differs: want %s got %s", clip(string(exp.Raw)), clip(jsonv.Render(got)))
		}
	case KArr:
		if got.Kind != jsonv.Arr {
			return fail("want array got %s", clip(jsonv.Render(got)))
		}
		if len(got.Elems) != len(exp.Elems) {
			return fail("want %d elements got %d: %s", len(exp.Elems), len(got.Elems), clip(jsonv.Render(got)))
		}
		for i := range exp.Elems {
			if err := Compare(exp.Elems[i], got.Elems[i], r, fmt.Sprintf("%s[%d]", path, i)); err != nil {
				return err
			}
		}
	case KObj:
		if got.Kind != jsonv.Obj {
			return fail("want object got %s", clip(jsonv.Render(got)))
		}
		if r.Ordered {
			gi := 0
			for _, m := range exp.Members {
				if gi < len(got.Members) && got.Members[gi].Key == Sanitize(m.Key) {
					if err := Compare(m.Val, got.Members[gi].Val, r, path+"."+m.Key); err != nil {
						return err
					}
					gi++
					continue
				}
				if m.Optional {
					continue
				}
				return fail("member %q missing or out of order (want %v got %v)", Sanitize(m.Key), keysOfNode(exp), keysOfValue(got))
			}
			if gi != len(got.Members) {
				return fail("unexpected member %q (want %v got %v)", got.Members[gi].Key, keysOfNode(exp), keysOfValue(got))
			}
			return nil
		}
		if len(got.Members) != len(exp.Members) {
			return fail("want members %v got %v", keysOfNode(exp), keysOfValue(got))
		}
		for _, m := range exp.Members {
			g := got.Get(Sanitize(m.Key))
			if g == nil {
				return fail("member %q missing (got %v)", m.Key, keysOfValue(got))
			}
			if err := Compare(m.Val, g, r, path+"."+m.Key); err != nil {
				return err
			}
		}
	}
	return nil
}

func clip(s string) string {
	if len(s) > 200 {
		return s[:200] + "..."
	}
	return s
}

func keysOfNode(n *Node) []string {
	var ks []string
	for _, m := range n.Members {
		ks = append(ks, Sanitize(m.Key))
	}
	return ks
}

func keysOfValue(v *jsonv.Value) []string {
	var ks []string
	for _, m := range v.Members {
		ks = append(ks, m.Key)
	}
	return ks
}

func compareDur(d time.Duration, got *jsonv.Value, r Repr, path string) error {
	fail := func(f string, a ...any) error {
		return fmt.Errorf("%s: duration %d: %s", path, int64(d), fmt.Sprintf(f, a...))
	}
	switch r.Dur {
	case DNanosFallback, DNanos:
		if got.Kind != jsonv.Num {
			return fail("want integer nanoseconds got %s", jsonv.Render(got))
		}
		g, err := strconv.ParseInt(got.Num, 10, 64)
		if err != nil || g != int64(d) {
			return fail("want %d got %s", int64(d), got.Num)
		}
	case DMillis:
		if got.Kind != jsonv.Num {
			return fail("want integer milliseconds got %s", jsonv.Render(got))
		}
		g, err := strconv.ParseInt(got.Num, 10, 64)
		if err != nil || g != int64(d)/1000000 {
			return fail("want %d ms got %s", int64(d)/1000000, got.Num)
		}
	case DSeconds:
		if err := floatText(got, float64(d)/float64(time.Second), 64); err != nil {
			return fail("seconds: %v", err)
		}
	case DString:
		if got.Kind != jsonv.Str {
			return fail("want duration string got %s", jsonv.Render(got))
		}
		g, err := time.ParseDuration(got.Str)
		if err != nil || g != d {
			return fail("string %q does not parse back to the duration (err=%v)", got.Str, err)
		}
	}
	return nil
}

func compareTime(t time.Time, got *jsonv.Value, r Repr, path string) error {
	fail := func(f string, a ...any) error {
		return fmt.Errorf("%s: time %s: %s", path, t.Format(time.RFC3339Nano), fmt.Sprintf(f, a...))
	}
	switch r.Time {
	case TNanosFallback, TEpochNanos:
		if got.Kind != jsonv.Num {
			return fail("want integer nanoseconds got %s", jsonv.Render(got))
		}
		g, err := strconv.ParseInt(got.Num, 10, 64)
		if err != nil || g != t.UnixNano() {
			return fail("want %d got %s", t.UnixNano(), got.Num)
		}
	case TEpoch:
		if err := floatText(got, float64(t.UnixNano())/float64(time.Second), 64); err != nil {
			return fail("epoch seconds: %v", err)
		}
	case TEpochMillis:
		if err := floatText(got, float64(t.UnixNano())/float64(time.Millisecond), 64); err != nil {
			return fail("epoch millis: %v", err)
		}
	default:
		if got.Kind != jsonv.Str {
			return fail("want formatted string got %s", jsonv.Render(got))
		}
		want := Sanitize(t.Format(r.layout()))
		if got.Str != want {
			return fail("layout %q: want %q got %q", r.layout(), want, got.Str)
		}
	}
	return nil
}
