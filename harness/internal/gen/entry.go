package gen

import (
	"fmt"
	"strings"
	"time"

	"go.uber.org/zap/verif/internal/ref"
	"go.uber.org/zap/verif/internal/rng"
	"go.uber.org/zap/zapcore"
)

// Case is one complete encoding case.
type Case struct {
	Cfg    Cfg
	Ent    zapcore.Entry
	Ctx    [][]FieldCase // one list per With call
	Fields []FieldCase
	Faults int
	Tags   map[string]int
}

// LevelName is the documented lower-case text of a level.
func LevelName(l zapcore.Level) string {
	switch l {
	case -1:
		return "debug"
	case 0:
		return "info"
	case 1:
		return "warn"
	case 2:
		return "error"
	case 3:
		return "dpanic"
	case 4:
		return "panic"
	case 5:
		return "fatal"
	}
	return fmt.Sprintf("Level(%d)", int8(l))
}

// LevelCapital is the documented capital text of a level.
func LevelCapital(l zapcore.Level) string {
	if l >= -1 && l <= 5 {
		return strings.ToUpper(LevelName(l))
	}
	return fmt.Sprintf("LEVEL(%d)", int8(l))
}

// Level generates a level value (any int8, biased to the supported ones).
func (g *G) Level() zapcore.Level {
	r := g.R
	switch r.Intn(4) {
	case 0:
		return zapcore.Level(int8(r.Intn(256) - 128))
	case 1:
		return rng.Pick(r, []zapcore.Level{-128, 127, -2, 6, 7})
	}
	return zapcore.Level(r.Intn(7) - 1)
}

// Entry generates an entry.
func (g *G) Entry() zapcore.Entry {
	r := g.R
	e := zapcore.Entry{Level: g.Level(), Message: g.Str()}
	if !r.P(1, 6) {
		if g.Opt.Hostile {
			e.Time = g.Time()
		} else {
			e.Time = g.SaneTime()
		}
	}
	if r.P(1, 2) {
		e.LoggerName = rng.Pick(r, []string{"main", "a.b", "svc.sub.x", g.Str()})
	}
	if r.P(1, 2) {
		e.Caller = zapcore.EntryCaller{Defined: true, PC: uintptr(r.Intn(1 << 20)),
			File: rng.Pick(r, []string{"/home/u/go/src/pkg/file.go", "file.go", "pkg/file.go", "/a/b/c/d.go", "C:/x/y/z.go", g.Str(),
				// separators at the very start and end, directly below the root, doubled, none
				"/app/main.go", "/main.go", "//main.go", "a//b.go", "/", "//", "dir/", "/dir/", "x/y", "/x/y/", ""}),
			Line:     rng.Pick(r, []int{0, 1, 42, 100000, -1}),
			Function: rng.Pick(r, []string{"pkg.Func", "main.main", "a/b.(*T).M", "f"})}
		if g.Opt.Hostile && r.P(1, 4) {
			e.Caller.Function = g.Str()
		}
	} else if g.Opt.Hostile && r.P(1, 8) {
		e.Caller = zapcore.EntryCaller{File: "undefined.go", Line: 3} // not Defined
	}
	if r.P(1, 3) {
		e.Stack = rng.Pick(r, []string{"main.f\n\t/x/y.go:12\nmain.main\n\t/x/y.go:30", "single", g.Str()})
	}
	return e
}

// Case generates a complete case. hostile selects the C01 domain, otherwise the
// decodable C02 domain.
func (g *G) Case(hostile bool) *Case {
	r := g.R
	c := &Case{}
	if hostile {
		c.Cfg = g.CfgHostile()
	} else {
		c.Cfg = g.CfgDecodable()
	}
	c.Ent = g.Entry()
	for n := rng.Pick(r, []int{0, 0, 1, 1, 2, 3, 5}); n > 0; n-- {
		c.Ctx = append(c.Ctx, g.Fields(r.Intn(4), g.Opt.MaxDepth))
	}
	c.Fields = g.Fields(r.Intn(g.Opt.MaxFields+1), g.Opt.MaxDepth)
	c.Faults = g.Faults
	c.Tags = g.Tags
	return c
}

// CallerText is the documented rendering of a caller.
func CallerText(short bool, ec zapcore.EntryCaller) string {
	full := fmt.Sprintf("%s:%d", ec.File, ec.Line)
	if !short {
		return full
	}
	i := strings.LastIndexByte(ec.File, '/')
	if i < 0 {
		return full
	}
	j := strings.LastIndexByte(ec.File[:i], '/')
	if j < 0 {
		return full
	}
	return fmt.Sprintf("%s:%d", ec.File[j+1:], ec.Line)
}

// Meta describes the expected metadata members, in order.
type Meta struct {
	Members []ref.Member // Optional marks a recorded don't-care
}

// ExpectMeta computes the metadata members the statement requires for the JSON encoder.
func (c *Case) ExpectMeta() Meta {
	var m Meta
	add := func(k string, n *ref.Node, opt bool) {
		m.Members = append(m.Members, ref.Member{Key: k, Val: n, Optional: opt})
	}
	cfg, e := c.Cfg, c.Ent
	if cfg.LevelKey != "" && cfg.Level != LvlNil {
		switch cfg.Level {
		case LvlLower:
			add(cfg.LevelKey, ref.Str(LevelName(e.Level)), false)
		case LvlCapital:
			add(cfg.LevelKey, ref.Str(LevelCapital(e.Level)), false)
		case LvlLowerColor:
			add(cfg.LevelKey, ref.Contains(LevelName(e.Level)), false)
		case LvlCapitalColor:
			add(cfg.LevelKey, ref.Contains(LevelCapital(e.Level)), false)
		default: // no-op encoder: some string naming the level
			add(cfg.LevelKey, ref.Any(), false)
		}
	}
	if cfg.TimeKey != "" && !e.Time.IsZero() {
		// don't-care (a): with no time encoder the part may be omitted or be integer nanoseconds
		add(cfg.TimeKey, ref.Time(e.Time), cfg.Time == TimeNil)
	}
	if cfg.NameKey != "" && e.LoggerName != "" {
		add(cfg.NameKey, ref.Str(e.LoggerName), false)
	}
	if e.Caller.Defined {
		if cfg.CallerKey != "" && cfg.Caller != CallerNil {
			switch cfg.Caller {
			case CallerFull:
				add(cfg.CallerKey, ref.Str(CallerText(false, e.Caller)), false)
			case CallerShort:
				add(cfg.CallerKey, ref.Str(CallerText(true, e.Caller)), false)
			default:
				add(cfg.CallerKey, ref.Any(), false)
			}
		}
		if cfg.FunctionKey != "" {
			add(cfg.FunctionKey, ref.Str(e.Caller.Function), e.Caller.Function == "")
		}
	}
	if cfg.MessageKey != "" {
		add(cfg.MessageKey, ref.Str(e.Message), false)
	}
	return m
}

// ExpectFields builds the expected object for the context and call-site fields
// alone (what follows the metadata, before the stack).
func (c *Case) ExpectFields() *ref.Node {
	b := ref.NewBuilder()
	for _, w := range c.Ctx {
		for _, f := range w {
			f.Apply(b)
		}
	}
	for _, f := range c.Fields {
		f.Apply(b)
	}
	return b.Root()
}

// HasStack reports whether the stack member must be present.
func (c *Case) HasStack() bool { return c.Cfg.StacktraceKey != "" && c.Ent.Stack != "" }

// AllFields returns context then call-site fields, flattened.
func (c *Case) AllFields() []FieldCase {
	var out []FieldCase
	for _, w := range c.Ctx {
		out = append(out, w...)
	}
	return append(out, c.Fields...)
}

// Describe renders the case for witnesses and samples.
func (c *Case) Describe() map[string]any {
	ctx := [][]string{}
	for _, w := range c.Ctx {
		ctx = append(ctx, Descs(w))
	}
	t := ""
	if !c.Ent.Time.IsZero() {
		t = c.Ent.Time.Format(time.RFC3339Nano) + " " + c.Ent.Time.Location().String()
	}
	return map[string]any{
		"config": c.Cfg.String(),
		"entry":  fmt.Sprintf("level=%d time=%q name=%q msg=%q caller=%+v stack=%q", int8(c.Ent.Level), t, c.Ent.LoggerName, c.Ent.Message, c.Ent.Caller, c.Ent.Stack),
		"with":   ctx,
		"fields": Descs(c.Fields),
		"faults": c.Faults,
	}
}
