package gen

import (
	"fmt"
	"io"
	"time"

	"go.uber.org/zap/verif/internal/ref"
	"go.uber.org/zap/verif/internal/rng"
	"go.uber.org/zap/zapcore"
)

// Sub-encoder choices.
const (
	EncNil  = 0
	EncNoop = 1
)

// Level encoders.
const (
	LvlNil = iota
	LvlNoop
	LvlLower
	LvlCapital
	LvlLowerColor
	LvlCapitalColor
)

// Time encoders.
const (
	TimeNil = iota
	TimeNoop
	TimeEpoch
	TimeEpochMillis
	TimeEpochNanos
	TimeISO8601
	TimeRFC3339
	TimeRFC3339Nano
	TimeLayout
)

// Duration encoders.
const (
	DurNil = iota
	DurNoop
	DurSeconds
	DurNanos
	DurMillis
	DurString
)

// Caller encoders.
const (
	CallerNil = iota
	CallerNoop
	CallerFull
	CallerShort
)

// Name encoders.
const (
	NameNil = iota
	NameNoop
	NameFull
)

// Cfg is a generated EncoderConfig in inspectable form.
type Cfg struct {
	MessageKey, LevelKey, TimeKey, NameKey, CallerKey, FunctionKey, StacktraceKey string
	SkipLineEnding                                                                bool
	LineEnding                                                                    string
	Level, Time, Dur, Caller, Name                                                int
	Layout                                                                        string
	ConsoleSeparator                                                              string
	CustomReflect                                                                 bool
}

func (c Cfg) String() string {
	return fmt.Sprintf("{msg=%q lvl=%q ts=%q name=%q caller=%q func=%q stack=%q skipLE=%v le=%q encLevel=%d encTime=%d(%q) encDur=%d encCaller=%d encName=%d sep=%q customReflect=%v}",
		c.MessageKey, c.LevelKey, c.TimeKey, c.NameKey, c.CallerKey, c.FunctionKey, c.StacktraceKey, c.SkipLineEnding, c.LineEnding, c.Level, c.Time, c.Layout, c.Dur, c.Caller, c.Name, c.ConsoleSeparator, c.CustomReflect)
}

// EffLineEnding is the line ending the encoders must append.
func (c Cfg) EffLineEnding() string {
	if c.SkipLineEnding {
		return ""
	}
	if c.LineEnding == "" {
		return "\n"
	}
	return c.LineEnding
}

// EffSeparator is the console separator in force.
func (c Cfg) EffSeparator() string {
	if c.ConsoleSeparator == "" {
		return "\t"
	}
	return c.ConsoleSeparator
}

// Repr returns the comparator configuration for field values.
func (c Cfg) Repr() ref.Repr {
	r := ref.Repr{Ordered: true, Layout: c.Layout}
	switch c.Time {
	case TimeNil, TimeNoop:
		r.Time = ref.TNanosFallback
	case TimeEpoch:
		r.Time = ref.TEpoch
	case TimeEpochMillis:
		r.Time = ref.TEpochMillis
	case TimeEpochNanos:
		r.Time = ref.TEpochNanos
	case TimeISO8601:
		r.Time = ref.TISO8601
	case TimeRFC3339:
		r.Time = ref.TRFC3339
	case TimeRFC3339Nano:
		r.Time = ref.TRFC3339Nano
	case TimeLayout:
		r.Time = ref.TLayout
	}
	switch c.Dur {
	case DurNil, DurNoop:
		r.Dur = ref.DNanosFallback
	case DurSeconds:
		r.Dur = ref.DSeconds
	case DurNanos:
		r.Dur = ref.DNanos
	case DurMillis:
		r.Dur = ref.DMillis
	case DurString:
		r.Dur = ref.DString
	}
	return r
}

type customReflectEnc struct{ w io.Writer }

// Encode is a well-behaved custom reflected encoder: always one JSON string.
func (e customReflectEnc) Encode(v interface{}) error {
	_, err := fmt.Fprintf(e.w, "%q\n", fmt.Sprintf("custom:%T", v))
	return err
}

// Zap materialises the zapcore.EncoderConfig.
func (c Cfg) Zap() zapcore.EncoderConfig {
	z := zapcore.EncoderConfig{
		MessageKey: c.MessageKey, LevelKey: c.LevelKey, TimeKey: c.TimeKey, NameKey: c.NameKey,
		CallerKey: c.CallerKey, FunctionKey: c.FunctionKey, StacktraceKey: c.StacktraceKey,
		SkipLineEnding: c.SkipLineEnding, LineEnding: c.LineEnding, ConsoleSeparator: c.ConsoleSeparator,
	}
	switch c.Level {
	case LvlNoop:
		z.EncodeLevel = func(zapcore.Level, zapcore.PrimitiveArrayEncoder) {}
	case LvlLower:
		z.EncodeLevel = zapcore.LowercaseLevelEncoder
	case LvlCapital:
		z.EncodeLevel = zapcore.CapitalLevelEncoder
	case LvlLowerColor:
		z.EncodeLevel = zapcore.LowercaseColorLevelEncoder
	case LvlCapitalColor:
		z.EncodeLevel = zapcore.CapitalColorLevelEncoder
	}
	switch c.Time {
	case TimeNoop:
		z.EncodeTime = func(time.Time, zapcore.PrimitiveArrayEncoder) {}
	case TimeEpoch:
		z.EncodeTime = zapcore.EpochTimeEncoder
	case TimeEpochMillis:
		z.EncodeTime = zapcore.EpochMillisTimeEncoder
	case TimeEpochNanos:
		z.EncodeTime = zapcore.EpochNanosTimeEncoder
	case TimeISO8601:
		z.EncodeTime = zapcore.ISO8601TimeEncoder
	case TimeRFC3339:
		z.EncodeTime = zapcore.RFC3339TimeEncoder
	case TimeRFC3339Nano:
		z.EncodeTime = zapcore.RFC3339NanoTimeEncoder
	case TimeLayout:
		z.EncodeTime = zapcore.TimeEncoderOfLayout(c.Layout)
	}
	switch c.Dur {
	case DurNoop:
		z.EncodeDuration = func(time.Duration, zapcore.PrimitiveArrayEncoder) {}
	case DurSeconds:
		z.EncodeDuration = zapcore.SecondsDurationEncoder
	case DurNanos:
		z.EncodeDuration = zapcore.NanosDurationEncoder
	case DurMillis:
		z.EncodeDuration = zapcore.MillisDurationEncoder
	case DurString:
		z.EncodeDuration = zapcore.StringDurationEncoder
	}
	switch c.Caller {
	case CallerNoop:
		z.EncodeCaller = func(zapcore.EntryCaller, zapcore.PrimitiveArrayEncoder) {}
	case CallerFull:
		z.EncodeCaller = zapcore.FullCallerEncoder
	case CallerShort:
		z.EncodeCaller = zapcore.ShortCallerEncoder
	}
	switch c.Name {
	case NameNoop:
		z.EncodeName = func(string, zapcore.PrimitiveArrayEncoder) {}
	case NameFull:
		z.EncodeName = zapcore.FullNameEncoder
	}
	if c.CustomReflect {
		z.NewReflectedEncoder = func(w io.Writer) zapcore.ReflectedEncoder { return customReflectEnc{w} }
	}
	return z
}

var benignLayouts = []string{time.RFC3339, time.RFC3339Nano, time.RFC1123Z, time.Kitchen, "2006-01-02", "15:04:05.000000", time.StampNano, "Jan _2 2006 MST", "2006-01-02T15:04:05.999999999Z07:00", "Monday, 02-Jan-06 15:04:05 MST"}

var hostileLayouts = []string{"\"", "a\"b", "\\", "2006\n01", "\t15:04", "MST", "Z07:00 MST \"q\"", "\xff2006", "", "\x00", "{\"t\":2006}", "2006-01-02T15:04:05Z07:00\r\n"}

func (g *G) metaKey(def string, hostile bool) string {
	r := g.R
	if !hostile {
		switch r.Intn(6) {
		case 0:
			return ""
		default:
			return def
		}
	}
	switch r.Intn(8) {
	case 0:
		return ""
	case 1:
		return rng.Pick(r, hostileStrings)
	case 2:
		return "k" // duplicates a field key / other meta keys
	case 3:
		return "msg"
	}
	return def
}

// CfgDecodable generates a configuration whose output can be decoded back:
// built-in (or nil) sub-encoders and benign layouts; keys may be absent.
func (g *G) CfgDecodable() Cfg {
	r := g.R
	c := Cfg{
		MessageKey: g.metaKey("msg", false), LevelKey: g.metaKey("level", false), TimeKey: g.metaKey("ts", false),
		NameKey: g.metaKey("logger", false), CallerKey: g.metaKey("caller", false), FunctionKey: g.metaKey("func", false),
		StacktraceKey: g.metaKey("stacktrace", false),
	}
	c.Level = rng.Pick(r, []int{LvlNil, LvlLower, LvlLower, LvlCapital, LvlLowerColor, LvlCapitalColor})
	c.Time = rng.Pick(r, []int{TimeNil, TimeEpoch, TimeEpochMillis, TimeEpochNanos, TimeISO8601, TimeRFC3339, TimeRFC3339Nano, TimeLayout})
	if c.Time == TimeLayout {
		c.Layout = rng.Pick(r, benignLayouts)
	}
	c.Dur = rng.Pick(r, []int{DurNil, DurSeconds, DurNanos, DurMillis, DurString})
	c.Caller = rng.Pick(r, []int{CallerNil, CallerFull, CallerShort, CallerShort})
	c.Name = rng.Pick(r, []int{NameNil, NameFull})
	switch r.Intn(6) {
	case 0:
		c.SkipLineEnding = true
		c.LineEnding = rng.Pick(r, []string{"", "\n", "zzz"})
	case 1:
		c.LineEnding = "\r\n"
	case 2:
		c.LineEnding = rng.Pick(r, []string{"\n\n", "|", "END\n"})
	}
	return c
}

// CfgHostile generates any configuration in the domain of C01.
func (g *G) CfgHostile() Cfg {
	r := g.R
	c := Cfg{
		MessageKey: g.metaKey("msg", true), LevelKey: g.metaKey("level", true), TimeKey: g.metaKey("ts", true),
		NameKey: g.metaKey("logger", true), CallerKey: g.metaKey("caller", true), FunctionKey: g.metaKey("func", true),
		StacktraceKey: g.metaKey("stacktrace", true),
	}
	c.Level = r.Intn(6)
	c.Time = r.Intn(9)
	if c.Time == TimeLayout {
		if r.P(1, 2) {
			c.Layout = rng.Pick(r, hostileLayouts)
		} else {
			c.Layout = rng.Pick(r, benignLayouts)
		}
	}
	c.Dur = r.Intn(6)
	c.Caller = r.Intn(4)
	c.Name = r.Intn(3)
	c.CustomReflect = r.P(1, 8)
	switch r.Intn(6) {
	case 0:
		c.SkipLineEnding = true
		c.LineEnding = rng.Pick(r, []string{"", "\n", "zzz"})
	case 1:
		c.LineEnding = "\r\n"
	case 2:
		c.LineEnding = rng.Pick(r, []string{"\n\n", "|", "END\n", "}\n", "\"\n"})
	}
	if r.P(1, 3) {
		c.ConsoleSeparator = rng.Pick(r, []string{" | ", "→", "{", " ", "\t\t"})
	}
	return c
}
