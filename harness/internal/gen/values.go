// Package gen holds the seeded generators. Every generated item carries its own
// expectation, computed from the values the generator chose and never by
// calling zap.
package gen

import (
	"math"

	"go.uber.org/zap/zapcore"
	"strings"
	"time"

	"go.uber.org/zap/verif/internal/rng"
)

// G is a generation context.
type G struct {
	R   *rng.R
	Opt Opts

	keyN        int
	faultSeen   int // fault-capable sites seen so far
	FaultTarget int // -1: faults by probability; >=0: exactly that site fails
	Faults      int // faults actually injected
	Tags        map[string]int
	// AtomicShadow[k] mirrors the level last requested for shared AtomicLevel k (see Enab.Shadow)
	AtomicShadow []zapcore.Level
}

// Opts tunes a generator.
type Opts struct {
	Hostile      bool // hostile keys and strings (control bytes, invalid UTF-8, quotes)
	UniqueKeys   bool // every key unique within the case
	MaxDepth     int  // nesting bound
	FaultNum     int  // probability FaultNum/FaultDen of a failure at a fault-capable site
	FaultDen     int
	NoFaults     bool // no failing fields at all
	MaxFields    int
	NoNamespaces bool
	BigStrings   bool
	NoReflect    bool
}

// New returns a generation context.
func New(r *rng.R, o Opts) *G {
	if o.MaxDepth == 0 {
		o.MaxDepth = 4
	}
	if o.MaxFields == 0 {
		o.MaxFields = 6
	}
	if o.FaultDen == 0 {
		o.FaultDen = 1
	}
	return &G{R: r, Opt: o, FaultTarget: -1, Tags: map[string]int{}}
}

func (g *G) tag(s string) { g.Tags[s]++ }

// fault decides whether the current fault-capable site fails. The random draw is
// always made so that the rest of the case does not depend on the decision.
func (g *G) fault() bool {
	idx := g.faultSeen
	g.faultSeen++
	draw := g.R.Intn(g.Opt.FaultDen) < g.Opt.FaultNum
	if g.Opt.NoFaults {
		return false
	}
	f := draw
	if g.FaultTarget >= 0 {
		f = idx == g.FaultTarget
	}
	if f {
		g.Faults++
	}
	return f
}

// FaultSites returns how many fault-capable sites were generated.
func (g *G) FaultSites() int { return g.faultSeen }

var hostileStrings = []string{
	"", " ", "\"", "\\", "\n", "\r\n", "\t", "\x00", "\x01\x02\x1f", "\x7f", "a\"b\\c\nd",
	"  ", "\xff", "\xc0\xaf", "\xed\xa0\x80", "\xf0\x28\x8c\x28", "ab\xe2\x82", "\x80\x80\x80",
	"日本語", "😀", "é́", "{\"x\":1}", "}", "]", ",", ":", "\\u0000", "</script>", "&<>",
	"key with spaces", "ünï", "�", "\xef\xbf\xbd", "\x1b[31m",
}

// Str generates a string value.
func (g *G) Str() string {
	r := g.R
	if !g.Opt.Hostile {
		switch r.Intn(8) {
		case 0:
			return ""
		case 1:
			return rng.Pick(r, []string{"hello", "world", "zap", "a b", "x=y", "日本語", "😀 ok"})
		}
		n := r.Intn(12)
		if r.P(1, 16) {
			n = rng.Pick(r, []int{63, 64, 255, 256, 257, 513, 1023, 1024, 1025, 2049})
		}
		b := make([]byte, n)
		for i := range b {
			b[i] = "abcdefghijklmnopqrstuvwxyzABCXYZ0123456789 _-./"[r.Intn(47)]
		}
		return string(b)
	}
	switch r.Intn(10) {
	case 0, 1, 2:
		return rng.Pick(r, hostileStrings)
	case 3, 4:
		n := r.Intn(16)
		b := make([]byte, n)
		for i := range b {
			b[i] = byte(r.Intn(256))
		}
		return string(b)
	case 5:
		var sb strings.Builder
		for k := r.Intn(4) + 1; k > 0; k-- {
			sb.WriteString(rng.Pick(r, hostileStrings))
			sb.WriteString(rng.Pick(r, []string{"", "x", "é", "\n"}))
		}
		return sb.String()
	case 6:
		if g.Opt.BigStrings {
			n := rng.Pick(r, []int{1000, 1023, 1024, 1025, 2048, 5000, 70000})
			b := make([]byte, n)
			for i := range b {
				b[i] = "ab\"\n\xffé"[r.Intn(6)]
			}
			return string(b)
		}
		return strings.Repeat("é\"", r.Intn(40))
	default:
		n := r.Intn(10)
		b := make([]byte, n)
		for i := range b {
			b[i] = "abcxyz019 _\"\\\n\t"[r.Intn(15)]
		}
		return string(b)
	}
}

// Key generates a field key.
func (g *G) Key() string {
	g.keyN++
	if g.Opt.UniqueKeys {
		base := "k"
		if g.Opt.Hostile {
			base = rng.Pick(g.R, []string{"k", "k\"", "k\n", "ké", "k\xff", "k\\", "k.", "k "})
		}
		return base + itoa(g.keyN)
	}
	r := g.R
	if g.Opt.Hostile {
		switch r.Intn(6) {
		case 0:
			return rng.Pick(r, hostileStrings)
		case 1:
			return rng.Pick(r, []string{"msg", "level", "ts", "caller", "stacktrace", "logger", "error", "k"})
		}
	}
	return rng.Pick(r, []string{"k", "a", "b", "key", "id", "user", "n", "x.y", "error", "msg", "k" + itoa(g.keyN)})
}

func itoa(n int) string {
	if n == 0 {
		return "0"
	}
	var b [20]byte
	i := len(b)
	for n > 0 {
		i--
		b[i] = byte('0' + n%10)
		n /= 10
	}
	return string(b[i:])
}

// Int64 generates a signed integer with boundary bias, within [lo,hi] of the width.
func (g *G) Int64(bits int) int64 {
	r := g.R
	min := int64(-1) << (bits - 1)
	max := -(min + 1)
	switch r.Intn(8) {
	case 0:
		return min
	case 1:
		return max
	case 2:
		return rng.Pick(r, []int64{0, 1, -1, 2, -2, 10, -10, 100})
	case 3:
		sh := r.Intn(bits - 1)
		v := int64(1) << sh
		return v + int64(r.Intn(3)) - 1
	case 4:
		return min + int64(r.Intn(3))
	case 5:
		return max - int64(r.Intn(3))
	}
	v := int64(r.Uint64())
	if bits < 64 {
		v >>= (64 - bits)
	}
	return v
}

// Uint64 generates an unsigned integer with boundary bias.
func (g *G) Uint64(bits int) uint64 {
	r := g.R
	max := ^uint64(0) >> (64 - bits)
	switch r.Intn(7) {
	case 0:
		return 0
	case 1:
		return max
	case 2:
		return max - uint64(r.Intn(3))
	case 3:
		return (uint64(1) << r.Intn(bits)) + uint64(r.Intn(3)) - 1
	case 4:
		return (max >> 1) + uint64(r.Intn(3)) // around the sign bit
	}
	return r.Uint64() & max
}

// Float64 generates a float64 with boundary bias.
func (g *G) Float64() float64 {
	r := g.R
	switch r.Intn(12) {
	case 0:
		return math.NaN()
	case 1:
		return math.Float64frombits(0x7ff8000000000001 | r.Uint64()&0x0007ffffffffffff) // NaN payloads
	case 2:
		return math.Inf(1)
	case 3:
		return math.Inf(-1)
	case 4:
		return math.Copysign(0, -1)
	case 5:
		return rng.Pick(r, []float64{0, 1, -1, 0.1, 0.5, 1e21, 1e-7, 1e20, 123456789.125, math.MaxFloat64, -math.MaxFloat64, math.SmallestNonzeroFloat64, 2.2250738585072014e-308, 5e-324, float64(1 << 53), float64(1<<53) + 2})
	case 6:
		return math.Float64frombits(r.Uint64() & 0x000fffffffffffff) // subnormal
	case 7:
		return float64(g.Int64(64))
	}
	for {
		f := math.Float64frombits(r.Uint64())
		if !math.IsNaN(f) {
			return f
		}
	}
}

// Float32 generates a float32 with boundary bias.
func (g *G) Float32() float32 {
	r := g.R
	switch r.Intn(10) {
	case 0:
		return float32(math.NaN())
	case 1:
		return float32(math.Inf(1))
	case 2:
		return float32(math.Inf(-1))
	case 3:
		return float32(math.Copysign(0, -1))
	case 4:
		return rng.Pick(r, []float32{0, 1, -1, 0.1, 0.3, 1e10, 1e-10, math.MaxFloat32, -math.MaxFloat32, math.SmallestNonzeroFloat32, 16777216, 16777217, 3.4e38, 1.17549435e-38})
	case 5:
		return math.Float32frombits(r.Uint32() & 0x007fffff) // subnormal
	}
	for {
		f := math.Float32frombits(r.Uint32())
		if f == f {
			return f
		}
	}
}

// Locations used by time generators.
var locations = func() []*time.Location {
	ls := []*time.Location{time.UTC, time.Local, time.FixedZone("", 0), time.FixedZone("X", 3600), time.FixedZone("odd", -(12*3600 + 34*60 + 56)), time.FixedZone("P530", 5*3600+1800)}
	for _, n := range []string{"America/New_York", "Asia/Kolkata", "Australia/Lord_Howe"} {
		if l, err := time.LoadLocation(n); err == nil {
			ls = append(ls, l)
		}
	}
	return ls
}()

// HostileLocations have names that need escaping.
var HostileLocations = []*time.Location{
	time.FixedZone("a\"b", 3600), time.FixedZone("z\\", -3600), time.FixedZone("n\nl", 60), time.FixedZone("\xff\xfe", 7200), time.FixedZone("tab\t", 0), time.FixedZone("\x01", 1),
}

// Loc picks a location.
func (g *G) Loc() *time.Location {
	if g.Opt.Hostile && g.R.P(1, 4) {
		return rng.Pick(g.R, HostileLocations)
	}
	return rng.Pick(g.R, locations)
}

// Time generates a time.Time with boundary bias.
func (g *G) Time() time.Time {
	r := g.R
	loc := g.Loc()
	var t time.Time
	switch r.Intn(12) {
	case 0:
		return time.Time{}
	case 1:
		t = time.Unix(0, 0)
	case 2:
		t = time.Unix(0, math.MinInt64).Add(time.Duration(r.Intn(3) - 1))
	case 3:
		t = time.Unix(0, math.MaxInt64).Add(time.Duration(r.Intn(3) - 1))
	case 4:
		t = time.Date(1, 1, 1, 0, 0, 0, r.Intn(2), time.UTC)
	case 5:
		t = time.Date(9999, 12, 31, 23, 59, 59, 999999999, time.UTC)
	case 6:
		t = time.Date(10000+r.Intn(5000), 1, 1, 0, 0, 0, 0, time.UTC)
	case 7:
		t = time.Date(-r.Intn(3000), 6, 1, 0, 0, 0, 0, time.UTC)
	case 8:
		t = time.Unix(int64(r.Intn(2000000000)), int64(r.Intn(1000))*1000000) // whole millis
	default:
		t = time.Unix(int64(r.Intn(4000000000))-1000000000, int64(r.Intn(1000000000)))
	}
	return t.In(loc)
}

// SaneTime generates a time inside the int64-nanosecond range, year 1678..2261.
func (g *G) SaneTime() time.Time {
	r := g.R
	return time.Unix(int64(r.Intn(4000000000))-1000000000, int64(r.Intn(1000000000))).In(g.Loc())
}

// Duration generates a duration with boundary bias.
func (g *G) Duration() time.Duration {
	r := g.R
	switch r.Intn(8) {
	case 0:
		return 0
	case 1:
		return time.Duration(math.MinInt64)
	case 2:
		return time.Duration(math.MaxInt64)
	case 3:
		return rng.Pick(r, []time.Duration{1, -1, 999999, 1000000, 1000001, -999999, -1000000, -1000001, time.Second, time.Millisecond * 1500, -time.Hour, 1999999, -1999999,
			// long durations one nanosecond short of a whole millisecond: not representable in a float64
			400*24*time.Hour - 1, -(400*24*time.Hour - 1), 9007199254999999, -9007199254999999})
	}
	return time.Duration(g.Int64(64))
}

// Bytes generates a byte slice.
func (g *G) Bytes() []byte {
	r := g.R
	switch r.Intn(5) {
	case 0:
		return nil
	case 1:
		return []byte{}
	}
	n := r.Intn(24)
	if g.Opt.BigStrings && r.P(1, 20) {
		n = 3000
	}
	if r.P(1, 12) {
		// around chunk, pool-buffer and base64 group boundaries
		n = rng.Pick(r, []int{47, 48, 49, 255, 256, 257, 511, 512, 513, 514, 1023, 1024, 1025, 1536, 4097})
	}
	b := make([]byte, n)
	for i := range b {
		b[i] = byte(r.Intn(256))
	}
	return b
}
