package gen

import (
	"fmt"
	"strings"
	"time"

	"go.uber.org/zap"
	"go.uber.org/zap/verif/internal/rec"
	"go.uber.org/zap/verif/internal/rng"
	"go.uber.org/zap/zapcore"
	"go.uber.org/zap/zaptest/observer"
)

// Enab is a generated level enabler with its model.
type Enab struct {
	Kind   string // static, atomic, func
	Thr    zapcore.Level
	Atomic zap.AtomicLevel
	Set    [256]bool
	// Shadow, when set, is the harness's own record of the level last requested for this shared
	// AtomicLevel (through whatever route): the model follows the request, the core follows zap.
	Shadow *zapcore.Level
}

// On is the model: does the enabler enable l.
func (e *Enab) On(l zapcore.Level) bool {
	switch e.Kind {
	case "static":
		return l >= e.Thr
	case "atomic":
		if e.Shadow != nil {
			return l >= *e.Shadow
		}
		return l >= e.Atomic.Level()
	}
	return e.Set[int(l)+128]
}

// Zap returns the real enabler.
func (e *Enab) Zap() zapcore.LevelEnabler {
	switch e.Kind {
	case "static":
		return e.Thr
	case "atomic":
		return e.Atomic
	}
	set := e.Set
	return zap.LevelEnablerFunc(func(l zapcore.Level) bool { return set[int(l)+128] })
}

func (e *Enab) String() string {
	switch e.Kind {
	case "static":
		return fmt.Sprintf("static(%d)", e.Thr)
	case "atomic":
		return fmt.Sprintf("atomic(%d)", e.Atomic.Level())
	}
	var on []string
	for l := -2; l <= 7; l++ {
		if e.Set[l+128] {
			on = append(on, fmt.Sprint(l))
		}
	}
	return "func{" + strings.Join(on, ",") + ",...}"
}

// Enabler generates an enabler. atomics is a pool of shared AtomicLevels.
func (g *G) Enabler(atomics []zap.AtomicLevel) *Enab {
	r := g.R
	thr := func() zapcore.Level {
		switch r.Intn(6) {
		case 0:
			return zapcore.Level(int8(r.Intn(256) - 128))
		case 1:
			return rng.Pick(r, []zapcore.Level{-128, -2, 6, 7, 127})
		}
		return zapcore.Level(r.Intn(7) - 1)
	}
	switch r.Intn(4) {
	case 0:
		return &Enab{Kind: "static", Thr: thr()}
	case 1:
		if len(atomics) > 0 {
			k := r.Intn(len(atomics))
			e := &Enab{Kind: "atomic", Atomic: atomics[k]}
			if g.AtomicShadow != nil && k < len(g.AtomicShadow) {
				e.Shadow = &g.AtomicShadow[k]
			}
			return e
		}
		return &Enab{Kind: "atomic", Atomic: zap.NewAtomicLevelAt(thr())}
	case 2: // arbitrary, also non-monotone, subset
		e := &Enab{Kind: "func"}
		switch r.Intn(4) {
		case 0: // nothing
		case 1: // everything
			for i := range e.Set {
				e.Set[i] = true
			}
		default:
			p := r.Intn(4) + 1
			for i := range e.Set {
				e.Set[i] = r.Intn(5) < p
			}
		}
		return e
	default:
		return &Enab{Kind: "static", Thr: zapcore.Level(r.Intn(4) - 1)}
	}
}

// Leaf is a destination core with its recorder.
type Leaf struct {
	ID   int
	Kind string // observer, json, console
	// Fails: the destination records the entry and then reports a write error (a full disk, a closed
	// file): what the other destinations receive must not depend on that
	Fails bool
	Logs *observer.ObservedLogs
	Sink *rec.Sink
}

// Got reports whether the leaf recorded an entry with this message since the last reset.
func (l *Leaf) Got(msg string) int {
	n := 0
	if l.Logs != nil {
		for _, e := range l.Logs.All() {
			if e.Message == msg {
				n++
			}
		}
		return n
	}
	for _, w := range l.Sink.Writes() {
		if strings.Contains(string(w), msg) {
			n++
		}
	}
	return n
}

// Activity returns the number of recorded events.
func (l *Leaf) Activity() int {
	if l.Logs != nil {
		return l.Logs.Len()
	}
	return l.Sink.Len()
}

// Reset forgets recorded events.
func (l *Leaf) Reset() {
	if l.Logs != nil {
		l.Logs.TakeAll()
		return
	}
	l.Sink.Reset()
}

// Comp is a node of a core composition.
type Comp struct {
	Kind      string            // leaf, tee, increase, hooks, lazy, with, sampler, dropsampler, nop
	Seen      map[[2]uint32]int // dropsampler: entries counted per (level, message bucket)
	Enab      *Enab
	Kids      []*Comp
	Leaf      *Leaf
	HookID    int
	Collapsed bool // increase-level whose construction failed (as it must): acts as its inner core
	Fields    []zapcore.Field
	// a node may be the child of two parents (siblings derived from one shared core); it is built once
	built   zapcore.Core
	isBuilt bool
	Shared  bool
}

// Env collects what building a composition registers.
type Env struct {
	Leaves    []*Leaf
	HookCalls []int // per hook id
	Atomics   []zap.AtomicLevel
	Problems  []string // construction-time violations
	Shapes    map[string]int
}

func (c *Comp) String() string {
	switch c.Kind {
	case "leaf":
		if c.Leaf.Fails {
			return fmt.Sprintf("%s#%d[%s]{reports a write error}", c.Leaf.Kind, c.Leaf.ID, c.Enab)
		}
		return fmt.Sprintf("%s#%d[%s]", c.Leaf.Kind, c.Leaf.ID, c.Enab)
	case "nop":
		return "nop"
	case "increase":
		s := fmt.Sprintf("increase[%s](%s)", c.Enab, c.Kids[0])
		if c.Collapsed {
			s += "{rejected}"
		}
		return s
	case "hooks":
		return fmt.Sprintf("hooks#%d(%s)", c.HookID, c.Kids[0])
	case "tee":
		var ks []string
		for _, k := range c.Kids {
			ks = append(ks, k.String())
		}
		return "tee(" + strings.Join(ks, ", ") + ")"
	}
	return fmt.Sprintf("%s(%s)", c.Kind, c.Kids[0])
}

// Composition generates a composition tree of the given depth.
func (g *G) Composition(env *Env, depth int) *Comp {
	r := g.R
	if depth <= 0 || r.P(1, 4) {
		if r.P(1, 12) {
			return &Comp{Kind: "nop"}
		}
		l := &Leaf{ID: len(env.Leaves)}
		switch r.Intn(3) {
		case 0:
			l.Kind = "json"
			l.Sink = &rec.Sink{}
		case 1:
			l.Kind = "console"
			l.Sink = &rec.Sink{}
		default:
			l.Kind = "observer"
		}
		l.Fails = r.P(1, 8)
		env.Leaves = append(env.Leaves, l)
		return &Comp{Kind: "leaf", Leaf: l, Enab: g.Enabler(env.Atomics)}
	}
	if depth >= 2 && r.P(1, 5) {
		return g.siblings(env, depth)
	}
	switch r.Intn(9) {
	case 0, 1, 2:
		c := &Comp{Kind: "tee"}
		for n := r.Range(2, 4); n > 0; n-- {
			c.Kids = append(c.Kids, g.Composition(env, depth-1))
		}
		return c
	case 3, 4:
		return &Comp{Kind: "increase", Enab: g.Enabler(env.Atomics), Kids: []*Comp{g.Composition(env, depth-1)}}
	case 5, 6:
		id := len(env.HookCalls)
		env.HookCalls = append(env.HookCalls, 0)
		return &Comp{Kind: "hooks", HookID: id, Kids: []*Comp{g.Composition(env, depth-1)}}
	case 7:
		return &Comp{Kind: rng.Pick(r, []string{"lazy", "with"}), Fields: []zapcore.Field{zap.Int("ctx", r.Intn(100))}, Kids: []*Comp{g.Composition(env, depth-1)}}
	default:
		if r.P(1, 2) {
			// a sampler that really drops: first 1, nothing thereafter, within a one-hour tick
			return &Comp{Kind: "dropsampler", Seen: map[[2]uint32]int{}, Kids: []*Comp{g.Composition(env, depth-1)}}
		}
		return &Comp{Kind: "sampler", Kids: []*Comp{g.Composition(env, depth-1)}}
	}
}

// siblings generates two cores derived from one shared parent core (the same instance), combined by a
// tee: tee(wrap1(S), wrap2(S)). The shared parent is itself the product of repeated extension (a tee
// extended by a tee, hooks stacked on hooks, a filter over a filter), the shape in which a constructor
// that extends its argument in place would make the siblings disturb each other.
func (g *G) siblings(env *Env, depth int) *Comp {
	r := g.R
	hook := func(k *Comp) *Comp {
		id := len(env.HookCalls)
		env.HookCalls = append(env.HookCalls, 0)
		return &Comp{Kind: "hooks", HookID: id, Kids: []*Comp{k}}
	}
	var s *Comp
	switch r.Intn(4) {
	case 0:
		s = &Comp{Kind: "tee", Kids: []*Comp{g.Composition(env, 0), g.Composition(env, 0)}}
		for n := r.Range(1, 3); n > 0; n-- {
			s = &Comp{Kind: "tee", Kids: []*Comp{s, g.Composition(env, 0)}}
		}
	case 1:
		s = g.Composition(env, depth-2)
		for n := r.Range(1, 4); n > 0; n-- {
			s = hook(s)
		}
	case 2:
		s = g.Composition(env, depth-2)
		for n := r.Range(1, 2); n > 0; n-- {
			s = &Comp{Kind: "increase", Enab: g.Enabler(env.Atomics), Kids: []*Comp{s}}
		}
	default:
		s = g.Composition(env, depth-2)
	}
	s.Shared = true
	wrap := func() *Comp {
		// half of the time a sibling extends the shared parent in the parent's own manner (another hook
		// on a stack of hooks, another member on a tee of tees, another filter on a filter)
		if r.P(1, 2) {
			switch s.Kind {
			case "hooks":
				return hook(s)
			case "tee":
				return &Comp{Kind: "tee", Kids: []*Comp{s, g.Composition(env, 0)}}
			case "increase":
				return &Comp{Kind: "increase", Enab: g.Enabler(env.Atomics), Kids: []*Comp{s}}
			}
		}
		switch r.Intn(5) {
		case 0, 1:
			return &Comp{Kind: "tee", Kids: []*Comp{s, g.Composition(env, 0)}}
		case 2:
			return hook(s)
		case 3:
			return &Comp{Kind: "increase", Enab: g.Enabler(env.Atomics), Kids: []*Comp{s}}
		}
		return &Comp{Kind: rng.Pick(r, []string{"lazy", "with"}), Fields: []zapcore.Field{zap.Int("ctx", r.Intn(100))}, Kids: []*Comp{s}}
	}
	root := &Comp{Kind: "tee", Kids: []*Comp{wrap(), wrap()}}
	if r.P(1, 3) {
		root.Kids = append(root.Kids, wrap())
	}
	return root
}

var leafEncCfg = zapcore.EncoderConfig{MessageKey: "msg", LevelKey: "level", EncodeLevel: zapcore.LowercaseLevelEncoder, NameKey: "logger", TimeKey: "ts", EncodeTime: zapcore.EpochNanosTimeEncoder, EncodeDuration: zapcore.NanosDurationEncoder, CallerKey: "caller", EncodeCaller: zapcore.FullCallerEncoder, StacktraceKey: "stack"}

// Build constructs the real core and checks construction-time expectations.
func (c *Comp) Build(env *Env) zapcore.Core {
	if !c.isBuilt {
		c.built = c.build(env)
		c.isBuilt = true
	}
	return c.built
}

func (c *Comp) build(env *Env) zapcore.Core {
	switch c.Kind {
	case "nop":
		return zapcore.NewNopCore()
	case "leaf":
		var leaf zapcore.Core
		switch c.Leaf.Kind {
		case "observer":
			core, logs := observer.New(c.Enab.Zap())
			c.Leaf.Logs = logs
			leaf = core
		case "json":
			leaf = zapcore.NewCore(zapcore.NewJSONEncoder(leafEncCfg), c.Leaf.Sink, c.Enab.Zap())
		default:
			leaf = zapcore.NewCore(zapcore.NewConsoleEncoder(leafEncCfg), c.Leaf.Sink, c.Enab.Zap())
		}
		if c.Leaf.Fails {
			return errAfter{leaf}
		}
		return leaf
	case "tee":
		var cs []zapcore.Core
		for _, k := range c.Kids {
			cs = append(cs, k.Build(env))
		}
		// the caller's slice belongs to the caller: it is reused for a second, discarded, tee and must
		// come back unchanged from both
		keep := append([]zapcore.Core(nil), cs...)
		tee := zapcore.NewTee(cs...)
		zapcore.NewTee(cs...)
		for i := range keep {
			if !sameCore(keep[i], cs[i]) {
				env.Problems = append(env.Problems, fmt.Sprintf("NewTee changed element %d of the slice it was called with (%s)", i, c))
				break
			}
		}
		return tee
	case "increase":
		inner := c.Kids[0].Build(env)
		// the constructor must reject a filter that enables a supported level the inner core does not
		mustFail := false
		outOfRangeOnly := false
		for l := -128; l <= 127; l++ {
			lv := zapcore.Level(l)
			if c.Enab.On(lv) && !c.Kids[0].EnabledModel(lv) {
				if l >= -1 && l <= 5 {
					mustFail = true
				} else {
					outOfRangeOnly = true
				}
			}
		}
		core, err := zapcore.NewIncreaseLevelCore(inner, c.Enab.Zap())
		switch {
		case mustFail && err == nil:
			env.Problems = append(env.Problems, fmt.Sprintf("NewIncreaseLevelCore accepted a filter %s that enables a level its inner core %s does not", c.Enab, c.Kids[0]))
			return core
		case !mustFail && err != nil && !outOfRangeOnly:
			env.Problems = append(env.Problems, fmt.Sprintf("NewIncreaseLevelCore rejected a filter %s that only narrows %s: %v", c.Enab, c.Kids[0], err))
			c.Collapsed = true
			return inner
		case err != nil:
			c.Collapsed = true
			return inner
		}
		return core
	case "hooks":
		id := c.HookID
		return zapcore.RegisterHooks(c.Kids[0].Build(env), func(zapcore.Entry) error { env.HookCalls[id]++; return nil })
	case "lazy":
		return zapcore.NewLazyWith(c.Kids[0].Build(env), c.Fields)
	case "with":
		return c.Kids[0].Build(env).With(c.Fields)
	case "sampler":
		return zapcore.NewSamplerWithOptions(c.Kids[0].Build(env), time.Second, 1<<30, 0)
	case "dropsampler":
		return zapcore.NewSamplerWithOptions(c.Kids[0].Build(env), time.Hour, 1, 0)
	}
	panic("unknown comp " + c.Kind)
}

// errAfter lets the wrapped destination do its work and then reports a write error.
type errAfter struct{ zapcore.Core }

var errLeaf = fmt.Errorf("generated destination reports a write error")

func (e errAfter) With(fs []zapcore.Field) zapcore.Core { return errAfter{e.Core.With(fs)} }
func (e errAfter) Check(ent zapcore.Entry, ce *zapcore.CheckedEntry) *zapcore.CheckedEntry {
	if e.Enabled(ent.Level) {
		return ce.AddCore(ent, e)
	}
	return ce
}
func (e errAfter) Write(ent zapcore.Entry, fs []zapcore.Field) error {
	_ = e.Core.Write(ent, fs)
	return errLeaf
}

func sameCore(a, b zapcore.Core) (same bool) {
	defer func() {
		if recover() != nil { // uncomparable dynamic types (a tee is a slice)
			same = fmt.Sprintf("%p", a) == fmt.Sprintf("%p", b)
		}
	}()
	return a == b
}

// IncreaseMustFail reports, for an "increase" node, whether its filter enables a level from debug to
// fatal that the wrapped composition does not: constructing it must then fail and the wrapped core
// stays in place.
func (c *Comp) IncreaseMustFail() bool {
	for l := zapcore.DebugLevel; l <= zapcore.FatalLevel; l++ {
		if c.Enab.On(l) && !c.Kids[0].EnabledModel(l) {
			return true
		}
	}
	return false
}

// Deliver is the model for a hypothetical entry: which leaves would receive an entry at level l
// (first occurrence of its message) and how often each hook would fire. It changes no state.
func (c *Comp) Deliver(l zapcore.Level, leaves map[int]int, hooks map[int]int) bool {
	return c.deliver(nil, l, leaves, hooks)
}

// DeliverCall is the model for an entry that is really logged with message msg: dropping
// samplers count it.
func (c *Comp) DeliverCall(l zapcore.Level, msg string, leaves map[int]int, hooks map[int]int) bool {
	return c.deliver(&msg, l, leaves, hooks)
}

func fnv32a(s string) uint32 {
	h := uint32(2166136261)
	for i := 0; i < len(s); i++ {
		h ^= uint32(s[i])
		h *= 16777619
	}
	return h
}

func (c *Comp) deliver(msg *string, l zapcore.Level, leaves map[int]int, hooks map[int]int) bool {
	switch c.Kind {
	case "nop":
		return false
	case "leaf":
		if c.Enab.On(l) {
			leaves[c.Leaf.ID]++
			return true
		}
		return false
	case "tee":
		any := false
		for _, k := range c.Kids {
			if k.deliver(msg, l, leaves, hooks) {
				any = true
			}
		}
		return any
	case "increase":
		if c.Collapsed {
			return c.Kids[0].deliver(msg, l, leaves, hooks)
		}
		if !c.Enab.On(l) {
			return false
		}
		return c.Kids[0].deliver(msg, l, leaves, hooks)
	case "hooks":
		if c.Kids[0].deliver(msg, l, leaves, hooks) {
			hooks[c.HookID]++
			return true
		}
		return false
	case "dropsampler":
		// disabled levels are skipped before counting; levels outside debug..fatal bypass sampling
		if msg != nil && l >= zapcore.DebugLevel && l <= zapcore.FatalLevel && c.Kids[0].EnabledModel(l) {
			k := [2]uint32{uint32(int32(l)), fnv32a(*msg) % 4096}
			c.Seen[k]++
			if c.Seen[k] > 1 {
				return false
			}
		}
		return c.Kids[0].deliver(msg, l, leaves, hooks)
	}
	return c.Kids[0].deliver(msg, l, leaves, hooks)
}

// EnabledModel reports whether any leaf would receive level l.
func (c *Comp) EnabledModel(l zapcore.Level) bool {
	return c.Deliver(l, map[int]int{}, map[int]int{})
}

// Shape tags the composition for coverage.
func (c *Comp) Shape(depth int, into map[string]int) int {
	d := depth
	into[c.Kind]++
	if c.Shared {
		into["shared-parent-visit"]++
	}
	for _, k := range c.Kids {
		if kd := k.Shape(depth+1, into); kd > d {
			d = kd
		}
	}
	return d
}
