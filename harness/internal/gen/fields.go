package gen

import (
	"bytes"
	"encoding/json"
	"errors"
	"fmt"
	"time"

	"go.uber.org/multierr"
	"go.uber.org/zap"
	"go.uber.org/zap/verif/internal/ref"
	"go.uber.org/zap/verif/internal/rng"
	"go.uber.org/zap/zapcore"
)

// FieldCase is a generated field together with its expectation.
type FieldCase struct {
	F    zapcore.Field
	Desc string
	// exp applies the expected members to the builder and returns the text the
	// '<key>Error' member must contain ("" = the field does not fail). fails
	// reports whether a failure is expected at all.
	exp   func(b *ref.Builder) (errText string, fails bool)
	Fails bool // the field (or something under it) is expected to fail
}

// Apply adds the expected members for this field to b.
func (fc FieldCase) Apply(b *ref.Builder) {
	if fc.exp == nil {
		return
	}
	if txt, fails := fc.exp(b); fails {
		b.Add(fc.F.Key+"Error", ref.Contains(txt))
	}
}

// ---- marshalers owned by the harness ------------------------------------------

// ObjM is a generated ObjectMarshaler: it adds its children in order and may
// return an error after a chosen number of children.
type ObjM struct {
	Children  []FieldCase
	FailAfter int // -1 never; k: return Err after k children were added
	Err       error
	Propagate bool // call AddObject/AddArray directly for marshaler children and return their error at once
	Version   *int // if set, a member "v" with the current value is emitted first (evaluation-time probe)
}

// MarshalLogObject implements zapcore.ObjectMarshaler.
func (o *ObjM) MarshalLogObject(enc zapcore.ObjectEncoder) error {
	if o.Version != nil {
		enc.AddInt64("v", int64(*o.Version))
	}
	for i, c := range o.Children {
		if i == o.FailAfter {
			return o.Err
		}
		if o.Propagate {
			switch c.F.Type {
			case zapcore.ObjectMarshalerType:
				if err := enc.AddObject(c.F.Key, c.F.Interface.(zapcore.ObjectMarshaler)); err != nil {
					return err
				}
				continue
			case zapcore.ArrayMarshalerType:
				if err := enc.AddArray(c.F.Key, c.F.Interface.(zapcore.ArrayMarshaler)); err != nil {
					return err
				}
				continue
			}
		}
		c.F.AddTo(enc)
	}
	if o.FailAfter == len(o.Children) {
		return o.Err
	}
	return nil
}

// expInto applies the expected members of the marshaler body to b; it returns
// the error text it returns to its caller.
func (o *ObjM) expInto(b *ref.Builder, version int) (string, bool) {
	if o.Version != nil {
		b.Add("v", ref.Int(int64(version)))
	}
	for i, c := range o.Children {
		if i == o.FailAfter {
			return o.Err.Error(), true
		}
		if o.Propagate && (c.F.Type == zapcore.ObjectMarshalerType || c.F.Type == zapcore.ArrayMarshalerType) {
			if txt, fails := c.exp(b); fails {
				return txt, true
			}
			continue
		}
		c.Apply(b)
	}
	if o.FailAfter == len(o.Children) {
		return o.Err.Error(), true
	}
	return "", false
}

// ElemCase is one generated array element.
type ElemCase struct {
	Desc   string
	Append func(enc zapcore.ArrayEncoder) error
	exp    func(a *ref.Node) (string, bool)
}

// ArrM is a generated ArrayMarshaler.
type ArrM struct {
	Elems     []ElemCase
	FailAfter int
	Err       error
}

// MarshalLogArray implements zapcore.ArrayMarshaler.
func (m *ArrM) MarshalLogArray(enc zapcore.ArrayEncoder) error {
	for i, e := range m.Elems {
		if i == m.FailAfter {
			return m.Err
		}
		if err := e.Append(enc); err != nil {
			return err
		}
	}
	if m.FailAfter == len(m.Elems) {
		return m.Err
	}
	return nil
}

func (m *ArrM) expInto(a *ref.Node) (string, bool) {
	for i, e := range m.Elems {
		if i == m.FailAfter {
			return m.Err.Error(), true
		}
		if txt, fails := e.exp(a); fails {
			return txt, true
		}
	}
	if m.FailAfter == len(m.Elems) {
		return m.Err.Error(), true
	}
	return "", false
}

// ---- stringers and errors -------------------------------------------------------

type okStringer struct{ s string }

func (s okStringer) String() string { return s.s }

type panicStringer struct{ msg string }

func (s panicStringer) String() string { panic(s.msg) }

// ptrStringer has a value receiver, so calling it through a nil pointer panics.
type ptrStringer struct{ s string }

func (s ptrStringer) String() string { return s.s }

type fmtErr struct{ basic, verbose string }

func (e fmtErr) Error() string { return e.basic }
func (e fmtErr) Format(s fmt.State, verb rune) {
	if verb == 'v' && s.Flag('+') {
		_, _ = s.Write([]byte(e.verbose))
		return
	}
	_, _ = s.Write([]byte(e.basic))
}

type groupErr struct {
	msg  string
	errs []error
}

func (e groupErr) Error() string   { return e.msg }
func (e groupErr) Errors() []error { return e.errs }

type panicErr struct{ msg string }

func (e panicErr) Error() string { panic(e.msg) }

// valErr has a value receiver; a nil *valErr panics on Error().
type valErr struct{ s string }

func (e valErr) Error() string { return e.s }

// ptrGroup is an error group with pointer receivers that do not guard against nil: every
// method of a nil *ptrGroup panics.
type ptrGroup struct {
	msg  string
	errs []error
}

func (g *ptrGroup) Error() string   { return g.msg }
func (g *ptrGroup) Errors() []error { return g.errs }

// panicCauses is an error group whose message is fine and whose Errors method panics.
type panicCauses struct{ msg string }

func (e panicCauses) Error() string   { return e.msg }
func (e panicCauses) Errors() []error { panic("errors-panic-" + e.msg) }

// expError models the documented representation of an error under key.
func expError(b *ref.Builder, key string, err error) (string, bool) {
	switch e := err.(type) {
	case panicErr:
		return e.msg, true
	case *valErr:
		if e == nil {
			b.Add(key, ref.Str("<nil>"))
			return "", false
		}
	case *ptrGroup:
		if e == nil {
			b.Add(key, ref.Str("<nil>"))
			return "", false
		}
	case panicCauses:
		// the message is emitted, then listing the causes panics: contained and reported
		b.Add(key, ref.Str(e.msg))
		return "errors-panic-", true
	}
	basic := err.Error()
	b.Add(key, ref.Str(basic))
	if ge, ok := err.(interface{ Errors() []error }); ok {
		arr := ref.Arr()
		for _, c := range ge.Errors() {
			if c == nil {
				continue
			}
			sub := ref.NewBuilder()
			needle, failed := expError(sub, "error", c)
			arr.Elems = append(arr.Elems, sub.Root())
			if failed {
				// a cause that cannot be rendered: contained, the list ends there, reported under <key>Error
				b.Add(key+"Causes", arr)
				return needle, true
			}
		}
		b.Add(key+"Causes", arr)
		return "", false
	}
	if _, ok := err.(fmt.Formatter); ok {
		if v := fmt.Sprintf("%+v", err); v != basic {
			b.Add(key+"Verbose", ref.Str(v))
		}
	}
	return "", false
}

func (g *G) genError(depth int, allowPanic bool) (error, string) {
	r := g.R
	n := 6
	if depth > 1 {
		n = 3
	}
	switch r.Intn(n) {
	case 0:
		s := g.Str()
		return errors.New(s), fmt.Sprintf("errors.New(%q)", s)
	case 1:
		b, v := g.Str(), g.Str()
		if r.P(1, 3) {
			v = b
		}
		return fmtErr{b, v}, fmt.Sprintf("fmtErr{%q,%q}", b, v)
	case 2:
		s := g.Str()
		return fmt.Errorf("wrap: %w", errors.New(s)), fmt.Sprintf("wrapped(%q)", s)
	case 3:
		k := r.Intn(4)
		var errs []error
		desc := "group["
		for i := 0; i < k; i++ {
			if r.P(1, 5) {
				errs = append(errs, nil)
				desc += "nil,"
				continue
			}
			if allowPanic && depth == 0 && r.P(1, 4) {
				// a hostile cause among healthy ones: a nil pointer of an error type, or (when faults are
				// generated at all) a cause whose Error method panics
				if g.fault() {
					g.tag("error:cause-panics")
					m := "causepanic-" + g.Str()
					errs = append(errs, panicErr{m})
					desc += fmt.Sprintf("panicErr(%q),", m)
				} else {
					g.tag("error:cause-nilptr")
					errs = append(errs, (*valErr)(nil))
					desc += "(*valErr)(nil),"
				}
				continue
			}
			e, d := g.genError(depth+1, false)
			errs = append(errs, e)
			desc += d + ","
		}
		return groupErr{g.Str(), errs}, desc + "]"
	case 4:
		var errs []error
		desc := "multierr["
		for i := r.Intn(3) + 2; i > 0; i-- {
			e, d := g.genError(depth+1, false)
			errs = append(errs, e)
			desc += d + ","
		}
		return multierr.Combine(errs...), desc + "]"
	default:
		if allowPanic && g.fault() {
			g.tag("error:panic")
			m := "errpanic-" + g.Str()
			return panicErr{m}, fmt.Sprintf("panicErr(%q)", m)
		}
		if allowPanic && r.P(1, 2) {
			g.tag("error:nilptr")
			if r.P(1, 2) {
				return (*ptrGroup)(nil), "(*ptrGroup)(nil) [nil error group]"
			}
			return (*valErr)(nil), "(*valErr)(nil)"
		}
		if allowPanic && r.P(1, 3) {
			g.tag("error:causes-panic")
			m := g.Str()
			return panicCauses{m}, fmt.Sprintf("panicCauses(%q)", m)
		}
		s := g.Str()
		return errors.New(s), fmt.Sprintf("errors.New(%q)", s)
	}
}

// ---- reflected values ----------------------------------------------------------

type cyc struct {
	Next *cyc
	V    int
}

type badJSON struct{}

func (badJSON) MarshalJSON() ([]byte, error) { return nil, errors.New("marshal-json-failed") }

type invalidJSON struct{}

func (invalidJSON) MarshalJSON() ([]byte, error) { return []byte("{not json"), nil }

type textM struct{ s string }

func (t textM) MarshalText() ([]byte, error) { return []byte(t.s), nil }

func refJSON(v interface{}) ([]byte, error) {
	var buf bytes.Buffer
	enc := json.NewEncoder(&buf)
	enc.SetEscapeHTML(false)
	if err := enc.Encode(v); err != nil {
		return nil, err
	}
	return bytes.TrimSuffix(buf.Bytes(), []byte("\n")), nil
}

func (g *G) reflectValue() (interface{}, string) {
	r := g.R
	if g.fault() {
		g.tag("reflect:unencodable")
		switch r.Intn(7) {
		case 0:
			return make(chan int), "chan int"
		case 1:
			return func() {}, "func()"
		case 2:
			c := &cyc{V: 1}
			c.Next = c
			return c, "cyclic pointer"
		case 3:
			return badJSON{}, "MarshalJSON returning error"
		case 4:
			return invalidJSON{}, "MarshalJSON returning invalid JSON"
		case 5:
			return rng.Pick(r, []json.RawMessage{json.RawMessage(`{"cut":[1,2`), json.RawMessage("{}\n{}"), json.RawMessage{}, json.RawMessage("\"a\nb\""), json.RawMessage(`{"a":1}}`)}), "invalid json.RawMessage"
		default:
			return map[string]interface{}{"a": 1, "f": func() {}}, "map with func"
		}
	}
	switch r.Intn(10) {
	case 0:
		return nil, "nil"
	case 1:
		s := g.Str()
		return struct {
			A int
			B string `json:"b,omitempty"`
		}{int(g.Int64(32)), s}, fmt.Sprintf("struct{A,B:%q}", s)
	case 2:
		m := map[string]interface{}{}
		for i := r.Intn(4); i > 0; i-- {
			m[g.Str()] = g.Int64(16)
		}
		return m, fmt.Sprintf("map(%d)", len(m))
	case 3:
		return []interface{}{1, "two<>&", 3.5, nil, true, []int{}}, "mixed slice"
	case 4:
		s := g.Str()
		return &s, fmt.Sprintf("*string(%q)", s)
	case 5:
		// pre-encoded payloads: compact, pretty-printed over several lines (LF and CRLF), padded
		switch r.Intn(5) {
		case 0:
			return json.RawMessage("{\n  \"raw\": [\n    1,\n    2,\n    {\"x\": null}\n  ]\n}"), "json.RawMessage(pretty)"
		case 1:
			return json.RawMessage("{\r\n\t\"raw\": [1, 2],\r\n\t\"s\": \"a b\"\r\n}\r\n"), "json.RawMessage(CRLF)"
		case 2:
			return json.RawMessage("  \n [ 1 , \"<&>\" ]\n\n"), "json.RawMessage(padded)"
		case 3:
			return []json.RawMessage{json.RawMessage("{\n \"a\": 1\n}"), json.RawMessage(" 2 ")}, "[]json.RawMessage(pretty)"
		}
		return json.RawMessage(`{"raw":[1,2,{"x":null}]}`), "json.RawMessage"
	case 6:
		s := g.Str()
		return textM{s}, fmt.Sprintf("TextMarshaler(%q)", s)
	case 7:
		return struct {
			T time.Time
			D time.Duration
			U uint64
		}{g.SaneTime(), g.Duration(), g.Uint64(64)}, "struct{T,D,U}"
	case 8:
		return [3]float64{1.5, -0.25, 1e300}, "[3]float64"
	default:
		type inner struct{ X []string }
		return map[string]inner{"k": {[]string{g.Str(), "<&>"}}}, "map[string]inner"
	}
}

// ---- scalar fields ---------------------------------------------------------------

// Scalar generates a non-nesting field (possibly failing) under key.
func (g *G) Scalar(key string) FieldCase {
	r := g.R
	useAny := r.P(1, 4)
	mk := func(typed zapcore.Field, val interface{}, n *ref.Node, desc string) FieldCase {
		f := typed
		if useAny {
			f = zap.Any(key, val)
			desc = "Any:" + desc
		}
		return FieldCase{F: f, Desc: fmt.Sprintf("%s(%q)", desc, key), exp: func(b *ref.Builder) (string, bool) {
			b.Add(key, n)
			return "", false
		}}
	}
	switch k := r.Intn(34); k {
	case 0:
		v := r.Bool()
		g.tag("bool")
		return mk(zap.Bool(key, v), v, ref.Bool(v), fmt.Sprintf("Bool=%v", v))
	case 1:
		v := int(g.Int64(64))
		g.tag("int")
		return mk(zap.Int(key, v), v, ref.Int(int64(v)), fmt.Sprintf("Int=%d", v))
	case 2:
		v := g.Int64(64)
		g.tag("int64")
		return mk(zap.Int64(key, v), v, ref.Int(v), fmt.Sprintf("Int64=%d", v))
	case 3:
		v := int32(g.Int64(32))
		g.tag("int32")
		return mk(zap.Int32(key, v), v, ref.Int(int64(v)), fmt.Sprintf("Int32=%d", v))
	case 4:
		v := int16(g.Int64(16))
		g.tag("int16")
		return mk(zap.Int16(key, v), v, ref.Int(int64(v)), fmt.Sprintf("Int16=%d", v))
	case 5:
		v := int8(g.Int64(8))
		g.tag("int8")
		return mk(zap.Int8(key, v), v, ref.Int(int64(v)), fmt.Sprintf("Int8=%d", v))
	case 6:
		v := uint(g.Uint64(64))
		g.tag("uint")
		return mk(zap.Uint(key, v), v, ref.Uint(uint64(v)), fmt.Sprintf("Uint=%d", v))
	case 7:
		v := g.Uint64(64)
		g.tag("uint64")
		return mk(zap.Uint64(key, v), v, ref.Uint(v), fmt.Sprintf("Uint64=%d", v))
	case 8:
		v := uint32(g.Uint64(32))
		g.tag("uint32")
		return mk(zap.Uint32(key, v), v, ref.Uint(uint64(v)), fmt.Sprintf("Uint32=%d", v))
	case 9:
		v := uint16(g.Uint64(16))
		g.tag("uint16")
		return mk(zap.Uint16(key, v), v, ref.Uint(uint64(v)), fmt.Sprintf("Uint16=%d", v))
	case 10:
		v := uint8(g.Uint64(8))
		g.tag("uint8")
		return mk(zap.Uint8(key, v), v, ref.Uint(uint64(v)), fmt.Sprintf("Uint8=%d", v))
	case 11:
		v := uintptr(g.Uint64(64))
		g.tag("uintptr")
		return mk(zap.Uintptr(key, v), v, ref.Uint(uint64(v)), fmt.Sprintf("Uintptr=%d", v))
	case 12:
		v := g.Float64()
		g.tag("float64")
		return mk(zap.Float64(key, v), v, ref.F64(v), fmt.Sprintf("Float64=%v", v))
	case 13:
		v := g.Float32()
		g.tag("float32")
		return mk(zap.Float32(key, v), v, ref.F32(v), fmt.Sprintf("Float32=%v", v))
	case 14:
		v := complex(g.Float64(), g.Float64())
		g.tag("complex128")
		return mk(zap.Complex128(key, v), v, ref.C128(v), fmt.Sprintf("Complex128=%v", v))
	case 15:
		v := complex(g.Float32(), g.Float32())
		g.tag("complex64")
		return mk(zap.Complex64(key, v), v, ref.C64(v), fmt.Sprintf("Complex64=%v", v))
	case 16, 17:
		v := g.Str()
		g.tag("string")
		return mk(zap.String(key, v), v, ref.Str(v), fmt.Sprintf("String=%q", v))
	case 18:
		v := g.Bytes()
		g.tag("bytestring")
		useAny = false // Any([]byte) is Binary
		return mk(zap.ByteString(key, v), v, ref.Str(string(v)), fmt.Sprintf("ByteString=%q", v))
	case 19:
		v := g.Bytes()
		g.tag("binary")
		return mk(zap.Binary(key, v), v, ref.Binary(v), fmt.Sprintf("Binary=%x", v))
	case 20:
		v := g.Duration()
		g.tag("duration")
		return mk(zap.Duration(key, v), v, ref.Dur(v), fmt.Sprintf("Duration=%d", int64(v)))
	case 21, 22:
		v := g.Time()
		g.tag("time")
		return mk(zap.Time(key, v), v, ref.Time(v), fmt.Sprintf("Time=%s", v.Format(time.RFC3339Nano)))
	case 23: // pointer variants
		g.tag("pointer")
		switch r.Intn(8) {
		case 0:
			return mk(zap.Intp(key, nil), (*int)(nil), ref.Null(), "Intp=nil")
		case 1:
			v := g.Int64(64)
			return mk(zap.Int64p(key, &v), &v, ref.Int(v), fmt.Sprintf("Int64p=%d", v))
		case 2:
			return mk(zap.Stringp(key, nil), (*string)(nil), ref.Null(), "Stringp=nil")
		case 3:
			v := g.Str()
			return mk(zap.Stringp(key, &v), &v, ref.Str(v), fmt.Sprintf("Stringp=%q", v))
		case 4:
			v := g.Float64()
			return mk(zap.Float64p(key, &v), &v, ref.F64(v), fmt.Sprintf("Float64p=%v", v))
		case 5:
			return mk(zap.Timep(key, nil), (*time.Time)(nil), ref.Null(), "Timep=nil")
		case 6:
			v := g.Time()
			return mk(zap.Timep(key, &v), &v, ref.Time(v), "Timep")
		default:
			v := g.Duration()
			return mk(zap.Durationp(key, &v), &v, ref.Dur(v), "Durationp")
		}
	case 24: // stringer
		if g.fault() {
			g.tag("stringer:panic")
			m := "strpanic-" + g.Str()
			return FieldCase{F: zap.Stringer(key, panicStringer{m}), Desc: fmt.Sprintf("Stringer=panic(%q)(%q)", m, key), Fails: true,
				exp: func(b *ref.Builder) (string, bool) { return m, true }}
		}
		if r.P(1, 4) {
			g.tag("stringer:nilptr")
			return FieldCase{F: zap.Stringer(key, (*ptrStringer)(nil)), Desc: fmt.Sprintf("Stringer=nilptr(%q)", key),
				exp: func(b *ref.Builder) (string, bool) { b.Add(key, ref.Str("<nil>")); return "", false }}
		}
		v := g.Str()
		g.tag("stringer")
		return mk(zap.Stringer(key, okStringer{v}), okStringer{v}, ref.Str(v), fmt.Sprintf("Stringer=%q", v))
	case 25, 26: // error
		err, d := g.genError(0, true)
		_, fails := expError(ref.NewBuilder(), key, err)
		g.tag("error")
		f := zap.NamedError(key, err)
		if useAny {
			f = zap.Any(key, err)
		}
		return FieldCase{F: f, Desc: fmt.Sprintf("NamedError=%s(%q)", d, key), Fails: fails,
			exp: func(b *ref.Builder) (string, bool) { return expError(b, key, err) }}
	case 27:
		g.tag("error:nil")
		return FieldCase{F: zap.NamedError(key, nil), Desc: "NamedError=nil", exp: func(*ref.Builder) (string, bool) { return "", false }}
	case 28, 29: // reflect
		if g.Opt.NoReflect {
			v := g.Str()
			return mk(zap.String(key, v), v, ref.Str(v), fmt.Sprintf("String=%q", v))
		}
		v, d := g.reflectValue()
		g.tag("reflect")
		raw, err := refJSON(v)
		if err != nil {
			return FieldCase{F: zap.Reflect(key, v), Desc: fmt.Sprintf("Reflect=%s(%q)", d, key), Fails: true,
				exp: func(b *ref.Builder) (string, bool) { return "", true }}
		}
		return FieldCase{F: zap.Reflect(key, v), Desc: fmt.Sprintf("Reflect=%s(%q)", d, key),
			exp: func(b *ref.Builder) (string, bool) { b.Add(key, ref.Raw(raw)); return "", false }}
	case 30:
		g.tag("skip")
		return FieldCase{F: zap.Skip(), Desc: "Skip", exp: func(*ref.Builder) (string, bool) { return "", false }}
	case 31: // primitive slices
		g.tag("slice")
		return g.sliceField(key)
	default:
		v := g.Str()
		g.tag("string")
		return mk(zap.String(key, v), v, ref.Str(v), fmt.Sprintf("String=%q", v))
	}
}

func (g *G) sliceField(key string) FieldCase {
	r := g.R
	n := r.Intn(5)
	arr := ref.Arr()
	var f zapcore.Field
	var desc string
	useAny := r.P(1, 4)
	var val interface{}
	switch r.Intn(12) {
	case 0:
		vs := make([]bool, n)
		for i := range vs {
			vs[i] = r.Bool()
			arr.Elems = append(arr.Elems, ref.Bool(vs[i]))
		}
		f, val, desc = zap.Bools(key, vs), vs, fmt.Sprintf("Bools=%v", vs)
	case 1:
		vs := make([]int64, n)
		for i := range vs {
			vs[i] = g.Int64(64)
			arr.Elems = append(arr.Elems, ref.Int(vs[i]))
		}
		f, val, desc = zap.Int64s(key, vs), vs, fmt.Sprintf("Int64s=%v", vs)
	case 2:
		vs := make([]uint64, n)
		for i := range vs {
			vs[i] = g.Uint64(64)
			arr.Elems = append(arr.Elems, ref.Uint(vs[i]))
		}
		f, val, desc = zap.Uint64s(key, vs), vs, fmt.Sprintf("Uint64s=%v", vs)
	case 3:
		vs := make([]float64, n)
		for i := range vs {
			vs[i] = g.Float64()
			arr.Elems = append(arr.Elems, ref.F64(vs[i]))
		}
		f, val, desc = zap.Float64s(key, vs), vs, fmt.Sprintf("Float64s=%v", vs)
	case 4:
		vs := make([]float32, n)
		for i := range vs {
			vs[i] = g.Float32()
			arr.Elems = append(arr.Elems, ref.F32(vs[i]))
		}
		f, val, desc = zap.Float32s(key, vs), vs, fmt.Sprintf("Float32s=%v", vs)
	case 5:
		vs := make([]string, n)
		for i := range vs {
			vs[i] = g.Str()
			arr.Elems = append(arr.Elems, ref.Str(vs[i]))
		}
		f, val, desc = zap.Strings(key, vs), vs, fmt.Sprintf("Strings=%q", vs)
	case 6:
		vs := make([][]byte, n)
		for i := range vs {
			vs[i] = g.Bytes()
			arr.Elems = append(arr.Elems, ref.Str(string(vs[i])))
		}
		useAny = false
		f, val, desc = zap.ByteStrings(key, vs), vs, fmt.Sprintf("ByteStrings=%q", vs)
	case 7:
		vs := make([]time.Time, n)
		for i := range vs {
			vs[i] = g.Time()
			arr.Elems = append(arr.Elems, ref.Time(vs[i]))
		}
		f, val, desc = zap.Times(key, vs), vs, fmt.Sprintf("Times(%d)", n)
	case 8:
		vs := make([]time.Duration, n)
		for i := range vs {
			vs[i] = g.Duration()
			arr.Elems = append(arr.Elems, ref.Dur(vs[i]))
		}
		f, val, desc = zap.Durations(key, vs), vs, fmt.Sprintf("Durations=%v", vs)
	case 9:
		vs := make([]complex128, n)
		for i := range vs {
			vs[i] = complex(g.Float64(), g.Float64())
			arr.Elems = append(arr.Elems, ref.C128(vs[i]))
		}
		f, val, desc = zap.Complex128s(key, vs), vs, fmt.Sprintf("Complex128s=%v", vs)
	case 10:
		vs := make([]error, n)
		desc = "Errors["
		for i := range vs {
			if r.P(1, 4) {
				desc += "nil,"
				continue
			}
			e, d := g.genError(1, false)
			vs[i] = e
			desc += d + ","
			sub := ref.NewBuilder()
			expError(sub, "error", e)
			arr.Elems = append(arr.Elems, sub.Root())
		}
		desc += "]"
		f, val = zap.Errors(key, vs), vs
	default:
		vs := make([]int8, n)
		for i := range vs {
			vs[i] = int8(g.Int64(8))
			arr.Elems = append(arr.Elems, ref.Int(int64(vs[i])))
		}
		f, val, desc = zap.Int8s(key, vs), vs, fmt.Sprintf("Int8s=%v", vs)
	}
	if useAny {
		f = zap.Any(key, val)
		desc = "Any:" + desc
	}
	return FieldCase{F: f, Desc: fmt.Sprintf("%s(%q)", desc, key), exp: func(b *ref.Builder) (string, bool) {
		b.Add(key, arr)
		return "", false
	}}
}

// ---- nesting fields ---------------------------------------------------------------

func (g *G) genErr() error { return errors.New("marshal-failed-" + g.Str()) }

// objM generates an object marshaler of the given remaining depth.
func (g *G) objM(depth int) *ObjM {
	r := g.R
	o := &ObjM{FailAfter: -1, Propagate: r.P(1, 3)}
	n := r.Intn(g.Opt.MaxFields)
	for i := 0; i < n; i++ {
		o.Children = append(o.Children, g.Field(depth-1))
	}
	pos := r.Intn(n + 1)
	err := g.genErr()
	if g.fault() {
		g.tag("objmarshaler:error")
		o.FailAfter, o.Err = pos, err
	}
	return o
}

func (g *G) arrM(depth int) *ArrM {
	r := g.R
	m := &ArrM{FailAfter: -1}
	n := r.Intn(g.Opt.MaxFields)
	for i := 0; i < n; i++ {
		m.Elems = append(m.Elems, g.elem(depth-1))
	}
	pos := r.Intn(n + 1)
	err := g.genErr()
	if g.fault() {
		g.tag("arrmarshaler:error")
		m.FailAfter, m.Err = pos, err
	}
	return m
}

func (g *G) elem(depth int) ElemCase {
	r := g.R
	top := 12
	if depth <= 0 {
		top = 9
	}
	switch r.Intn(top) {
	case 0:
		v := r.Bool()
		return ElemCase{Desc: fmt.Sprint(v), Append: func(e zapcore.ArrayEncoder) error { e.AppendBool(v); return nil },
			exp: func(a *ref.Node) (string, bool) { a.Elems = append(a.Elems, ref.Bool(v)); return "", false }}
	case 1:
		v := g.Int64(64)
		return ElemCase{Desc: fmt.Sprint(v), Append: func(e zapcore.ArrayEncoder) error { e.AppendInt64(v); return nil },
			exp: func(a *ref.Node) (string, bool) { a.Elems = append(a.Elems, ref.Int(v)); return "", false }}
	case 2:
		v := g.Uint64(64)
		return ElemCase{Desc: fmt.Sprint(v), Append: func(e zapcore.ArrayEncoder) error { e.AppendUint64(v); return nil },
			exp: func(a *ref.Node) (string, bool) { a.Elems = append(a.Elems, ref.Uint(v)); return "", false }}
	case 3:
		v := g.Float64()
		return ElemCase{Desc: fmt.Sprint(v), Append: func(e zapcore.ArrayEncoder) error { e.AppendFloat64(v); return nil },
			exp: func(a *ref.Node) (string, bool) { a.Elems = append(a.Elems, ref.F64(v)); return "", false }}
	case 4:
		v := g.Str()
		return ElemCase{Desc: fmt.Sprintf("%q", v), Append: func(e zapcore.ArrayEncoder) error { e.AppendString(v); return nil },
			exp: func(a *ref.Node) (string, bool) { a.Elems = append(a.Elems, ref.Str(v)); return "", false }}
	case 5:
		v := g.Time()
		return ElemCase{Desc: "time", Append: func(e zapcore.ArrayEncoder) error { e.AppendTime(v); return nil },
			exp: func(a *ref.Node) (string, bool) { a.Elems = append(a.Elems, ref.Time(v)); return "", false }}
	case 6:
		v := g.Duration()
		return ElemCase{Desc: "dur", Append: func(e zapcore.ArrayEncoder) error { e.AppendDuration(v); return nil },
			exp: func(a *ref.Node) (string, bool) { a.Elems = append(a.Elems, ref.Dur(v)); return "", false }}
	case 7:
		v := g.Bytes()
		return ElemCase{Desc: fmt.Sprintf("bytes%q", v), Append: func(e zapcore.ArrayEncoder) error { e.AppendByteString(v); return nil },
			exp: func(a *ref.Node) (string, bool) { a.Elems = append(a.Elems, ref.Str(string(v))); return "", false }}
	case 8:
		if g.Opt.NoReflect {
			v := g.Float32()
			return ElemCase{Desc: fmt.Sprint(v), Append: func(e zapcore.ArrayEncoder) error { e.AppendFloat32(v); return nil },
				exp: func(a *ref.Node) (string, bool) { a.Elems = append(a.Elems, ref.F32(v)); return "", false }}
		}
		v, d := g.reflectValue()
		raw, err := refJSON(v)
		return ElemCase{Desc: "reflect:" + d, Append: func(e zapcore.ArrayEncoder) error { return e.AppendReflected(v) },
			exp: func(a *ref.Node) (string, bool) {
				if err != nil {
					return "", true
				}
				a.Elems = append(a.Elems, ref.Raw(raw))
				return "", false
			}}
	case 9, 10:
		o := g.objM(depth)
		return ElemCase{Desc: "obj{" + descFields(o.Children) + "}", Append: func(e zapcore.ArrayEncoder) error { return e.AppendObject(o) },
			exp: func(a *ref.Node) (string, bool) {
				sub := ref.NewBuilder()
				txt, fails := o.expInto(sub, 0)
				a.Elems = append(a.Elems, sub.Root())
				return txt, fails
			}}
	default:
		m := g.arrM(depth)
		return ElemCase{Desc: "arr[...]", Append: func(e zapcore.ArrayEncoder) error { return e.AppendArray(m) },
			exp: func(a *ref.Node) (string, bool) {
				sub := ref.Arr()
				txt, fails := m.expInto(sub)
				a.Elems = append(a.Elems, sub)
				return txt, fails
			}}
	}
}

func descFields(fs []FieldCase) string {
	s := ""
	for i, f := range fs {
		if i > 0 {
			s += ", "
		}
		s += f.Desc
	}
	return s
}

type objVal struct {
	K string
	V int64
}

func (o *objVal) MarshalLogObject(enc zapcore.ObjectEncoder) error {
	enc.AddInt64(o.K, o.V)
	return nil
}

// Field generates any field, nesting up to depth.
func (g *G) Field(depth int) FieldCase {
	r := g.R
	key := g.Key()
	if depth <= 0 || r.P(3, 5) {
		return g.Scalar(key)
	}
	switch r.Intn(9) {
	case 0, 1: // object
		o := g.objM(depth)
		g.tag("object")
		f := zap.Object(key, o)
		if r.P(1, 4) {
			f = zap.Any(key, o)
		}
		return FieldCase{F: f, Desc: fmt.Sprintf("Object(%q){%s}failAfter=%d,prop=%v", key, descFields(o.Children), o.FailAfter, o.Propagate), Fails: o.FailAfter >= 0,
			exp: func(b *ref.Builder) (string, bool) {
				sub := ref.NewBuilder()
				txt, fails := o.expInto(sub, 0)
				b.Add(key, sub.Root())
				return txt, fails
			}}
	case 2: // array
		m := g.arrM(depth)
		g.tag("array")
		f := zap.Array(key, m)
		if r.P(1, 4) {
			f = zap.Any(key, m)
		}
		return FieldCase{F: f, Desc: fmt.Sprintf("Array(%q)[%d elems]failAfter=%d", key, len(m.Elems), m.FailAfter), Fails: m.FailAfter >= 0,
			exp: func(b *ref.Builder) (string, bool) {
				sub := ref.Arr()
				txt, fails := m.expInto(sub)
				b.Add(key, sub)
				return txt, fails
			}}
	case 3: // inline
		o := g.objM(depth)
		g.tag("inline")
		return FieldCase{F: zap.Inline(o), Desc: fmt.Sprintf("Inline{%s}failAfter=%d", descFields(o.Children), o.FailAfter), Fails: o.FailAfter >= 0,
			exp: func(b *ref.Builder) (string, bool) { return o.expInto(b, 0) }}
	case 4: // dict
		n := r.Intn(g.Opt.MaxFields)
		var cs []FieldCase
		var fs []zapcore.Field
		for i := 0; i < n; i++ {
			c := g.Field(depth - 1)
			cs = append(cs, c)
			fs = append(fs, c.F)
		}
		g.tag("dict")
		var f zapcore.Field
		switch r.Intn(3) {
		case 0:
			f = zap.Dict(key, fs...)
		case 1:
			f = zap.Object(key, zap.DictObject(fs...))
		default:
			f = zap.Any(key, fs)
		}
		return FieldCase{F: f, Desc: fmt.Sprintf("Dict(%q){%s}", key, descFields(cs)),
			exp: func(b *ref.Builder) (string, bool) {
				sub := ref.NewBuilder()
				for _, c := range cs {
					c.Apply(sub)
				}
				b.Add(key, sub.Root())
				return "", false
			}}
	case 5: // namespace
		if g.Opt.NoNamespaces {
			return g.Scalar(key)
		}
		g.tag("namespace")
		return FieldCase{F: zap.Namespace(key), Desc: fmt.Sprintf("Namespace(%q)", key),
			exp: func(b *ref.Builder) (string, bool) { b.OpenNS(key); return "", false }}
	case 6: // zap.Objects over harness marshalers; stops at the first failing element
		n := r.Intn(4)
		var os []*ObjM
		for i := 0; i < n; i++ {
			os = append(os, g.objM(depth-1))
		}
		g.tag("objects")
		return FieldCase{F: zap.Objects(key, os), Desc: fmt.Sprintf("Objects(%q)[%d]", key, n),
			exp: func(b *ref.Builder) (string, bool) {
				arr := ref.Arr()
				b.Add(key, arr)
				for _, o := range os {
					sub := ref.NewBuilder()
					txt, fails := o.expInto(sub, 0)
					arr.Elems = append(arr.Elems, sub.Root())
					if fails {
						return txt, true
					}
				}
				return "", false
			}}
	case 7: // zap.ObjectValues
		n := r.Intn(4)
		vs := make([]objVal, n)
		arr := ref.Arr()
		for i := range vs {
			vs[i] = objVal{g.Key(), g.Int64(64)}
			sub := ref.NewBuilder()
			sub.Add(vs[i].K, ref.Int(vs[i].V))
			arr.Elems = append(arr.Elems, sub.Root())
		}
		g.tag("objectvalues")
		return FieldCase{F: zap.ObjectValues[objVal, *objVal](key, vs), Desc: fmt.Sprintf("ObjectValues(%q)[%d]", key, n),
			exp: func(b *ref.Builder) (string, bool) { b.Add(key, arr); return "", false }}
	default: // zap.Stringers, possibly with a nil or panicking element
		n := r.Intn(4)
		vs := make([]fmt.Stringer, n)
		arr := ref.Arr()
		bad := -1
		badTxt := ""
		lenient := false
		for i := range vs {
			if bad < 0 && g.fault() {
				m := "strspanic-" + g.Str()
				vs[i] = panicStringer{m}
				bad, badTxt = i, m
				continue
			}
			if bad < 0 && r.P(1, 8) {
				vs[i] = (*ptrStringer)(nil)
				arr.Elems = append(arr.Elems, ref.Str("<nil>"))
				continue
			}
			s := g.Str()
			vs[i] = okStringer{s}
			if bad < 0 {
				arr.Elems = append(arr.Elems, ref.Str(s))
			}
		}
		if bad >= 0 {
			lenient = true
		}
		g.tag("stringers")
		return FieldCase{F: zap.Stringers(key, vs), Desc: fmt.Sprintf("Stringers(%q)[%d] bad=%d", key, n, bad), Fails: bad >= 0,
			exp: func(b *ref.Builder) (string, bool) {
				if lenient {
					// what the array holds from the failing element on is not fixed by the statement
					b.Add(key, ref.Any())
					return badTxt, true
				}
				b.Add(key, arr)
				return "", false
			}}
	}
}

// Fields generates a list of n fields.
func (g *G) Fields(n, depth int) []FieldCase {
	out := make([]FieldCase, 0, n)
	for i := 0; i < n; i++ {
		out = append(out, g.Field(depth))
	}
	return out
}

// ZapFields extracts the zap fields.
func ZapFields(cs []FieldCase) []zapcore.Field {
	out := make([]zapcore.Field, len(cs))
	for i, c := range cs {
		out[i] = c.F
	}
	return out
}

// Descs renders the cases.
func Descs(cs []FieldCase) []string {
	out := make([]string, len(cs))
	for i, c := range cs {
		out[i] = c.Desc
	}
	return out
}

var _ = rng.Pick[int]

// NewFieldCase builds a field case from an explicit expectation.
func NewFieldCase(f zapcore.Field, desc string, exp func(b *ref.Builder)) FieldCase {
	return FieldCase{F: f, Desc: desc, exp: func(b *ref.Builder) (string, bool) { exp(b); return "", false }}
}
