// Package jsonv is a strict, independent RFC 8259 parser returning an ordered
// token tree (duplicate keys preserved, numbers kept as literal text).
package jsonv

import (
	"bytes"
	"encoding/json"
	"fmt"
	"unicode/utf16"
	"unicode/utf8"
)

// Kind of a JSON value.
type Kind int

// Kinds.
const (
	Null Kind = iota
	Bool
	Num
	Str
	Arr
	Obj
)

func (k Kind) String() string {
	return [...]string{"null", "bool", "number", "string", "array", "object"}[k]
}

// Member is one object member.
type Member struct {
	Key string
	Val *Value
}

// Value is a parsed JSON value.
type Value struct {
	Kind    Kind
	B       bool
	Num     string // literal text
	Str     string // decoded
	Elems   []*Value
	Members []Member
}

// Get returns the first member with the given key.
func (v *Value) Get(key string) *Value {
	if v == nil {
		return nil
	}
	for _, m := range v.Members {
		if m.Key == key {
			return m.Val
		}
	}
	return nil
}

type parser struct {
	b []byte
	i int
}

// ParseObjectLine parses b as exactly one JSON object with nothing after it
// (no surrounding whitespace is tolerated either: zap emits none).
func ParseObjectLine(b []byte) (*Value, error) {
	if !utf8.Valid(b) {
		return nil, fmt.Errorf("not valid UTF-8")
	}
	p := &parser{b: b}
	if len(b) == 0 || b[0] != '{' {
		return nil, fmt.Errorf("does not start with '{'")
	}
	v, err := p.value(0)
	if err != nil {
		return nil, fmt.Errorf("offset %d: %v", p.i, err)
	}
	if p.i != len(b) {
		return nil, fmt.Errorf("offset %d: trailing bytes after the object: %q", p.i, trunc(b[p.i:]))
	}
	return v, nil
}

// Parse parses b as exactly one JSON value (surrounding whitespace allowed).
func Parse(b []byte) (*Value, error) {
	if !utf8.Valid(b) {
		return nil, fmt.Errorf("not valid UTF-8")
	}
	p := &parser{b: b}
	p.ws()
	v, err := p.value(0)
	if err != nil {
		return nil, fmt.Errorf("offset %d: %v", p.i, err)
	}
	p.ws()
	if p.i != len(b) {
		return nil, fmt.Errorf("offset %d: trailing bytes: %q", p.i, trunc(b[p.i:]))
	}
	return v, nil
}

func trunc(b []byte) []byte {
	if len(b) > 40 {
		return b[:40]
	}
	return b
}

func (p *parser) ws() {
	for p.i < len(p.b) {
		switch p.b[p.i] {
		case ' ', '\t', '\n', '\r':
			p.i++
		default:
			return
		}
	}
}

func (p *parser) value(depth int) (*Value, error) {
	if depth > 10000 {
		return nil, fmt.Errorf("too deep")
	}
	if p.i >= len(p.b) {
		return nil, fmt.Errorf("unexpected end")
	}
	switch c := p.b[p.i]; {
	case c == '{':
		p.i++
		v := &Value{Kind: Obj}
		p.ws()
		if p.i < len(p.b) && p.b[p.i] == '}' {
			p.i++
			return v, nil
		}
		for {
			p.ws()
			if p.i >= len(p.b) || p.b[p.i] != '"' {
				return nil, fmt.Errorf("expected object key")
			}
			k, err := p.str()
			if err != nil {
				return nil, err
			}
			p.ws()
			if p.i >= len(p.b) || p.b[p.i] != ':' {
				return nil, fmt.Errorf("expected ':'")
			}
			p.i++
			p.ws()
			val, err := p.value(depth + 1)
			if err != nil {
				return nil, err
			}
			v.Members = append(v.Members, Member{k, val})
			p.ws()
			if p.i >= len(p.b) {
				return nil, fmt.Errorf("unterminated object")
			}
			if p.b[p.i] == ',' {
				p.i++
				continue
			}
			if p.b[p.i] == '}' {
				p.i++
				return v, nil
			}
			return nil, fmt.Errorf("expected ',' or '}' got %q", p.b[p.i])
		}
	case c == '[':
		p.i++
		v := &Value{Kind: Arr}
		p.ws()
		if p.i < len(p.b) && p.b[p.i] == ']' {
			p.i++
			return v, nil
		}
		for {
			p.ws()
			val, err := p.value(depth + 1)
			if err != nil {
				return nil, err
			}
			v.Elems = append(v.Elems, val)
			p.ws()
			if p.i >= len(p.b) {
				return nil, fmt.Errorf("unterminated array")
			}
			if p.b[p.i] == ',' {
				p.i++
				continue
			}
			if p.b[p.i] == ']' {
				p.i++
				return v, nil
			}
			return nil, fmt.Errorf("expected ',' or ']' got %q", p.b[p.i])
		}
	case c == '"':
		s, err := p.str()
		if err != nil {
			return nil, err
		}
		return &Value{Kind: Str, Str: s}, nil
	case c == 't':
		return p.lit("true", &Value{Kind: Bool, B: true})
	case c == 'f':
		return p.lit("false", &Value{Kind: Bool})
	case c == 'n':
		return p.lit("null", &Value{Kind: Null})
	case c == '-' || (c >= '0' && c <= '9'):
		return p.num()
	default:
		return nil, fmt.Errorf("unexpected byte %q", c)
	}
}

func (p *parser) lit(s string, v *Value) (*Value, error) {
	if bytes.HasPrefix(p.b[p.i:], []byte(s)) {
		p.i += len(s)
		return v, nil
	}
	return nil, fmt.Errorf("bad literal")
}

func (p *parser) num() (*Value, error) {
	st := p.i
	if p.b[p.i] == '-' {
		p.i++
	}
	if p.i >= len(p.b) {
		return nil, fmt.Errorf("bad number")
	}
	if p.b[p.i] == '0' {
		p.i++
	} else if p.b[p.i] >= '1' && p.b[p.i] <= '9' {
		for p.i < len(p.b) && p.b[p.i] >= '0' && p.b[p.i] <= '9' {
			p.i++
		}
	} else {
		return nil, fmt.Errorf("bad number")
	}
	if p.i < len(p.b) && p.b[p.i] == '.' {
		p.i++
		n := 0
		for p.i < len(p.b) && p.b[p.i] >= '0' && p.b[p.i] <= '9' {
			p.i++
			n++
		}
		if n == 0 {
			return nil, fmt.Errorf("bad fraction")
		}
	}
	if p.i < len(p.b) && (p.b[p.i] == 'e' || p.b[p.i] == 'E') {
		p.i++
		if p.i < len(p.b) && (p.b[p.i] == '+' || p.b[p.i] == '-') {
			p.i++
		}
		n := 0
		for p.i < len(p.b) && p.b[p.i] >= '0' && p.b[p.i] <= '9' {
			p.i++
			n++
		}
		if n == 0 {
			return nil, fmt.Errorf("bad exponent")
		}
	}
	return &Value{Kind: Num, Num: string(p.b[st:p.i])}, nil
}

func hex4(b []byte) (rune, bool) {
	if len(b) < 4 {
		return 0, false
	}
	var r rune
	for _, c := range b[:4] {
		r <<= 4
		switch {
		case c >= '0' && c <= '9':
			r |= rune(c - '0')
		case c >= 'a' && c <= 'f':
			r |= rune(c-'a') + 10
		case c >= 'A' && c <= 'F':
			r |= rune(c-'A') + 10
		default:
			return 0, false
		}
	}
	return r, true
}

func (p *parser) str() (string, error) {
	p.i++ // opening quote
	var out []byte
	for {
		if p.i >= len(p.b) {
			return "", fmt.Errorf("unterminated string")
		}
		c := p.b[p.i]
		switch {
		case c == '"':
			p.i++
			return string(out), nil
		case c < 0x20:
			return "", fmt.Errorf("raw control byte 0x%02x inside string", c)
		case c == '\\':
			p.i++
			if p.i >= len(p.b) {
				return "", fmt.Errorf("unterminated escape")
			}
			switch e := p.b[p.i]; e {
			case '"', '\\', '/':
				out = append(out, e)
				p.i++
			case 'b':
				out = append(out, '\b')
				p.i++
			case 'f':
				out = append(out, '\f')
				p.i++
			case 'n':
				out = append(out, '\n')
				p.i++
			case 'r':
				out = append(out, '\r')
				p.i++
			case 't':
				out = append(out, '\t')
				p.i++
			case 'u':
				p.i++
				r, ok := hex4(p.b[p.i:])
				if !ok {
					return "", fmt.Errorf("bad \\u escape")
				}
				p.i += 4
				if utf16.IsSurrogate(r) {
					if p.i+6 <= len(p.b) && p.b[p.i] == '\\' && p.b[p.i+1] == 'u' {
						if r2, ok := hex4(p.b[p.i+2:]); ok {
							if d := utf16.DecodeRune(r, r2); d != utf8.RuneError {
								p.i += 6
								out = utf8.AppendRune(out, d)
								continue
							}
						}
					}
					r = utf8.RuneError
				}
				out = utf8.AppendRune(out, r)
			default:
				return "", fmt.Errorf("bad escape \\%c", e)
			}
		default:
			out = append(out, c)
			p.i++
		}
	}
}

// SecondOpinion reports whether encoding/json considers b one valid JSON value.
func SecondOpinion(b []byte) bool { return json.Valid(b) }

// CheckLine validates one sink line: the exact line ending must be present, the
// rest must be exactly one object. It returns the parsed object. If the two
// validators disagree, inconclusive is true.
func CheckLine(line []byte, lineEnding string) (v *Value, err error, inconclusive bool) {
	if !bytes.HasSuffix(line, []byte(lineEnding)) {
		return nil, fmt.Errorf("line does not end with the configured line ending %q: ...%q", lineEnding, tail(line)), false
	}
	body := line[:len(line)-len(lineEnding)]
	for i, c := range body {
		if c < 0x20 {
			return nil, fmt.Errorf("raw control byte 0x%02x at offset %d inside the object", c, i), false
		}
	}
	v, err = ParseObjectLine(body)
	ok2 := SecondOpinion(body) && len(body) > 0 && body[0] == '{'
	if (err == nil) != ok2 {
		// encoding/json accepts invalid UTF-8 and surrounding whitespace; those are the
		// only tolerated differences and both are decided by the strict parser.
		if err != nil && ok2 && (!utf8.Valid(body) || body[len(body)-1] != '}') {
			return nil, err, false
		}
		return nil, fmt.Errorf("validators disagree: strict=%v encoding/json=%v", err, ok2), true
	}
	return v, err, false
}

func tail(b []byte) []byte {
	if len(b) > 24 {
		return b[len(b)-24:]
	}
	return b
}

// Equal compares two trees structurally (ordered; numbers by literal text).
func Equal(a, b *Value) bool {
	if a == nil || b == nil {
		return a == b
	}
	if a.Kind != b.Kind {
		return false
	}
	switch a.Kind {
	case Bool:
		return a.B == b.B
	case Num:
		return a.Num == b.Num
	case Str:
		return a.Str == b.Str
	case Arr:
		if len(a.Elems) != len(b.Elems) {
			return false
		}
		for i := range a.Elems {
			if !Equal(a.Elems[i], b.Elems[i]) {
				return false
			}
		}
	case Obj:
		if len(a.Members) != len(b.Members) {
			return false
		}
		for i := range a.Members {
			if a.Members[i].Key != b.Members[i].Key || !Equal(a.Members[i].Val, b.Members[i].Val) {
				return false
			}
		}
	}
	return true
}

// Render prints a tree compactly (diagnostics only).
func Render(v *Value) string {
	var b bytes.Buffer
	render(&b, v)
	return b.String()
}

func render(b *bytes.Buffer, v *Value) {
	if v == nil {
		b.WriteString("<absent>")
		return
	}
	switch v.Kind {
	case Null:
		b.WriteString("null")
	case Bool:
		fmt.Fprint(b, v.B)
	case Num:
		b.WriteString(v.Num)
	case Str:
		fmt.Fprintf(b, "%q", v.Str)
	case Arr:
		b.WriteByte('[')
		for i, e := range v.Elems {
			if i > 0 {
				b.WriteByte(',')
			}
			render(b, e)
		}
		b.WriteByte(']')
	case Obj:
		b.WriteByte('{')
		for i, m := range v.Members {
			if i > 0 {
				b.WriteByte(',')
			}
			fmt.Fprintf(b, "%q:", m.Key)
			render(b, m.Val)
		}
		b.WriteByte('}')
	}
}
