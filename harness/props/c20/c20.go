// Package c20 monitors C20: level names round-trip through their text forms
// and the AtomicLevel HTTP endpoint sets exactly the requested level.
package c20

import (
	"bytes"
	"encoding/json"
	"errors"
	"flag"
	"fmt"
	"io"
	"net/http"
	"net/http/httptest"
	"net/url"
	"strings"

	"go.uber.org/zap"
	"go.uber.org/zap/verif/internal/ev"
	"go.uber.org/zap/verif/internal/gen"
	"go.uber.org/zap/verif/internal/rng"
	"go.uber.org/zap/zapcore"
	"go.uber.org/zap/zaptest/observer"
	"gopkg.in/yaml.v3"
)

var names = map[string]zapcore.Level{"debug": -1, "info": 0, "warn": 1, "warning": 1, "error": 2, "dpanic": 3, "panic": 4, "fatal": 5}

// classify is the harness's own reading of the accepted set: ASCII
// case-insensitive names, "" = info. dontCare is set for text with non-ASCII bytes.
func classify(text string) (lvl zapcore.Level, ok bool, dontCare bool) {
	if text == "" {
		return 0, true, false
	}
	b := []byte(text)
	for i, c := range b {
		if c >= 0x80 {
			return 0, false, true
		}
		if c >= 'A' && c <= 'Z' {
			b[i] = c + 32
		}
	}
	l, ok := names[string(b)]
	return l, ok, false
}

const sentinel = zapcore.Level(77)

type parser struct {
	name  string
	parse func(text string) (got zapcore.Level, err error, after zapcore.Level)
}

func parsers() []parser {
	return []parser{
		{"Level.UnmarshalText", func(t string) (zapcore.Level, error, zapcore.Level) {
			l := sentinel
			err := l.UnmarshalText([]byte(t))
			return l, err, l
		}},
		{"Level.Set(flag.Value)", func(t string) (zapcore.Level, error, zapcore.Level) {
			l := sentinel
			err := l.Set(t)
			return l, err, l
		}},
		{"ParseLevel", func(t string) (zapcore.Level, error, zapcore.Level) {
			l, err := zapcore.ParseLevel(t)
			if err != nil {
				return l, err, sentinel
			}
			return l, nil, l
		}},
		{"AtomicLevel.UnmarshalText", func(t string) (zapcore.Level, error, zapcore.Level) {
			// the target is what the rest of the program holds: a copy made earlier (a core's enabler)
			a := zap.NewAtomicLevelAt(sentinel)
			held := a
			err := a.UnmarshalText([]byte(t))
			return a.Level(), err, held.Level()
		}},
		{"ParseAtomicLevel", func(t string) (zapcore.Level, error, zapcore.Level) {
			a, err := zap.ParseAtomicLevel(t)
			if err != nil {
				return 0, err, sentinel
			}
			return a.Level(), nil, a.Level()
		}},
		{"json.Unmarshal(*Level)", func(t string) (zapcore.Level, error, zapcore.Level) {
			l := sentinel
			b, _ := json.Marshal(t)
			err := json.Unmarshal(b, &l)
			return l, err, l
		}},
		{"json.Unmarshal(struct{AtomicLevel})", func(t string) (zapcore.Level, error, zapcore.Level) {
			v := struct{ L zap.AtomicLevel }{zap.NewAtomicLevelAt(sentinel)}
			held := v.L
			b, _ := json.Marshal(map[string]string{"L": t})
			err := json.Unmarshal(b, &v)
			return v.L.Level(), err, held.Level()
		}},
		{"yaml.Unmarshal(*Level)", func(t string) (zapcore.Level, error, zapcore.Level) {
			l := sentinel
			b, merr := yaml.Marshal(t)
			if merr != nil {
				return l, nil, l
			}
			err := yaml.Unmarshal(b, &l)
			return l, err, l
		}},
		{"flag.FlagSet", func(t string) (zapcore.Level, error, zapcore.Level) {
			l := sentinel
			fs := flag.NewFlagSet("x", flag.ContinueOnError)
			fs.SetOutput(io.Discard)
			fs.Var(&l, "level", "")
			err := fs.Parse([]string{"-level=" + t})
			return l, err, l
		}},
	}
}

func caseMixes(s string, g *rng.R, max int) []string {
	n := len(s)
	if 1<<n <= max {
		out := make([]string, 0, 1<<n)
		for m := 0; m < 1<<n; m++ {
			b := []byte(s)
			for i := range b {
				if m>>i&1 == 1 {
					b[i] -= 32
				}
			}
			out = append(out, string(b))
		}
		return out
	}
	out := []string{s, strings.ToUpper(s)}
	for len(out) < max {
		b := []byte(s)
		for i := range b {
			if g.Bool() {
				b[i] -= 32
			}
		}
		out = append(out, string(b))
	}
	return out
}

func texts(r *ev.Run) {
	ps := parsers()
	judge := func(id, text string) {
		want, ok, dc := classify(text)
		for _, p := range ps {
			if p.name == "yaml.Unmarshal(*Level)" && !isPlainYAML(text) {
				continue
			}
			if p.name == "flag.FlagSet" && strings.ContainsAny(text, "\x00") {
				continue
			}
			var got, after zapcore.Level
			var err error
			if pn := ev.Guard(func() { got, err, after = p.parse(text) }); pn != "" {
				r.Violate(ev.Violation{Case: id, Class: "parse-panic", Msg: fmt.Sprintf("%s(%q) panicked: %s", p.name, text, pn)})
				continue
			}
			r.Eval(1)
			switch {
			case dc:
				if err == nil && (got < -1 || got > 5) {
					r.Violate(ev.Violation{Case: id, Class: "parse-nonascii", Msg: fmt.Sprintf("%s(%q) accepted non-ASCII text and produced invalid level %d", p.name, text, got)})
				}
				if err != nil && after != sentinel {
					r.Violate(ev.Violation{Case: id, Class: "parse-modified-target", Msg: fmt.Sprintf("%s(%q) failed but modified the target to %d", p.name, text, after)})
				}
			case ok:
				if err != nil || got != want {
					r.Violate(ev.Violation{Case: id, Class: "parse-valid", Msg: fmt.Sprintf("%s(%q) = (%v, %v), want level %d", p.name, text, got, err, want)})
				} else if after != want {
					r.Violate(ev.Violation{Case: id, Class: "parse-target-not-set", Msg: fmt.Sprintf("%s(%q) succeeded with level %d, but the target as held elsewhere in the program (a copy of the AtomicLevel made before) reads %d: the requested level was not set", p.name, text, got, after)})
				}
			default:
				if err == nil {
					r.Violate(ev.Violation{Case: id, Class: "parse-accepts-invalid", Msg: fmt.Sprintf("%s(%q) accepted text outside the documented set (level %d)", p.name, text, got)})
				} else if after != sentinel {
					r.Violate(ev.Violation{Case: id, Class: "parse-modified-target", Msg: fmt.Sprintf("%s(%q) failed but modified the target to %d", p.name, text, after)})
				}
			}
		}
	}
	// all 256 values: forms round-trip for valid levels, are rejected for the others
	for v := -128; v <= 127; v++ {
		l := zapcore.Level(v)
		id := fmt.Sprintf("c20/value/%d", v)
		if !r.Want(id) {
			continue
		}
		mt, _ := l.MarshalText()
		jb, _ := json.Marshal(l)
		yb, _ := yaml.Marshal(l)
		var fromJSON, fromYAML zapcore.Level = sentinel, sentinel
		jerr := json.Unmarshal(jb, &fromJSON)
		yerr := yaml.Unmarshal(yb, &fromYAML)
		forms := []string{l.String(), l.CapitalString(), string(mt)}
		r.SetAdd("level_values", fmt.Sprint(v))
		r.Distinct(fmt.Sprintf("value|%d", v))
		for _, f := range forms {
			judge(id, f)
		}
		valid := v >= -1 && v <= 5
		if valid {
			for _, f := range forms {
				if w, ok, _ := classify(f); !ok || w != l {
					r.Violate(ev.Violation{Case: id, Class: "roundtrip", Msg: fmt.Sprintf("level %d renders as %q which does not name it", v, f)})
				}
			}
			if jerr != nil || fromJSON != l || yerr != nil || fromYAML != l {
				r.Violate(ev.Violation{Case: id, Class: "roundtrip", Msg: fmt.Sprintf("level %d does not round-trip through JSON (%s -> %v,%v) / YAML (%q -> %v,%v)", v, jb, fromJSON, jerr, yb, fromYAML, yerr)})
			}
			a := zap.NewAtomicLevelAt(l)
			at, _ := a.MarshalText()
			if string(at) != l.String() || a.String() != l.String() {
				r.Violate(ev.Violation{Case: id, Class: "roundtrip", Msg: "AtomicLevel text form differs from Level's"})
			}
			// an AtomicLevel inside a document, however it is held (bare value, struct field of a struct
			// passed by value or by pointer, map value): written as the level's name, read back as the level
			type doc struct{ L zap.AtomicLevel }
			name := `"` + l.String() + `"`
			for how, mk := range map[string]func() ([]byte, error){
				"bare value":                func() ([]byte, error) { return json.Marshal(a) },
				"pointer":                   func() ([]byte, error) { return json.Marshal(&a) },
				"field of a struct value":   func() ([]byte, error) { return json.Marshal(doc{a}) },
				"field of a struct pointer": func() ([]byte, error) { return json.Marshal(&doc{a}) },
				"map value":                 func() ([]byte, error) { return json.Marshal(map[string]zap.AtomicLevel{"L": a}) },
			} {
				b, err := mk()
				want := name
				if strings.Contains(how, "struct") || how == "map value" {
					want = `{"L":` + name + `}`
				}
				if err != nil || string(b) != want {
					r.Violate(ev.Violation{Case: id, Class: "roundtrip", Msg: fmt.Sprintf("AtomicLevel at %v marshalled to JSON as a %s gives %s (err %v), want %s", l, how, b, err, want)})
					continue
				}
				if strings.HasPrefix(want, "{") {
					back := doc{zap.NewAtomicLevelAt(sentinel)}
					if err := json.Unmarshal(b, &back); err != nil || back.L.Level() != l {
						r.Violate(ev.Violation{Case: id, Class: "roundtrip", Msg: fmt.Sprintf("AtomicLevel document %s reads back as level %v (err %v), want %v", b, back.L.Level(), err, l)})
					}
				}
			}
			r.Count("atomic_level_json_documents", 5)
		} else if jerr == nil || yerr == nil {
			if jerr == nil && fromJSON != l || yerr == nil && fromYAML != l {
				r.Violate(ev.Violation{Case: id, Class: "parse-accepts-invalid", Msg: fmt.Sprintf("invalid level %d round-trips to a different level", v)})
			}
		}
	}
	// the marshalled text belongs to the caller: appending to it or overwriting it must not change
	// what any later call returns (for Level and AtomicLevel, text and JSON)
	for round := 0; round < 3; round++ {
		for v := -1; v <= 5; v++ {
			l := zapcore.Level(v)
			id := fmt.Sprintf("c20/text-ownership/%d/%d", round, v)
			if !r.Want(id) {
				continue
			}
			a := zap.NewAtomicLevelAt(l)
			for _, get := range []func() []byte{
				func() []byte { b, _ := l.MarshalText(); return b },
				func() []byte { b, _ := a.MarshalText(); return b },
				func() []byte { b, _ := json.Marshal(l); return b },
			} {
				t := get()
				t = append(t, ';', ';', ';', ';', ';', ';', ';', ';') // grow in place if there is spare capacity
				for k := range t {
					t[k] = '#'
				}
			}
			r.Eval(1)
			r.Distinct("ownership|" + id)
			for w := -1; w <= 5; w++ {
				lw := zapcore.Level(w)
				mt, _ := lw.MarshalText()
				jb, _ := json.Marshal(lw)
				alw := zap.NewAtomicLevelAt(lw)
				at, _ := alw.MarshalText()
				if string(mt) != gen.LevelName(lw) || string(at) != gen.LevelName(lw) || string(jb) != `"`+gen.LevelName(lw)+`"` {
					r.Violate(ev.Violation{Case: id, Class: "roundtrip", Msg: fmt.Sprintf("after a caller modified the slice an earlier MarshalText/Marshal of level %v returned (appending to it and overwriting it), level %v now marshals as text %q / AtomicLevel %q / JSON %s", l, lw, mt, at, jb)})
					w = 6
				}
			}
		}
	}
	g := rng.For(r.Seed, "c20/mix", 0)
	for name := range names {
		for i, m := range caseMixes(name, g, 128) {
			judge(fmt.Sprintf("c20/mix/%s/%d", name, i), m)
			r.Distinct("mix|" + m)
		}
	}
	for _, t := range []string{"", " ", "info ", " info", "inf", "infoo", "INFO\n", "warnin", "warningg", "level(0)", "Level(0)", "0", "1", "-1", "trace", "off", "all", "critical", "err", "dbg", "İNFO", "ınfo", "PANİC", "info\x00", "\x00", "ｉｎｆｏ", "debug,info", "nil", "null", "true"} {
		judge("c20/special/"+t, t)
		r.Distinct("special|" + t)
	}
	n := r.N(60000, 1500000)
	for i := 0; i < n; i++ {
		id := fmt.Sprintf("c20/rand/%d", i)
		if !r.Want(id) {
			continue
		}
		g := rng.For(r.Seed, "c20/rand", i)
		var t string
		switch g.Intn(4) {
		case 0:
			b := make([]byte, g.Intn(10))
			for j := range b {
				b[j] = byte(g.Intn(256))
			}
			t = string(b)
		case 1:
			base := []byte(rng.Pick(g, []string{"debug", "info", "warn", "warning", "error", "dpanic", "panic", "fatal"}))
			if len(base) > 0 {
				switch g.Intn(4) {
				case 0:
					base[g.Intn(len(base))] = byte(g.Intn(256))
				case 1:
					base = append(base[:g.Intn(len(base))], base[g.Intn(len(base)):]...)
				case 2:
					base = append(base, byte(g.Intn(128)))
				default:
					base = base[:g.Intn(len(base))]
				}
			}
			t = string(base)
		case 2:
			b := make([]byte, g.Intn(8))
			for j := range b {
				b[j] = "adefgilnoprtuw"[g.Intn(14)]
			}
			t = string(b)
		default:
			b := make([]byte, g.Intn(8))
			for j := range b {
				b[j] = byte(32 + g.Intn(95))
			}
			t = string(b)
		}
		if i < 2 {
			r.Sample(map[string]any{"level_text": t})
		}
		judge(id, t)
		r.Distinct("rand|" + t)
	}
}

func isPlainYAML(s string) bool {
	// only texts yaml.Marshal can carry as a string scalar and return unchanged
	var back string
	b, err := yaml.Marshal(s)
	if err != nil {
		return false
	}
	if yaml.Unmarshal(b, &back) != nil || back != s {
		return false
	}
	return true
}

// ---- HTTP ---------------------------------------------------------------------

type req struct {
	Method, CT, Body, Query string
	// intent: "valid" (Want names the level), "invalid", "none" (no expectation beyond the invariants)
	Intent string
	Want   zapcore.Level
	Desc   string
	// Pre: the request passes through a piece of middleware that has already parsed the form
	// (r.ParseForm) before the level handler sees it
	Pre bool
}

func genReq(g *rng.R) req {
	validName := func() (string, zapcore.Level) {
		n := rng.Pick(g, []string{"debug", "info", "warn", "warning", "error", "dpanic", "panic", "fatal"})
		l := names[n]
		switch g.Intn(3) {
		case 0:
			n = strings.ToUpper(n)
		case 1:
			b := []byte(n)
			for i := range b {
				if g.Bool() {
					b[i] -= 32
				}
			}
			n = string(b)
		}
		return n, l
	}
	badName := func() string {
		return rng.Pick(g, []string{"trace", "inf", "Level(1)", "7", "debugg", " ", "warn ", "off", "\x00", "é", "{}"})
	}
	jsonCT := func() string {
		return rng.Pick(g, []string{"", "application/json", "text/plain", "application/json; charset=utf-8", "APPLICATION/JSON"})
	}
	const form = "application/x-www-form-urlencoded"
	switch g.Intn(18) {
	case 16:
		// a content type that merely begins like the form type is not the form type: the body is JSON
		n, l := validName()
		b, _ := json.Marshal(map[string]string{"level": n})
		ct := form + rng.Pick(g, []string{"+json", "-v2", "x", ".json"})
		q := rng.Pick(g, []string{"", "", "level=" + rng.Pick(g, []string{"debug", "fatal"})})
		return req{Method: "PUT", CT: ct, Body: string(b), Query: q, Intent: "valid", Want: l, Desc: "PUT json valid " + n + " under content type " + ct}
	case 17:
		// body and query name different levels in a form request: the body's wins (net/http's FormValue)
		n, l := validName()
		other := rng.Pick(g, []string{"debug", "fatal", "error"})
		return req{Method: "PUT", CT: form, Body: "level=" + url.QueryEscape(n), Query: "level=" + other, Intent: "valid", Want: l, Desc: "PUT form body valid " + n + " with another level in the query", Pre: g.Bool()}
	case 0, 1:
		return req{Method: "GET", Intent: "get", Desc: "GET"}
	case 2, 3:
		n, l := validName()
		b, _ := json.Marshal(map[string]string{"level": n})
		if g.P(1, 6) {
			// insignificant whitespace makes the body large; it is still the same JSON document
			b = append([]byte(strings.Repeat(" ", rng.Pick(g, []int{1000, 1100, 5000, 70000}))), b...)
		}
		return req{Method: "PUT", CT: jsonCT(), Body: string(b), Intent: "valid", Want: l, Desc: "PUT json valid " + n}
	case 4:
		n, l := validName()
		return req{Method: "PUT", CT: form, Body: "level=" + url.QueryEscape(n), Intent: "valid", Want: l, Desc: "PUT form body valid " + n, Pre: g.Bool()}
	case 5:
		n, l := validName()
		if g.P(1, 3) {
			// a large form body (other fields before or after the level): still a PUT naming a valid level
			pad := "pad=" + strings.Repeat("x", rng.Pick(g, []int{900, 1020, 1100, 5000, 70000}))
			body := pad + "&level=" + url.QueryEscape(n)
			if g.Bool() {
				body = "level=" + url.QueryEscape(n) + "&" + pad
			}
			q := ""
			if g.Bool() {
				q = "level=" + url.QueryEscape(n) // the same level again in the query
			}
			return req{Method: "PUT", CT: form, Body: body, Query: q, Intent: "valid", Want: l, Desc: fmt.Sprintf("PUT form body of %d bytes valid %s", len(body), n)}
		}
		return req{Method: "PUT", CT: form, Query: "level=" + url.QueryEscape(n), Intent: "valid", Want: l, Desc: "PUT form query valid " + n}
	case 6:
		n := badName()
		b, _ := json.Marshal(map[string]string{"level": n})
		return req{Method: "PUT", CT: jsonCT(), Body: string(b), Intent: "invalid", Desc: "PUT json invalid name"}
	case 7:
		return req{Method: "PUT", CT: form, Body: "level=" + url.QueryEscape(badName()), Intent: "invalid", Desc: "PUT form invalid name", Pre: g.Bool()}
	case 8:
		body := rng.Pick(g, []string{"", "{}", `{"level":null}`, `{"lvl":"debug"}`, `{"level":1}`, `{"level":["debug"]}`, `{"level":{"a":1}}`, `[`, `{"level":"debug"`, "level=debug", "null", `"debug"`, "\x00\x01"})
		return req{Method: "PUT", CT: jsonCT(), Body: body, Intent: "invalid", Desc: "PUT json malformed/missing: " + body}
	case 9:
		body := rng.Pick(g, []string{"", "lvl=debug", "level=", "=debug", "%zz", "level=%zz"})
		return req{Method: "PUT", CT: form, Body: body, Intent: "invalid", Desc: "PUT form malformed/missing: " + body}
	case 10, 11:
		n, _ := validName()
		b, _ := json.Marshal(map[string]string{"level": n})
		m := rng.Pick(g, []string{"POST", "DELETE", "PATCH", "HEAD", "OPTIONS", "TRACE", "CONNECT", "put", "get", "FOO"})
		ct := rng.Pick(g, []string{"", form, "application/json"})
		body := string(b)
		if ct == form {
			body = "level=" + n
		}
		return req{Method: m, CT: ct, Body: body, Query: rng.Pick(g, []string{"", "level=debug"}), Intent: "othermethod", Desc: m + " with a valid-looking level"}
	case 12: // don't-care zones: judged by the invariants only
		n, _ := validName()
		body := rng.Pick(g, []string{`{"level":""}`, `{"level":"` + n + `"} trailing`, `{"level":"` + n + `"}{"level":"fatal"}`, `{"LEVEL":"` + n + `"}`, `{"level":"error","level":"` + n + `"}`,
			// a repeated key whose first value is valid and whose later value is not: whatever the answer, a 4xx must leave the level alone
			`{"level":"` + n + `","level":"nope"}`, `{"level":"` + n + `","level":7}`, `{"level":"` + n + `","LEVEL":"bogus"}`, `{"Level":"` + n + `","level":null,"level":[1]}`, `{"level":"` + n + `","level":"` + n + `x"}`, `{"level":"` + n + `","level":{}}`})
		return req{Method: "PUT", CT: jsonCT(), Body: body, Intent: "none", Desc: "PUT json don't-care: " + body}
	case 13:
		n, _ := validName()
		return req{Method: "PUT", CT: rng.Pick(g, []string{form + "; charset=UTF-8", "Application/X-WWW-Form-Urlencoded", "multipart/form-data"}), Body: "level=" + n, Intent: "none", Desc: "PUT form with content-type variant"}
	default:
		b := make([]byte, g.Intn(40))
		for i := range b {
			b[i] = byte(g.Intn(256))
		}
		return req{Method: rng.Pick(g, []string{"PUT", "PUT", "GET", "POST"}), CT: rng.Pick(g, []string{"", form, "application/json", "\x00"}), Body: string(b), Intent: "none", Desc: "random bytes"}
	}
}

func reported(body []byte) (string, bool) {
	var p struct {
		Level *string `json:"level"`
	}
	if json.Unmarshal(body, &p) != nil || p.Level == nil {
		return "", false
	}
	return *p.Level, true
}

func httpSeqs(r *ev.Run) {
	n := r.N(15000, 400000)
	for i := 0; i < n; i++ {
		id := fmt.Sprintf("c20/http/%d", i)
		if !r.Want(id) {
			continue
		}
		g := rng.For(r.Seed, "c20/http", i)
		start := zapcore.Level(g.Intn(7) - 1)
		if g.P(1, 10) {
			start = zapcore.Level(int8(g.Intn(256) - 128))
		}
		al := zap.NewAtomicLevelAt(start)
		core, logs := observer.New(al)
		logger := zap.New(core)
		child := logger.With(zap.Int("c", 1)).Named("n")
		var srv *httptest.Server
		if i%97 == 0 {
			srv = httptest.NewServer(preparse(al))
		}
		var trace []string
		for step, k := 0, g.Range(1, 30); step < k; step++ {
			q := genReq(g)
			before := al.Level()
			status, body, ok := do(al, srv, q)
			if !ok {
				continue // the request cannot be expressed over the transport (e.g. invalid method token)
			}
			after := al.Level()
			trace = append(trace, fmt.Sprintf("%s [ct=%q query=%q body=%q] -> %d %s (level %d -> %d)", q.Desc, q.CT, q.Query, clip(q.Body), status, clip(string(body)), before, after))
			r.Eval(1)
			r.SetAdd("request_classes", q.Method+"|"+q.Intent)
			r.Distinct(fmt.Sprintf("%s|%s|%s|%s", q.Method, q.CT, q.Intent, clip(q.Body)))
			if after != before && after >= -1 && after <= 5 && before >= -1 && before <= 5 {
				r.SetAdd("level_transitions", fmt.Sprintf("%d->%d", before, after))
			}
			bad := func(class, f string, a ...any) {
				t := trace
				if len(t) > 12 {
					t = t[len(t)-12:]
				}
				r.Violate(ev.Violation{Case: id, Class: class, Msg: fmt.Sprintf("step %d %s: ", step, q.Desc) + fmt.Sprintf(f, a...), Witness: map[string]any{"start_level": int(start), "requests": t}})
			}
			rep, hasRep := reported(body)
			if status >= 500 || status < 200 || (status >= 300 && status < 400) {
				bad("http-status", "status %d (only 200 and 4xx are allowed)", status)
			}
			if after != before {
				if q.Method != "PUT" {
					bad("http-changed-by-non-put", "level changed by a %s request", q.Method)
				}
				if status != 200 {
					bad("http-changed-with-error-status", "level changed but status is %d", status)
				}
				if after < -1 || after > 5 {
					bad("http-invalid-level-set", "level set to invalid value %d", after)
				}
			}
			if status == 200 && (q.Method == "GET" || q.Method == "PUT") {
				if !hasRep || rep != gen.LevelName(after) {
					bad("http-reports-wrong-level", "response %q does not report the level in force (%s)", clip(string(body)), gen.LevelName(after))
				}
			}
			if q.Method != "GET" && q.Method != "PUT" && (status < 400 || status > 499) {
				bad("http-method", "method %s answered with %d, want 4xx", q.Method, status)
			}
			switch q.Intent {
			case "get":
				if status != 200 {
					bad("http-get", "GET answered %d", status)
				}
			case "valid":
				if status != 200 || after != q.Want {
					bad("http-valid-put", "valid PUT for level %d: status %d, level now %d", q.Want, status, after)
				}
			case "invalid":
				if status < 400 || status > 499 || after != before {
					bad("http-invalid-put", "invalid/malformed PUT: status %d, level %d -> %d (want 4xx and unchanged)", status, before, after)
				}
			}
			// live loggers honour the level in force
			for _, lg := range []*zap.Logger{logger, child} {
				for l := zapcore.DebugLevel; l <= zapcore.ErrorLevel; l++ {
					c0 := logs.Len()
					lg.Log(l, "probe")
					delivered := logs.Len() == c0+1
					if delivered != (l >= after) {
						bad("http-live-logger", "after the request the level in force is %d but a live logger delivered=%v at level %d", after, delivered, l)
					}
				}
				for l := zapcore.DPanicLevel; l <= zapcore.FatalLevel; l++ {
					if lg.Core().Enabled(l) != (l >= after) {
						bad("http-live-logger", "Enabled(%d) disagrees with level in force %d", l, after)
					}
				}
			}
			logs.TakeAll()
		}
		if srv != nil {
			srv.Close()
			r.Count("sequences_over_loopback_server", 1)
		}
		r.Count("sequences", 1)
		if i < 2 {
			r.Sample(map[string]any{"start_level": int(start), "requests": trace})
		}
	}
}

func clip(s string) string {
	if len(s) > 80 {
		return s[:80] + "..."
	}
	return s
}

// preparse is a piece of middleware in front of the level handler: for marked requests it has looked
// at the form (as an authentication or CSRF check would) before the handler runs.
func preparse(h http.Handler) http.Handler {
	return http.HandlerFunc(func(w http.ResponseWriter, r *http.Request) {
		if r.Header.Get("X-Verif-Preparse") != "" {
			_ = r.ParseForm()
			_ = r.FormValue("token")
		}
		h.ServeHTTP(w, r)
	})
}

func do(al zap.AtomicLevel, srv *httptest.Server, q req) (int, []byte, bool) {
	target := "/"
	if q.Query != "" {
		target += "?" + q.Query
	}
	if srv != nil {
		rq, err := http.NewRequest(q.Method, srv.URL+target, strings.NewReader(q.Body))
		if err != nil {
			return 0, nil, false
		}
		if q.CT != "" {
			rq.Header.Set("Content-Type", q.CT)
		}
		if q.Pre {
			rq.Header.Set("X-Verif-Preparse", "1")
		}
		resp, err := http.DefaultClient.Do(rq)
		if err != nil {
			return 0, nil, false
		}
		defer resp.Body.Close()
		b, _ := io.ReadAll(resp.Body)
		if q.Method == "HEAD" {
			return resp.StatusCode, b, true
		}
		return resp.StatusCode, b, true
	}
	rq, err := http.NewRequest(q.Method, "http://example.com"+target, bytes.NewReader([]byte(q.Body)))
	if err != nil {
		return 0, nil, false
	}
	if q.CT != "" {
		rq.Header.Set("Content-Type", q.CT)
	}
	if q.Pre {
		rq.Header.Set("X-Verif-Preparse", "1")
	}
	rec := httptest.NewRecorder()
	preparse(al).ServeHTTP(rec, rq)
	return rec.Code, rec.Body.Bytes(), true
}

// retryWriter is a response writer on a connection that breaks: the first time the handler writes its
// answer, the client (which has given up waiting) repeats the same PUT on a healthy connection and
// gets its acknowledgement; then the first write fails.
type retryWriter struct {
	hdr         http.Header
	al          zap.AtomicLevel
	ct, body    string
	fired       bool
	retryStatus int
}

func (w *retryWriter) Header() http.Header { return w.hdr }
func (w *retryWriter) WriteHeader(int)     {}
func (w *retryWriter) Write(p []byte) (int, error) {
	if !w.fired {
		w.fired = true
		rq, _ := http.NewRequest("PUT", "http://example.com/", strings.NewReader(w.body))
		rq.Header.Set("Content-Type", w.ct)
		rec := httptest.NewRecorder()
		w.al.ServeHTTP(rec, rq)
		w.retryStatus = rec.Code
	}
	return 0, errors.New("connection reset by peer")
}

// brokenConnections: every PUT that was acknowledged named level B and nothing named any other level,
// so B is the level in force afterwards - whatever became of the first connection.
func brokenConnections(r *ev.Run) {
	for a := zapcore.DebugLevel; a <= zapcore.FatalLevel; a++ {
		for b := zapcore.DebugLevel; b <= zapcore.FatalLevel; b++ {
			for fi, form := range []bool{false, true} {
				id := fmt.Sprintf("c20/broken-connection/%d/%d/%d", a, b, fi)
				if !r.Want(id) {
					continue
				}
				al := zap.NewAtomicLevelAt(a)
				held := al
				w := &retryWriter{hdr: http.Header{}, al: al, ct: "application/json", body: `{"level":"` + b.String() + `"}`}
				if form {
					w.ct, w.body = "application/x-www-form-urlencoded", "level="+b.String()
				}
				rq, _ := http.NewRequest("PUT", "http://example.com/", strings.NewReader(w.body))
				rq.Header.Set("Content-Type", w.ct)
				pn := ev.Guard(func() { al.ServeHTTP(w, rq) })
				r.Eval(1)
				r.Count("puts_over_a_connection_that_breaks", 1)
				r.Distinct(fmt.Sprintf("broken|%d|%d|%v", a, b, form))
				switch {
				case pn != "":
					r.Violate(ev.Violation{Case: id, Class: "http-panic", Msg: "the handler panicked when its response could not be written: " + pn})
				case !w.fired:
					r.Violate(ev.Violation{Case: id, Class: "http-no-response", Msg: "the handler wrote no response for a valid PUT"})
				case w.retryStatus != 200:
					r.Violate(ev.Violation{Case: id, Class: "http-valid-put", Msg: fmt.Sprintf("the repeated PUT naming %v was answered %d", b, w.retryStatus)})
				case held.Level() != b:
					r.Violate(ev.Violation{Case: id, Class: "http-level-not-in-force", Msg: fmt.Sprintf("level was %v; a PUT naming %v was sent twice (the first connection broke while the answer was written, the repeat was acknowledged with 200); the level in force is now %v", a, b, held.Level())})
				}
			}
		}
	}
}

// Run is the C20 monitor.
func Run(r *ev.Run) {
	r.Rule = "text forms: all 256 level values x {String, CapitalString, MarshalText, JSON, YAML} through 9 parsing entry points, every case mix of every name, special and random byte strings, with a sentinel target; HTTP: seeded sequences of 1-30 template requests (known intent) and random requests against one AtomicLevel shared with live loggers, invariants checked after every request; distinct = distinct texts / distinct (method, content-type, intent, body) requests"
	texts(r)
	httpSeqs(r)
	brokenConnections(r)
}
