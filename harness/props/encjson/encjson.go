// Package encjson holds the monitors for C01 (well-formed single JSON line) and
// C02 (the line decodes to exactly the logged values).
package encjson

import (
	"errors"
	"fmt"
	"runtime"
	"sync"

	"go.uber.org/zap/verif/internal/ev"
	"go.uber.org/zap/verif/internal/gen"
	"go.uber.org/zap/verif/internal/jsonv"
	"go.uber.org/zap/verif/internal/rec"
	"go.uber.org/zap/verif/internal/ref"
	"go.uber.org/zap/verif/internal/rng"
	"go.uber.org/zap/zapcore"
)

// Encode runs the real encoder on a case. viaCore drives an IO core over a
// recording sink and requires exactly one sink write.
func Encode(c *gen.Case, viaCore bool) (line []byte, problem string) {
	zc := c.Cfg.Zap()
	enc := zapcore.NewJSONEncoder(zc)
	fields := gen.ZapFields(c.Fields)
	if !viaCore {
		for _, w := range c.Ctx {
			clone := enc.Clone()
			for _, f := range w {
				f.F.AddTo(clone)
			}
			enc = clone
		}
		// a third of the cases first send earlier entries (without, then with call-site fields)
		// through the same encoder: the judged line must not depend on them
		if hist := (len(c.Fields) + len(c.Ctx) + len(c.Ent.Message)) % 3; hist > 0 {
			if b, err := enc.EncodeEntry(c.Ent, nil); err == nil {
				b.Free()
			}
			if hist > 1 {
				if b, err := enc.EncodeEntry(c.Ent, fields); err == nil {
					b.Free()
				}
			}
		}
		buf, err := enc.EncodeEntry(c.Ent, fields)
		if err != nil {
			return nil, fmt.Sprintf("EncodeEntry returned error: %v", err)
		}
		line = append([]byte(nil), buf.Bytes()...)
		buf.Free()
		return line, ""
	}
	sink := &rec.Sink{}
	core := zapcore.NewCore(enc, sink, zapcore.Level(-128))
	for _, w := range c.Ctx {
		core = core.With(gen.ZapFields(w))
	}
	if hist := (len(c.Fields) + len(c.Ctx) + len(c.Ent.Message)) % 3; hist > 0 {
		_ = core.Write(c.Ent, nil)
		if hist > 1 {
			_ = core.Write(c.Ent, fields)
			// and an entry whose destination refuses it: the failed write is over when it returns
			failing := zapcore.NewCore(enc, failingSink{}, zapcore.Level(-128))
			if err := failing.Write(c.Ent, fields); err == nil {
				return nil, "core.Write over a sink whose Write fails returned nil"
			}
		}
		sink.Reset()
	}
	if err := core.Write(c.Ent, fields); err != nil {
		return nil, fmt.Sprintf("core.Write returned error: %v", err)
	}
	ws := sink.Writes()
	if len(ws) != 1 {
		return nil, fmt.Sprintf("one entry produced %d sink writes", len(ws))
	}
	return ws[0], ""
}

type failingSink struct{}

func (failingSink) Write(p []byte) (int, error) { return 0, errors.New("injected write failure") }
func (failingSink) Sync() error                 { return nil }

func parallel(n int, f func(i int)) {
	workers := runtime.GOMAXPROCS(0)
	var wg sync.WaitGroup
	ch := make(chan int, 256)
	for w := 0; w < workers; w++ {
		wg.Add(1)
		go func() {
			defer wg.Done()
			for i := range ch {
				f(i)
			}
		}()
	}
	for i := 0; i < n; i++ {
		ch <- i
	}
	close(ch)
	wg.Wait()
}

func shape(c *gen.Case) string {
	return fmt.Sprintf("lvl%d,t%d,d%d,c%d,n%d|keys:%t%t%t%t%t%t%t|with%d|f%d|faults%d", c.Cfg.Level, c.Cfg.Time, c.Cfg.Dur, c.Cfg.Caller, c.Cfg.Name,
		c.Cfg.MessageKey != "", c.Cfg.LevelKey != "", c.Cfg.TimeKey != "", c.Cfg.NameKey != "", c.Cfg.CallerKey != "", c.Cfg.FunctionKey != "", c.Cfg.StacktraceKey != "",
		len(c.Ctx), len(c.Fields), c.Faults)
}

func classify01(c *gen.Case, msg string) string {
	if c.Cfg.Caller == gen.CallerNil && c.Cfg.CallerKey != "" && c.Ent.Caller.Defined && containsAny(msg, "nil pointer", "invalid memory") {
		return "panic:nil-EncodeCaller-with-CallerKey"
	}
	if c.Cfg.Time == gen.TimeLayout {
		return "invalid:custom-time-layout"
	}
	return "other"
}

func containsAny(s string, subs ...string) bool {
	for _, x := range subs {
		for i := 0; i+len(x) <= len(s); i++ {
			if s[i:i+len(x)] == x {
				return true
			}
		}
	}
	return false
}

// Run01 is the C01 monitor.
func Run01(r *ev.Run) {
	r.Rule = "case i = f(seed,i): hostile EncoderConfig x entry x With-chain x call-site fields; each encoded twice (EncodeEntry and IO core over a recording sink); distinct = distinct (config pattern, With depth, field count, fault count) shapes; non-trivial = at least one field or one hostile ingredient"
	n := r.N(60000, 4000000)
	var mu sync.Mutex
	maxLine := 0
	var bytesValidated int64
	parallel(n, func(i int) {
		id := fmt.Sprintf("c01/%d", i)
		if !r.Want(id) {
			return
		}
		g := gen.New(rng.For(r.Seed, "c01", i), gen.Opts{Hostile: true, MaxDepth: 4, FaultNum: 1, FaultDen: 6, BigStrings: i%50 == 0})
		c := g.Case(true)
		r.Eval(1)
		r.Distinct(shape(c))
		for t := range c.Tags {
			r.SetAdd("field_kinds", t)
		}
		r.SetAdd("config_patterns", fmt.Sprintf("%d/%d/%d/%d/%d", c.Cfg.Level, c.Cfg.Time, c.Cfg.Dur, c.Cfg.Caller, c.Cfg.Name))
		if c.Faults > 0 {
			r.Count("cases_with_faults", 1)
		}
		if i < 3 {
			r.Sample(c.Describe())
		}
		for _, via := range []bool{false, true} {
			var line []byte
			var problem string
			p := ev.Guard(func() { line, problem = Encode(c, via) })
			if p != "" {
				r.Violate(ev.Violation{Case: id, Class: classify01(c, "panic "+p), Msg: fmt.Sprintf("encoder panicked (viaCore=%v): %s", via, p), Witness: c.Describe()})
				return
			}
			if problem != "" {
				r.Violate(ev.Violation{Case: id, Class: "other", Msg: problem, Witness: c.Describe()})
				return
			}
			_, err, inc := jsonv.CheckLine(line, c.Cfg.EffLineEnding())
			if inc {
				r.Inconclusive(fmt.Sprintf("%s: %v", id, err))
				return
			}
			if err != nil {
				w := c.Describe()
				w["line"] = string(line)
				r.Violate(ev.Violation{Case: id, Class: classify01(c, ""), Msg: fmt.Sprintf("not one well-formed JSON object + line ending (viaCore=%v): %v; line=%q", via, err, clip(line)), Witness: w})
				return
			}
			mu.Lock()
			bytesValidated += int64(len(line))
			if len(line) > maxLine {
				maxLine = len(line)
			}
			mu.Unlock()
		}
	})
	r.Extra("bytes_validated", bytesValidated)
	r.Extra("longest_line", maxLine)
}

func clip(b []byte) []byte {
	if len(b) > 300 {
		return b[:300]
	}
	return b
}

// Judge02 compares one encoded line with the case's expectation.
func Judge02(c *gen.Case, line []byte) (err error, inconclusive bool) {
	v, perr, inc := jsonv.CheckLine(line, c.Cfg.EffLineEnding())
	if inc {
		return perr, true
	}
	if perr != nil {
		return fmt.Errorf("invalid JSON line: %v", perr), false
	}
	meta := c.ExpectMeta()
	fieldsObj := c.ExpectFields()
	exp := ref.Obj()
	exp.Members = append(exp.Members, meta.Members...)
	exp.Members = append(exp.Members, fieldsObj.Members...)
	got := *v
	if c.HasStack() {
		key := ref.Sanitize(c.Cfg.StacktraceKey)
		pos := -1
		if n := len(got.Members); n > 0 && got.Members[n-1].Key == key && got.Members[n-1].Val.Kind == jsonv.Str && got.Members[n-1].Val.Str == ref.Sanitize(c.Ent.Stack) {
			pos = n - 1
		}
		if pos < 0 {
			return fmt.Errorf("stack trace member %q with the entry's stack is not a top-level member at the end (got members %v)", key, keys(&got)), false
		}
		got.Members = append(append([]jsonv.Member(nil), got.Members[:pos]...), got.Members[pos+1:]...)
	}
	return ref.Compare(exp, &got, c.Cfg.Repr(), "$"), false
}

func keys(v *jsonv.Value) []string {
	var ks []string
	for _, m := range v.Members {
		ks = append(ks, m.Key)
	}
	return ks
}

var errSkipped = fmt.Errorf("skipped")

func sanitizedDup(n *ref.Node) bool {
	if n == nil {
		return false
	}
	seen := map[string]bool{}
	for _, m := range n.Members {
		k := ref.Sanitize(m.Key)
		if seen[k] {
			return true
		}
		seen[k] = true
		if sanitizedDup(m.Val) {
			return true
		}
	}
	for _, e := range n.Elems {
		if sanitizedDup(e) {
			return true
		}
	}
	return false
}

// mapCompare feeds the same fields to MapObjectEncoder and compares nesting and values.
func mapCompare(c *gen.Case, line []byte) error {
	v, perr, _ := jsonv.CheckLine(line, c.Cfg.EffLineEnding())
	if perr != nil {
		return nil
	}
	m := zapcore.NewMapObjectEncoder()
	for _, f := range c.AllFields() {
		f.F.AddTo(m)
	}
	exp := ref.FromGo(m.Fields)
	if sanitizedDup(exp) {
		// two different raw keys of one object become the same key once invalid UTF-8 is replaced by
		// U+FFFD: the map keeps both, the JSON text shows a duplicate key - not comparable this way
		return errSkipped
	}
	// the decoded line also has metadata and the stack: compare only the members the map knows
	rp := c.Cfg.Repr()
	rp.Ordered = false
	nMeta := 0
	meta := c.ExpectMeta()
	for _, mm := range meta.Members {
		if nMeta < len(v.Members) && v.Members[nMeta].Key == ref.Sanitize(mm.Key) {
			nMeta++
		}
	}
	got := &jsonv.Value{Kind: jsonv.Obj, Members: v.Members[nMeta:]}
	if c.HasStack() && len(got.Members) > 0 {
		got.Members = got.Members[:len(got.Members)-1]
	}
	return ref.Compare(exp, got, rp, "$map")
}

// Run02 is the C02 monitor.
func Run02(r *ev.Run) {
	r.Rule = "case i = f(seed,i): decodable EncoderConfig (built-in or nil sub-encoders) x entry x With-chain x fields; line decoded by the independent parser and compared member by member, in order, with the generator-carried expected tree; every third case uses unique keys and is also compared with zapcore.MapObjectEncoder; distinct = distinct (config, shape) keys; non-trivial = has at least one field; plus trees of array/object marshalers failing part of the way compared between the JSON line and MapObjectEncoder"
	n := r.N(60000, 4000000)
	parallel(n, func(i int) {
		id := fmt.Sprintf("c02/%d", i)
		if !r.Want(id) {
			return
		}
		unique := i%3 == 0
		g := gen.New(rng.For(r.Seed, "c02", i), gen.Opts{Hostile: i%2 == 0, UniqueKeys: unique, MaxDepth: 4, FaultNum: 1, FaultDen: 10})
		c := g.Case(false)
		r.Eval(1)
		if len(c.AllFields()) > 0 {
			r.Distinct(shape(c))
		}
		for t, k := range c.Tags {
			r.SetAdd("field_kinds", t)
			r.Count("values:"+t, int64(k))
		}
		r.SetAdd("encoder_combinations", fmt.Sprintf("%d/%d/%d/%d/%d", c.Cfg.Level, c.Cfg.Time, c.Cfg.Dur, c.Cfg.Caller, c.Cfg.Name))
		r.SetAdd("with_depth", fmt.Sprint(len(c.Ctx)))
		if i < 3 {
			r.Sample(c.Describe())
		}
		for _, via := range []bool{false, true} {
			var line []byte
			var problem string
			p := ev.Guard(func() { line, problem = Encode(c, via) })
			if p != "" {
				if c.Cfg.Caller == gen.CallerNil && c.Cfg.CallerKey != "" && c.Ent.Caller.Defined {
					return // C01's subject (nil EncodeCaller); not judged twice
				}
				r.Violate(ev.Violation{Case: id, Class: "panic", Msg: "encoder panicked: " + p, Witness: c.Describe()})
				return
			}
			if problem != "" {
				r.Violate(ev.Violation{Case: id, Class: "other", Msg: problem, Witness: c.Describe()})
				return
			}
			err, inc := Judge02(c, line)
			if inc {
				r.Inconclusive(fmt.Sprintf("%s: %v", id, err))
				return
			}
			if err != nil {
				w := c.Describe()
				w["line"] = string(clip(line))
				r.Violate(ev.Violation{Case: id, Class: "value-mismatch", Msg: fmt.Sprintf("decoded line differs from the logged values (viaCore=%v): %v", via, err), Witness: w})
				return
			}
			if unique && c.Faults == 0 && !via {
				r.Count("map_encoder_comparisons", 1)
				if err := mapCompare(c, line); err == errSkipped {
					r.Count("map_encoder_comparisons", -1)
					r.Count("map_encoder_comparisons_skipped_keys_collide_after_utf8_replacement", 1)
				} else if err != nil {
					w := c.Describe()
					w["line"] = string(clip(line))
					r.Violate(ev.Violation{Case: id, Class: "map-encoder-mismatch", Msg: fmt.Sprintf("JSON nesting/values differ from MapObjectEncoder: %v", err), Witness: w})
					return
				}
			}
		}
	})
	nestedFaults(r)
}
