package encjson

import (
	"errors"
	"fmt"
	"reflect"
	"strconv"

	"go.uber.org/zap"
	"go.uber.org/zap/verif/internal/ev"
	"go.uber.org/zap/verif/internal/jsonv"
	"go.uber.org/zap/verif/internal/rng"
	"go.uber.org/zap/zapcore"
)

// Trees of user marshalers that stop with an error part of the way (round 8).  C02: "Namespaces,
// objects, arrays, inlined and dict fields produce the corresponding nesting, identical to what the
// in-memory map encoder records for the same fields" - that includes what a marshaler had added before
// it failed, at whatever depth: both encoders keep it, and both get the '<key>Error' field.
type fnode struct {
	id      int
	arr     bool
	leaf    bool
	v       int64
	kids    []*fnode
	failAt  int  // index of the child before which the marshaler gives up (-1: never)
	swallow bool // carries on when a child marshaler reports an error
}

func (n *fnode) MarshalLogArray(enc zapcore.ArrayEncoder) error {
	for i, k := range n.kids {
		if i == n.failAt {
			return fmt.Errorf("stop-%d", n.id)
		}
		var err error
		switch {
		case k.leaf:
			enc.AppendInt64(k.v)
		case k.arr:
			err = enc.AppendArray(k)
		default:
			err = enc.AppendObject(k)
		}
		if err != nil && !n.swallow {
			return err
		}
	}
	if n.failAt == len(n.kids) {
		return errors.New("stop-at-end-" + strconv.Itoa(n.id))
	}
	return nil
}

func (n *fnode) MarshalLogObject(enc zapcore.ObjectEncoder) error {
	for i, k := range n.kids {
		if i == n.failAt {
			return fmt.Errorf("stop-%d", n.id)
		}
		key := "k" + strconv.Itoa(i)
		var err error
		switch {
		case k.leaf:
			enc.AddInt64(key, k.v)
		case k.arr:
			err = enc.AddArray(key, k)
		default:
			err = enc.AddObject(key, k)
		}
		if err != nil && !n.swallow {
			return err
		}
	}
	if n.failAt == len(n.kids) {
		return errors.New("stop-at-end-" + strconv.Itoa(n.id))
	}
	return nil
}

func genFnode(g *rng.R, depth int, next *int) *fnode {
	*next++
	n := &fnode{id: *next, failAt: -1}
	if depth == 0 || g.P(2, 5) {
		n.leaf, n.v = true, int64(g.Intn(1000))-500
		return n
	}
	n.arr = g.P(1, 2)
	nk := g.Intn(4)
	for i := 0; i < nk; i++ {
		n.kids = append(n.kids, genFnode(g, depth-1, next))
	}
	if g.P(1, 3) {
		n.failAt = g.Intn(nk + 1)
	}
	n.swallow = g.P(1, 3)
	return n
}

func (n *fnode) describe() string {
	if n.leaf {
		return fmt.Sprint(n.v)
	}
	s := "{"
	if n.arr {
		s = "["
	}
	for i, k := range n.kids {
		if i == n.failAt {
			s += "<FAIL>"
		}
		if i > 0 {
			s += ","
		}
		s += k.describe()
	}
	if n.failAt == len(n.kids) {
		s += "<FAIL>"
	}
	if n.swallow {
		s += "~"
	}
	if n.arr {
		return s + "]"
	}
	return s + "}"
}

func normJSON(v *jsonv.Value) any {
	switch v.Kind {
	case jsonv.Obj:
		m := map[string]any{}
		for _, mm := range v.Members {
			m[mm.Key] = normJSON(mm.Val)
		}
		return m
	case jsonv.Arr:
		a := []any{}
		for _, e := range v.Elems {
			a = append(a, normJSON(e))
		}
		return a
	case jsonv.Num:
		return v.Num
	case jsonv.Str:
		return "s:" + v.Str
	}
	return v.Kind.String()
}

func normGo(x any) any {
	switch t := x.(type) {
	case map[string]interface{}:
		m := map[string]any{}
		for k, v := range t {
			m[k] = normGo(v)
		}
		return m
	case []interface{}:
		a := []any{}
		for _, e := range t {
			a = append(a, normGo(e))
		}
		return a
	case int64:
		return strconv.FormatInt(t, 10)
	case string:
		return "s:" + t
	}
	return fmt.Sprintf("%T", x)
}

var nestedCfg = zapcore.EncoderConfig{MessageKey: "msg"}

func nestedFaults(r *ev.Run) {
	n := r.N(6000, 300000)
	for i := 0; i < n; i++ {
		id := fmt.Sprintf("c02/nested-fault/%d", i)
		if !r.Want(id) {
			continue
		}
		g := rng.For(r.Seed, "c02/nested-fault", i)
		next := 0
		var fields []zapcore.Field
		desc := ""
		for k := 0; k < 1+g.Intn(2); k++ {
			root := genFnode(g, 3, &next)
			for root.leaf {
				root = genFnode(g, 3, &next)
			}
			key := "f" + strconv.Itoa(k)
			if root.arr {
				fields = append(fields, zap.Array(key, root))
			} else if g.P(1, 4) {
				fields = append(fields, zap.Inline(root))
				key = "inline"
			} else {
				fields = append(fields, zap.Object(key, root))
			}
			desc += key + "=" + root.describe() + " "
		}
		r.Eval(1)
		r.Distinct("nested-fault|" + desc)
		r.Count("marshaler_trees_with_failures_compared_with_the_map_encoder", 1)
		enc := zapcore.NewJSONEncoder(nestedCfg)
		var line []byte
		if p := ev.Guard(func() {
			buf, err := enc.EncodeEntry(zapcore.Entry{Message: "m"}, fields)
			if err == nil {
				line = append([]byte(nil), buf.Bytes()...)
				buf.Free()
			}
		}); p != "" || line == nil {
			r.Violate(ev.Violation{Case: id, Class: "panic", Msg: "encoding a tree of failing marshalers panicked or failed: " + p, Witness: desc})
			continue
		}
		v, perr, _ := jsonv.CheckLine(line, "\n")
		if perr != nil {
			r.Violate(ev.Violation{Case: id, Class: "value-mismatch", Msg: fmt.Sprintf("line with failing marshalers is not valid JSON: %v; line=%q", perr, clip(line)), Witness: desc})
			continue
		}
		m := zapcore.NewMapObjectEncoder()
		for _, f := range fields {
			f.AddTo(m)
		}
		got := normJSON(v).(map[string]any)
		delete(got, "msg")
		want := normGo(m.Fields)
		if !reflect.DeepEqual(got, want) {
			r.Violate(ev.Violation{Case: id, Class: "map-encoder-mismatch", Msg: fmt.Sprintf("marshalers that fail part of the way: the JSON line and MapObjectEncoder disagree about what was added before the failure: fields %s; line=%q; map encoder recorded %v", desc, clip(line), m.Fields), Witness: desc})
		}
	}
}
