// Package c18 monitors C18: the slog handler reproduces slog's attribute and
// group semantics.
package c18

import (
	"context"
	"errors"
	"fmt"
	"go.uber.org/zap"
	"go.uber.org/zap/zaptest/observer"
	"log/slog"
	"strings"
	"time"

	"go.uber.org/zap/exp/zapslog"
	"go.uber.org/zap/verif/internal/ev"
	"go.uber.org/zap/verif/internal/gen"
	"go.uber.org/zap/verif/internal/jsonv"
	"go.uber.org/zap/verif/internal/rec"
	"go.uber.org/zap/verif/internal/ref"
	"go.uber.org/zap/verif/internal/rng"
	"go.uber.org/zap/zapcore"
)

// mAttr is the model of one generated attribute.
type mAttr struct {
	attr slog.Attr
	desc string
	// kind: "typed" (one member), "empty" (Attr{}), "group", "valuer" (resolves to inner)
	kind  string
	key   string
	val   *ref.Node
	kids  []mAttr
	inner *mAttr
}

type valuer struct{ v slog.Value }

func (v valuer) LogValue() slog.Value { return v.v }

type pt struct {
	X int
	Y string
}

type state struct {
	g         *gen.G
	effEmpty  bool // the case contains an effectively-empty group (don't-care zone)
	features  map[string]bool
	keyN      int
	uniqueKey bool
}

func (s *state) key() string {
	s.keyN++
	if s.uniqueKey {
		return fmt.Sprintf("k%d", s.keyN)
	}
	return rng.Pick(s.g.R, []string{"k", "a", "b", "id", "msg", "level", "g", "x y", "é", fmt.Sprintf("k%d", s.keyN)})
}

func (s *state) typed(key string) mAttr {
	g := s.g
	switch g.R.Intn(13) {
	case 0:
		v := g.R.Bool()
		return mAttr{attr: slog.Bool(key, v), kind: "typed", key: key, val: ref.Bool(v), desc: fmt.Sprintf("Bool(%q,%v)", key, v)}
	case 1:
		v := g.Duration()
		return mAttr{attr: slog.Duration(key, v), kind: "typed", key: key, val: ref.Dur(v), desc: fmt.Sprintf("Duration(%q,%d)", key, v)}
	case 2:
		v := g.Float64()
		return mAttr{attr: slog.Float64(key, v), kind: "typed", key: key, val: ref.F64(v), desc: fmt.Sprintf("Float64(%q,%v)", key, v)}
	case 3:
		v := g.Int64(64)
		return mAttr{attr: slog.Int64(key, v), kind: "typed", key: key, val: ref.Int(v), desc: fmt.Sprintf("Int64(%q,%d)", key, v)}
	case 4:
		v := g.Str()
		return mAttr{attr: slog.String(key, v), kind: "typed", key: key, val: ref.Str(v), desc: fmt.Sprintf("String(%q,%q)", key, v)}
	case 5:
		v := g.SaneTime()
		// slog.Time strips the monotonic clock only; the instant and location must survive
		return mAttr{attr: slog.Time(key, v), kind: "typed", key: key, val: ref.Time(v), desc: fmt.Sprintf("Time(%q)", key)}
	case 6:
		v := g.Uint64(64)
		return mAttr{attr: slog.Uint64(key, v), kind: "typed", key: key, val: ref.Uint(v), desc: fmt.Sprintf("Uint64(%q,%d)", key, v)}
	case 7:
		e := errors.New(g.Str())
		return mAttr{attr: slog.Any(key, e), kind: "typed", key: key, val: ref.Str(e.Error()), desc: fmt.Sprintf("Any(%q,error)", key)}
	case 8:
		v := pt{int(g.Int64(16)), g.Str()}
		raw := []byte(fmt.Sprintf(`{"X":%d,"Y":%s}`, v.X, jsonString(v.Y)))
		return mAttr{attr: slog.Any(key, v), kind: "typed", key: key, val: ref.Raw(raw), desc: fmt.Sprintf("Any(%q,struct)", key)}
	case 9:
		return mAttr{attr: slog.Any(key, nil), kind: "typed", key: key, val: ref.Null(), desc: fmt.Sprintf("Any(%q,nil)", key)}
	case 10:
		vs := []string{g.Str(), "x"}
		return mAttr{attr: slog.Any(key, vs), kind: "typed", key: key, val: ref.Arr(ref.Str(vs[0]), ref.Str("x")), desc: fmt.Sprintf("Any(%q,[]string)", key)}
	case 11:
		v := int(g.Int64(32))
		return mAttr{attr: slog.Int(key, v), kind: "typed", key: key, val: ref.Int(int64(v)), desc: fmt.Sprintf("Int(%q,%d)", key, v)}
	default:
		v := int32(g.Int64(32))
		return mAttr{attr: slog.Any(key, v), kind: "typed", key: key, val: ref.Int(int64(v)), desc: fmt.Sprintf("Any(%q,int32 %d)", key, v)}
	}
}

func jsonString(s string) string {
	var b strings.Builder
	b.WriteByte('"')
	for _, r := range ref.Sanitize(s) {
		switch {
		case r == '"' || r == '\\':
			b.WriteByte('\\')
			b.WriteRune(r)
		case r < 0x20:
			fmt.Fprintf(&b, `\u%04x`, r)
		default:
			b.WriteRune(r)
		}
	}
	b.WriteByte('"')
	return b.String()
}

func (s *state) attr(depth int) mAttr {
	g := s.g
	k := g.R.Intn(12)
	if depth <= 0 && k >= 7 && k <= 9 {
		k = 0
	}
	switch k {
	case 6:
		s.features["empty-attr"] = true
		return mAttr{attr: slog.Attr{}, kind: "empty", desc: "Attr{}"}
	case 7, 8: // named or inline group
		key := s.key()
		if g.R.P(1, 3) {
			key = ""
			s.features["inline-group"] = true
		} else {
			s.features["named-group"] = true
		}
		n := g.R.Intn(4)
		if g.R.P(1, 5) {
			n = 0
		}
		var kids []mAttr
		var as []any
		for i := 0; i < n; i++ {
			c := s.attr(depth - 1)
			kids = append(kids, c)
			as = append(as, c.attr)
		}
		if n == 0 {
			s.features["empty-group"] = true
		}
		return mAttr{attr: slog.Group(key, as...), kind: "group", key: key, kids: kids, desc: fmt.Sprintf("Group(%q,%s)", key, descs(kids))}
	case 9: // LogValuer resolving to anything
		inner := s.attr(depth - 1)
		for inner.kind == "empty" {
			inner = s.attr(depth - 1)
		}
		s.features["logvaluer->"+inner.kind] = true
		key := inner.key
		if inner.kind == "group" && len(inner.kids) == 0 {
			s.features["logvaluer->empty-group"] = true
		}
		a := slog.Attr{Key: key, Value: slog.AnyValue(valuer{inner.attr.Value})}
		if g.R.P(1, 4) { // valuer of valuer
			a = slog.Attr{Key: key, Value: slog.AnyValue(valuer{a.Value})}
		}
		return mAttr{attr: a, kind: "valuer", key: key, inner: &inner, desc: "LogValuer(" + inner.desc + ")"}
	}
	return s.typed(s.key())
}

func descs(as []mAttr) string {
	var ds []string
	for _, a := range as {
		ds = append(ds, a.desc)
	}
	return strings.Join(ds, ", ")
}

// members is the reference resolution of one attribute (slog.Handler contract).
func (s *state) members(a mAttr) []ref.Member {
	switch a.kind {
	case "empty":
		return nil
	case "valuer":
		return s.members(*a.inner)
	case "group":
		if len(a.kids) == 0 {
			return nil // a group with no Attrs is ignored
		}
		var ms []ref.Member
		for _, k := range a.kids {
			ms = append(ms, s.members(k)...)
		}
		if len(ms) == 0 {
			s.effEmpty = true // has Attrs, all of them ignorable: {} or omitted, not fixed by the contract
			return nil
		}
		if a.key == "" {
			return ms // inline
		}
		o := ref.Obj()
		o.Members = ms
		return []ref.Member{{Key: a.key, Val: o}}
	}
	return []ref.Member{{Key: a.key, Val: a.val}}
}

// op is one derivation step.
type op struct {
	group string // WithGroup(name) when attrs == nil && isGroup
	isG   bool
	attrs []mAttr
}

type hnode struct {
	id     int
	ops    []op
	h      slog.Handler
	parent int
	how    string
}

// expected builds the expected object for a handler path plus a record's attributes.
func (s *state) expected(ops []op, recAttrs []mAttr) *ref.Node {
	root := ref.Obj()
	cur := root
	var pending []string
	apply := func(as []mAttr) {
		var ms []ref.Member
		for _, a := range as {
			ms = append(ms, s.members(a)...)
		}
		if len(ms) == 0 {
			return
		}
		for _, gname := range pending {
			o := ref.Obj()
			cur.Members = append(cur.Members, ref.Member{Key: gname, Val: o})
			cur = o
		}
		pending = nil
		cur.Members = append(cur.Members, ms...)
	}
	for _, o := range ops {
		if o.isG {
			if o.group != "" {
				pending = append(pending, o.group)
			}
			continue
		}
		apply(o.attrs)
	}
	apply(recAttrs)
	return root
}

var encCfg = zapcore.EncoderConfig{MessageKey: "msg", LevelKey: "level", TimeKey: "ts", NameKey: "logger", EncodeLevel: zapcore.LowercaseLevelEncoder,
	EncodeTime: zapcore.EpochNanosTimeEncoder, EncodeDuration: zapcore.NanosDurationEncoder}

var repr = ref.Repr{Time: ref.TEpochNanos, Dur: ref.DNanos, Ordered: true}

func mapLevel(l slog.Level) zapcore.Level {
	switch {
	case l >= 8:
		return zapcore.ErrorLevel
	case l >= 4:
		return zapcore.WarnLevel
	case l >= 0:
		return zapcore.InfoLevel
	}
	return zapcore.DebugLevel
}

// sameKeys compares where things sit: the keys present at every object level of the expected tree
// and of a context map (values are not compared; optional members may be absent).
func sameKeys(exp *ref.Node, got map[string]interface{}, path string) string {
	want := map[string]*ref.Node{}
	optional := map[string]bool{}
	for _, m := range exp.Members {
		k := ref.Sanitize(m.Key)
		want[k] = m.Val
		if m.Optional {
			optional[k] = true
		}
	}
	have := map[string]interface{}{}
	for k, v := range got {
		have[ref.Sanitize(k)] = v
	}
	for k := range have {
		if _, ok := want[k]; !ok {
			return fmt.Sprintf("%s: unexpected key %q", path, k)
		}
	}
	for k, n := range want {
		g, ok := have[k]
		if !ok {
			if optional[k] {
				continue
			}
			return fmt.Sprintf("%s: key %q is missing", path, k)
		}
		if n != nil && n.Kind == ref.KObj {
			gm, isMap := g.(map[string]interface{})
			if !isMap {
				return fmt.Sprintf("%s.%s: want a group, got %T", path, k, g)
			}
			if m := sameKeys(n, gm, path+"."+k); m != "" {
				return m
			}
		}
	}
	return ""
}

func runProgram(r *ev.Run, id string, i int) {
	g := gen.New(rng.For(r.Seed, "c18", i), gen.Opts{Hostile: i%5 == 0})
	st := &state{g: g, features: map[string]bool{}, uniqueKey: i%2 == 0}
	rr := g.R
	sink := &rec.Sink{}
	threshold := zapcore.Level(rr.Intn(5) - 1) // debug..error, or warn etc.
	// the core's enabler: a static threshold, an AtomicLevel that moves between uses of the
	// handlers, or a non-monotone set of levels (debug..error)
	coreOn := func(l zapcore.Level) bool { return l >= threshold }
	var coreEn zapcore.LevelEnabler = threshold
	var atom *zap.AtomicLevel
	enDesc := "static"
	switch rr.Intn(4) {
	case 0:
		al := zap.NewAtomicLevelAt(threshold)
		atom, coreEn, enDesc = &al, al, "atomic"
	case 1:
		var set [4]bool
		for x := range set {
			set[x] = rr.Bool()
		}
		coreOn = func(l zapcore.Level) bool { return l >= zapcore.DebugLevel && l <= zapcore.ErrorLevel && set[l+1] }
		coreEn = zap.LevelEnablerFunc(coreOn)
		enDesc = fmt.Sprintf("set%v", set)
	}
	r.SetAdd("core_enabler_kinds", enDesc[:3])
	// a quarter of the programs can switch every destination off for the duration of a derivation: what
	// a handler is derived with does not depend on what happens to be enabled at that moment
	off := false
	canSwitch := rr.P(1, 4)
	if canSwitch {
		inner := coreEn
		coreEn = zap.LevelEnablerFunc(func(l zapcore.Level) bool { return !off && inner.Enabled(l) })
		enDesc += "+switch"
	}
	// the duration encoder rotates over the four stock ones (round 8): a typed duration attribute is
	// recoverable from each of them
	encCfg, repr := encCfg, repr
	switch i % 4 {
	case 1:
		encCfg.EncodeDuration, repr.Dur = zapcore.MillisDurationEncoder, ref.DMillis
	case 2:
		encCfg.EncodeDuration, repr.Dur = zapcore.SecondsDurationEncoder, ref.DSeconds
	case 3:
		encCfg.EncodeDuration, repr.Dur = zapcore.StringDurationEncoder, ref.DString
	}
	r.SetAdd("duration_encoders", fmt.Sprint(i%4))
	core := zapcore.NewCore(zapcore.NewJSONEncoder(encCfg), sink, coreEn)
	// every second program also feeds a console core (message column only): its context object must be
	// the same tree
	var sinkC *rec.Sink
	if i%2 == 1 {
		sinkC = &rec.Sink{}
		core = zapcore.NewTee(core, zapcore.NewCore(zapcore.NewConsoleEncoder(zapcore.EncoderConfig{MessageKey: "msg", EncodeTime: zapcore.EpochNanosTimeEncoder, EncodeDuration: encCfg.EncodeDuration}), sinkC, coreEn))
		r.Count("programs_with_console_core", 1)
	}
	// every third program also feeds an observer core (zaptest/observer, whose context map is built by
	// zapcore.MapObjectEncoder): attributes must sit under the same groups there
	var obsLogs *observer.ObservedLogs
	if i%3 == 0 {
		var oc zapcore.Core
		oc, obsLogs = observer.New(coreEn)
		core = zapcore.NewTee(core, oc)
		r.Count("programs_with_observer_core", 1)
	}
	if (sinkC != nil || obsLogs != nil) && rr.P(1, 2) {
		// the destinations sit behind an increase-level core (same enabler: it narrows nothing)
		if ic, err := zapcore.NewIncreaseLevelCore(core, coreEn); err == nil {
			core = ic
			r.Count("programs_over_increase_level(tee)", 1)
		}
	}
	name := rng.Pick(rr, []string{"", "svc", "a.b"})
	root := &hnode{id: 0, h: zapslog.NewHandler(core, zapslog.WithName(name), zapslog.AddStacktraceAt(slog.Level(100))), parent: -1, how: "root"}
	nodes := []*hnode{root}
	var trace []string
	violated := false
	fail := func(class, f string, a ...any) {
		if violated {
			return
		}
		violated = true
		if st.effEmpty && (class == "slog-tree") {
			r.Count("effectively_empty_dont_care_cases", 1)
			return
		}
		tr := trace
		if len(tr) > 30 {
			tr = tr[len(tr)-30:]
		}
		r.Violate(ev.Violation{Case: id, Class: class, Msg: fmt.Sprintf(f, a...), Witness: map[string]any{"steps": tr}})
	}
	derive := func() {
		if canSwitch && rr.P(1, 3) {
			off = true
			defer func() { off = false }()
			r.Count("derivations_while_every_destination_is_switched_off", 1)
		}
		par := nodes[rr.Intn(len(nodes))]
		n := &hnode{id: len(nodes), ops: append([]op(nil), par.ops...), parent: par.id}
		if rr.P(1, 2) {
			gname := rng.Pick(rr, []string{"g", "h", "grp", "", "a b", fmt.Sprintf("g%d", n.id)})
			if gname == "" {
				st.features["WithGroup(\"\")"] = true
			}
			n.ops = append(n.ops, op{isG: true, group: gname})
			n.how = fmt.Sprintf("WithGroup(%q)", gname)
			n.h = par.h.WithGroup(gname)
		} else {
			var as []mAttr
			var sa []slog.Attr
			for k := rr.Intn(4); k >= 0; k-- {
				a := st.attr(3)
				as = append(as, a)
				sa = append(sa, a.attr)
			}
			if rr.P(1, 10) {
				as, sa = nil, nil
			}
			for _, a := range as {
				if a.kind == "group" && len(a.kids) == 0 {
					st.features["empty-group-via-WithAttrs"] = true
				}
			}
			n.ops = append(n.ops, op{attrs: as})
			n.how = "WithAttrs(" + descs(as) + ")"
			n.h = par.h.WithAttrs(sa)
		}
		trace = append(trace, fmt.Sprintf("h%d = h%d.%s", n.id, par.id, n.how))
		nodes = append(nodes, n)
	}
	use := func(n *hnode) {
		var as []mAttr
		var sa []slog.Attr
		for k := rr.Intn(4); k > 0; k-- {
			a := st.attr(3)
			as = append(as, a)
			sa = append(sa, a.attr)
		}
		lvl := slog.Level(rr.Intn(41) - 20)
		if rr.P(1, 8) {
			// "all slog level values": far outside the named range, around powers of two where a
			// narrowing conversion would wrap
			lvl = rng.Pick(rr, []slog.Level{-1 << 63, -1 << 40, -1 << 31, -65536, -1025, -1024, -516, -513, -512, -129, -128, 127, 128, 508, 511, 512, 516, 1020, 1024, 32767, 65536, 1 << 31, 1 << 40, 1<<63 - 1})
		}
		msg := fmt.Sprintf("m%d-%d", i, len(trace))
		t := g.SaneTime()
		if rr.P(1, 8) {
			t = time.Time{}
		}
		viaLogger := rr.P(1, 4)
		trace = append(trace, fmt.Sprintf("h%d.Handle(level=%d, %q, %s) viaLogger=%v", n.id, lvl, msg, descs(as), viaLogger))
		sink.Reset()
		if sinkC != nil {
			sinkC.Reset()
		}
		if obsLogs != nil {
			obsLogs.TakeAll()
		}
		if atom != nil && rr.P(1, 3) {
			threshold = zapcore.Level(rr.Intn(5) - 1)
			atom.SetLevel(threshold) // handlers built earlier must follow
		}
		zl := mapLevel(lvl)
		wantHandled := coreOn(zl)
		r.SetAdd("slog_levels", fmt.Sprint(int(lvl)))
		// the record keeps only what slog's own Record.AddAttrs keeps (it drops empty groups)
		var kept []mAttr
		for _, a := range as {
			if a.kind == "group" && len(a.kids) == 0 {
				continue
			}
			kept = append(kept, a)
		}
		var enabled bool
		// the context a record arrives with is not a reason to treat it differently: one record in
		// four comes with a context that is already cancelled or past its deadline
		hctx, hcancel := context.Background(), func() {}
		switch g.R.Intn(8) {
		case 0:
			hctx, hcancel = context.WithCancel(context.Background())
			hcancel()
			r.Count("records_with_cancelled_context", 1)
		case 1:
			hctx, hcancel = context.WithDeadline(context.Background(), time.Unix(1, 0))
			r.Count("records_with_expired_context", 1)
		}
		defer hcancel()
		pn := ev.Guard(func() {
			enabled = n.h.Enabled(hctx, lvl)
			if viaLogger {
				args := make([]any, len(sa))
				for k := range sa {
					args[k] = sa[k]
				}
				slog.New(n.h).Log(hctx, lvl, msg, args...)
			} else {
				rc := slog.NewRecord(t, lvl, msg, 0)
				rc.AddAttrs(sa...)
				if err := n.h.Handle(hctx, rc); err != nil {
					panic("Handle returned " + err.Error())
				}
			}
		})
		if pn != "" {
			fail("slog-panic", "h%d: handler panicked: %s", n.id, pn)
			return
		}
		r.Count("records_judged", 1)
		if enabled != wantHandled {
			fail("slog-enabled", "h%d: Enabled(%d) = %v but the core (enabler %s, threshold %v) enables the mapped level %v = %v", n.id, lvl, enabled, enDesc, threshold, zl, wantHandled)
			return
		}
		ws := sink.Writes()
		if !wantHandled {
			if len(ws) != 0 {
				fail("slog-handled-disabled", "h%d: a record at slog level %d (zap %v) was written although the core's threshold is %v", n.id, lvl, zl, threshold)
			}
			return
		}
		if len(ws) != 1 {
			if viaLogger || len(ws) != 0 {
				fail("slog-lost", "h%d: record produced %d lines", n.id, len(ws))
			} else {
				fail("slog-lost", "h%d: Handle for an enabled level wrote nothing", n.id)
			}
			return
		}
		v, err, _ := jsonv.CheckLine(ws[0], "\n")
		if err != nil {
			fail("slog-invalid", "h%d: invalid JSON line: %v: %s", n.id, err, ws[0])
			return
		}
		exp := ref.Obj()
		exp.Members = append(exp.Members, ref.Member{Key: "level", Val: ref.Str(gen.LevelName(zl))})
		if viaLogger {
			exp.Members = append(exp.Members, ref.Member{Key: "ts", Val: ref.Any()})
		} else if !t.IsZero() {
			exp.Members = append(exp.Members, ref.Member{Key: "ts", Val: ref.Time(t)})
		}
		if name != "" {
			exp.Members = append(exp.Members, ref.Member{Key: "logger", Val: ref.Str(name)})
		}
		exp.Members = append(exp.Members, ref.Member{Key: "msg", Val: ref.Str(msg)})
		body := st.expected(n.ops, kept)
		exp.Members = append(exp.Members, body.Members...)
		if err := ref.Compare(exp, v, repr, "$"); err != nil {
			fail("slog-tree", "h%d (%s): entry differs from the slog contract's tree: %v; line=%s", n.id, n.how, err, ws[0])
			return
		}
		if obsLogs != nil {
			es := obsLogs.TakeAll()
			if len(es) != 1 {
				fail("slog-lost", "h%d: the observer core received %d entries for one record", n.id, len(es))
				return
			}
			if m := sameKeys(body, es[0].ContextMap(), "$observer"); m != "" {
				fail("slog-tree", "h%d (%s): in the observer core's context map the attributes do not sit under the groups of the slog contract's tree: %s; JSON line=%s", n.id, n.how, m, ws[0])
				return
			}
			r.Count("observer_context_maps_compared", 1)
		}
		if sinkC != nil {
			cs := sinkC.Writes()
			if len(cs) != 1 {
				fail("slog-lost", "h%d: the console core received %d lines for one record", n.id, len(cs))
				return
			}
			line := string(cs[0])
			if !strings.HasPrefix(line, msg) || !strings.HasSuffix(line, "\n") {
				fail("slog-tree", "h%d: console line %q does not start with the message", n.id, cs[0])
				return
			}
			rest := strings.TrimSuffix(line[len(msg):], "\n")
			if rest == "" {
				rest = "\t{}"
			}
			cv, perr := jsonv.Parse([]byte(strings.TrimPrefix(rest, "\t")))
			if perr != nil {
				fail("slog-invalid", "h%d (%s): the console line's context is not valid JSON: %v: %q", n.id, n.how, perr, cs[0])
				return
			}
			if err := ref.Compare(body, cv, repr, "$console"); err != nil {
				fail("slog-tree", "h%d (%s): the console core's context differs from the slog contract's tree: %v; line=%q", n.id, n.how, err, cs[0])
			}
			r.Count("console_contexts_compared", 1)
		}
	}
	steps := rr.Range(4, 30)
	for s := 0; s < steps && !violated; s++ {
		if len(nodes) < 2 || rr.P(2, 5) {
			derive()
		} else {
			use(nodes[rr.Intn(len(nodes))])
		}
	}
	for _, k := range rr.Perm(len(nodes)) {
		if violated {
			break
		}
		use(nodes[k])
	}
	for f := range st.features {
		r.SetAdd("features", f)
	}
	if st.effEmpty {
		r.Count("programs_with_effectively_empty_group", 1)
	}
	r.Distinct(fmt.Sprintf("p|%d|%d", i, len(nodes)))
	if i < 2 {
		tr := trace
		if len(tr) > 15 {
			tr = tr[:15]
		}
		r.Sample(map[string]any{"threshold": threshold.String(), "steps": tr})
	}
}

// Run is the C18 monitor.
func Run(r *ev.Run) {
	r.Rule = "case i = f(seed,i): a handler derivation tree over WithGroup (incl. empty names) / WithAttrs, records with attribute trees to depth 3 mixing typed kinds, named, inline and empty groups, empty attrs and LogValuers resolving to any of those, slog levels -20..20, through Handle directly and through slog.Logger; each emitted JSON entry is compared with a reference model of the slog.Handler contract for that handler's own path; Enabled and handled-iff-enabled judged against the core's threshold; handlers are used in random order and all again at the end (isolation); distinct = distinct programs"
	n := r.N(25000, 1200000)
	for i := 0; i < n; i++ {
		id := fmt.Sprintf("c18/%d", i)
		if !r.Want(id) {
			continue
		}
		r.Eval(1)
		runProgram(r, id, i)
	}
	valuerReuse(r)
}

// ---- a LogValuer inside a group that is used again and again -------------------------------------

type countingValuer struct{ n *int }

func (c countingValuer) LogValue() slog.Value { *c.n++; return slog.IntValue(*c.n) }

// valuerReuse: one group attribute holding a LogValuer is handed to several records and to
// WithAttrs of sibling handlers while the valuer's result changes. Every use must resolve it
// afresh, and the caller's attribute must still hold the LogValuer afterwards (a handler must not
// write resolved values back into the caller's attributes).
func valuerReuse(r *ev.Run) {
	n := r.N(300, 20000)
	for i := 0; i < n; i++ {
		id := fmt.Sprintf("c18/valuer-reuse/%d", i)
		if !r.Want(id) {
			continue
		}
		g := rng.For(r.Seed, "c18/valuer", i)
		sink := &rec.Sink{}
		core := zapcore.NewCore(zapcore.NewJSONEncoder(zapcore.EncoderConfig{MessageKey: "msg"}), sink, zapcore.DebugLevel)
		root := zapslog.NewHandler(core)
		cnt := 0
		inner := []slog.Attr{slog.Any("cv", countingValuer{&cnt}), slog.Int("x", 1)}
		var grp slog.Attr
		nested := g.Bool()
		if nested {
			grp = slog.Group("outer", slog.Attr{Key: "g", Value: slog.GroupValue(inner...)})
		} else {
			grp = slog.Attr{Key: "g", Value: slog.GroupValue(inner...)}
		}
		uses := g.Range(2, 6)
		var got []int
		bad := ""
		for u := 0; u < uses && bad == ""; u++ {
			sink.Reset()
			var h slog.Handler = root
			if g.P(1, 3) {
				h = root.WithGroup(fmt.Sprintf("wg%d", u))
			}
			if g.Bool() {
				// through WithAttrs of a sibling handler: resolved when the handler is derived
				h = h.WithAttrs([]slog.Attr{grp})
				_ = h.Handle(context.Background(), slog.NewRecord(time.Time{}, slog.LevelInfo, "m", 0))
			} else {
				rc := slog.NewRecord(time.Time{}, slog.LevelInfo, "m", 0)
				rc.AddAttrs(grp)
				_ = h.Handle(context.Background(), rc)
			}
			line := string(sink.All())
			k := strings.Index(line, `"cv":`)
			if k < 0 {
				bad = fmt.Sprintf("use %d: the entry lacks the resolved LogValuer: %q", u, line)
				break
			}
			v := 0
			fmt.Sscanf(line[k+5:], "%d", &v)
			got = append(got, v)
			if len(got) > 1 && v <= got[len(got)-2] {
				bad = fmt.Sprintf("use %d emitted value %d after %v: the LogValuer inside the group was not resolved afresh (a stale resolved value is reused)", u, v, got[:len(got)-1])
			}
		}
		r.Eval(1)
		r.Distinct(fmt.Sprintf("valuer|%d|%d|%v", i, uses, nested))
		r.Count("valuer_reuse_cases", 1)
		if bad == "" && inner[0].Value.Kind() != slog.KindLogValuer {
			bad = "after handling, the caller's group attribute no longer holds the LogValuer: the handler wrote the resolved value back into the caller's attributes"
		}
		if bad != "" {
			r.Violate(ev.Violation{Case: id, Class: "slog-valuer-reuse", Msg: bad, Witness: map[string]any{"values_emitted": got, "nested": nested}})
		}
	}
}
