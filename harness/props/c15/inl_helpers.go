package c15

import (
	"log/slog"
	"runtime"
)

// Small logging helpers of the kind applications write: cheap enough for the compiler to inline into
// their callers. The call site slog records is still the line inside the helper. Every helper is
// followed, on the next line, by a function that reports the helper's line number.

func inlNote(l *slog.Logger, msg string) { l.Info(msg) }
func lineOfInlNote() int                 { _, _, ln, _ := runtime.Caller(0); return ln - 1 }

func inlWarn(l *slog.Logger, msg string, err error) { l.Warn(msg, "error", err) }
func lineOfInlWarn() int                            { _, _, ln, _ := runtime.Caller(0); return ln - 1 }

type inlService struct{ log *slog.Logger }

func (s *inlService) started(msg string) { s.log.Debug(msg) }
func lineOfInlStarted() int              { _, _, ln, _ := runtime.Caller(0); return ln - 1 }
