// Package c15 monitors C15: caller and stack annotations identify the user's
// call site. The Go runtime's own call stack is the ground truth.
package c15

import (
	"errors"
	"context"
	"fmt"
	"log"
	"log/slog"
	"reflect"
	"runtime"
	"sort"
	"strings"
	"sync"
	"time"

	"go.uber.org/zap"
	"go.uber.org/zap/exp/zapslog"
	"go.uber.org/zap/verif/internal/ev"
	"go.uber.org/zap/verif/internal/rng"
	"go.uber.org/zap/zapcore"
	"go.uber.org/zap/zaptest/observer"
)

var lastMark []uintptr

// mark records the call stack of ITS caller; used as an argument expression on the
// same source line as the logging call, so frame 0 is that very line.
//
//go:noinline
func mark(msg string) string {
	pcs := make([]uintptr, 8192)
	n := runtime.Callers(2, pcs)
	lastMark = pcs[:n]
	return msg
}

type frame struct {
	Func, File string
	Line       int
}

func truth() []frame {
	var out []frame
	fs := runtime.CallersFrames(lastMark)
	for {
		f, more := fs.Next()
		out = append(out, frame{f.Function, f.File, f.Line})
		if !more {
			break
		}
	}
	return out
}

type noopHook struct{}

func (noopHook) OnWrite(*zapcore.CheckedEntry, []zapcore.Field) {}

// ---- front ends: every logging call sits on one line together with mark() ----------

type fe struct {
	name  string
	level zapcore.Level // level the method logs at (for Log-style: chosen by the caller)
	any   bool          // takes the level as an argument
	call  func(l *zap.Logger, lvl zapcore.Level, m string)
}

func loggerFEs() []fe {
	return []fe{
		{"Logger.Debug", zapcore.DebugLevel, false, func(l *zap.Logger, _ zapcore.Level, m string) { l.Debug(mark(m)) }},
		{"Logger.Info", zapcore.InfoLevel, false, func(l *zap.Logger, _ zapcore.Level, m string) { l.Info(mark(m)) }},
		{"Logger.Warn", zapcore.WarnLevel, false, func(l *zap.Logger, _ zapcore.Level, m string) { l.Warn(mark(m)) }},
		{"Logger.Error", zapcore.ErrorLevel, false, func(l *zap.Logger, _ zapcore.Level, m string) { l.Error(mark(m)) }},
		{"Logger.DPanic", zapcore.DPanicLevel, false, func(l *zap.Logger, _ zapcore.Level, m string) { l.DPanic(mark(m)) }},
		{"Logger.Panic", zapcore.PanicLevel, false, func(l *zap.Logger, _ zapcore.Level, m string) { l.Panic(mark(m)) }},
		{"Logger.Fatal", zapcore.FatalLevel, false, func(l *zap.Logger, _ zapcore.Level, m string) { l.Fatal(mark(m)) }},
		{"Logger.Log", 0, true, func(l *zap.Logger, lv zapcore.Level, m string) { l.Log(lv, mark(m)) }},
		{"Logger.Check", 0, true, func(l *zap.Logger, lv zapcore.Level, m string) {
			ce := l.Check(lv, mark(m))
			if ce != nil {
				ce.Write()
			}
		}},
	}
}

func sugarFEs() []fe {
	s := func(l *zap.Logger) *zap.SugaredLogger { return l.Sugar() }
	return []fe{
		{"Sugar.Debug", -1, false, func(l *zap.Logger, _ zapcore.Level, m string) { s(l).Debug(mark(m)) }},
		{"Sugar.Info", 0, false, func(l *zap.Logger, _ zapcore.Level, m string) { s(l).Info(mark(m)) }},
		{"Sugar.Warn", 1, false, func(l *zap.Logger, _ zapcore.Level, m string) { s(l).Warn(mark(m)) }},
		{"Sugar.Error", 2, false, func(l *zap.Logger, _ zapcore.Level, m string) { s(l).Error(mark(m)) }},
		{"Sugar.DPanic", 3, false, func(l *zap.Logger, _ zapcore.Level, m string) { s(l).DPanic(mark(m)) }},
		{"Sugar.Panic", 4, false, func(l *zap.Logger, _ zapcore.Level, m string) { s(l).Panic(mark(m)) }},
		{"Sugar.Fatal", 5, false, func(l *zap.Logger, _ zapcore.Level, m string) { s(l).Fatal(mark(m)) }},
		{"Sugar.Debugf", -1, false, func(l *zap.Logger, _ zapcore.Level, m string) { s(l).Debugf(mark(m)) }},
		{"Sugar.Infof", 0, false, func(l *zap.Logger, _ zapcore.Level, m string) { s(l).Infof(mark(m)) }},
		{"Sugar.Warnf", 1, false, func(l *zap.Logger, _ zapcore.Level, m string) { s(l).Warnf(mark(m)) }},
		{"Sugar.Errorf", 2, false, func(l *zap.Logger, _ zapcore.Level, m string) { s(l).Errorf(mark(m)) }},
		{"Sugar.DPanicf", 3, false, func(l *zap.Logger, _ zapcore.Level, m string) { s(l).DPanicf(mark(m)) }},
		{"Sugar.Panicf", 4, false, func(l *zap.Logger, _ zapcore.Level, m string) { s(l).Panicf(mark(m)) }},
		{"Sugar.Fatalf", 5, false, func(l *zap.Logger, _ zapcore.Level, m string) { s(l).Fatalf(mark(m)) }},
		{"Sugar.Debugw", -1, false, func(l *zap.Logger, _ zapcore.Level, m string) { s(l).Debugw(mark(m), "k", 1) }},
		{"Sugar.Infow", 0, false, func(l *zap.Logger, _ zapcore.Level, m string) { s(l).Infow(mark(m), "k", 1) }},
		{"Sugar.Warnw", 1, false, func(l *zap.Logger, _ zapcore.Level, m string) { s(l).Warnw(mark(m), "k", 1) }},
		{"Sugar.Errorw", 2, false, func(l *zap.Logger, _ zapcore.Level, m string) { s(l).Errorw(mark(m), "k", 1) }},
		{"Sugar.DPanicw", 3, false, func(l *zap.Logger, _ zapcore.Level, m string) { s(l).DPanicw(mark(m), "k", 1) }},
		{"Sugar.Panicw", 4, false, func(l *zap.Logger, _ zapcore.Level, m string) { s(l).Panicw(mark(m), "k", 1) }},
		{"Sugar.Fatalw", 5, false, func(l *zap.Logger, _ zapcore.Level, m string) { s(l).Fatalw(mark(m), "k", 1) }},
		{"Sugar.Debugln", -1, false, func(l *zap.Logger, _ zapcore.Level, m string) { s(l).Debugln(mark(m)) }},
		{"Sugar.Infoln", 0, false, func(l *zap.Logger, _ zapcore.Level, m string) { s(l).Infoln(mark(m)) }},
		{"Sugar.Warnln", 1, false, func(l *zap.Logger, _ zapcore.Level, m string) { s(l).Warnln(mark(m)) }},
		{"Sugar.Errorln", 2, false, func(l *zap.Logger, _ zapcore.Level, m string) { s(l).Errorln(mark(m)) }},
		{"Sugar.DPanicln", 3, false, func(l *zap.Logger, _ zapcore.Level, m string) { s(l).DPanicln(mark(m)) }},
		{"Sugar.Panicln", 4, false, func(l *zap.Logger, _ zapcore.Level, m string) { s(l).Panicln(mark(m)) }},
		{"Sugar.Fatalln", 5, false, func(l *zap.Logger, _ zapcore.Level, m string) { s(l).Fatalln(mark(m)) }},
		{"Sugar.Log", 0, true, func(l *zap.Logger, lv zapcore.Level, m string) { s(l).Log(lv, mark(m)) }},
		{"Sugar.Logf", 0, true, func(l *zap.Logger, lv zapcore.Level, m string) { s(l).Logf(lv, mark(m)) }},
		{"Sugar.Logw", 0, true, func(l *zap.Logger, lv zapcore.Level, m string) { s(l).Logw(lv, mark(m), "k", 1) }},
		{"Sugar.Logln", 0, true, func(l *zap.Logger, lv zapcore.Level, m string) { s(l).Logln(lv, mark(m)) }},
	}
}

func otherFEs() []fe {
	return []fe{
		{"NewStdLog.Print", zapcore.InfoLevel, false, func(l *zap.Logger, _ zapcore.Level, m string) { zap.NewStdLog(l).Print(mark(m)) }},
		{"NewStdLog.Printf", zapcore.InfoLevel, false, func(l *zap.Logger, _ zapcore.Level, m string) { zap.NewStdLog(l).Printf("%s", mark(m)) }},
		{"NewStdLog.Println", zapcore.InfoLevel, false, func(l *zap.Logger, _ zapcore.Level, m string) { zap.NewStdLog(l).Println(mark(m)) }},
		{"NewStdLog.Output", zapcore.InfoLevel, false, func(l *zap.Logger, _ zapcore.Level, m string) { _ = zap.NewStdLog(l).Output(1, mark(m)) }},
		{"NewStdLog.Panic", zapcore.InfoLevel, false, func(l *zap.Logger, _ zapcore.Level, m string) {
			defer func() { _ = recover() }()
			zap.NewStdLog(l).Panic(mark(m))
		}},
		{"NewStdLogAt.Print", 0, true, func(l *zap.Logger, lv zapcore.Level, m string) {
			sl, err := zap.NewStdLogAt(l, lv)
			if err != nil {
				panic(err)
			}
			sl.Print(mark(m))
		}},
		{"RedirectStdLog+log.Print", zapcore.InfoLevel, false, func(l *zap.Logger, _ zapcore.Level, m string) {
			undo := zap.RedirectStdLog(l)
			defer undo()
			log.Print(mark(m))
		}},
		{"RedirectStdLogAt+log.Printf", 0, true, func(l *zap.Logger, lv zapcore.Level, m string) {
			undo, err := zap.RedirectStdLogAt(l, lv)
			if err != nil {
				panic(err)
			}
			defer undo()
			log.Printf("%s", mark(m))
		}},
		{"RedirectStdLog+log.Output", zapcore.InfoLevel, false, func(l *zap.Logger, _ zapcore.Level, m string) {
			undo := zap.RedirectStdLog(l)
			defer undo()
			_ = log.Output(1, mark(m))
		}},
	}
}

// wrappers: frame 0 is the closure holding the logging line, then d wrapper frames.
//
//go:noinline
func wrap(d int, f func()) {
	if d <= 0 {
		f()
		return
	}
	wrap(d-1, f)
}

// duringPanic runs f as a deferred call while a panic unwinds (and swallows the panic).
//
//go:noinline
func duringPanic(f func()) {
	defer func() { _ = recover() }()
	defer f()
	panic("c15: unwinding")
}

//go:noinline
func deep(n int, f func()) {
	if n <= 0 {
		f()
		return
	}
	deep(n-1, f)
	runtime.KeepAlive(n)
}

func renderStack(fs []frame) string {
	var b strings.Builder
	for i, f := range fs {
		if i > 0 {
			b.WriteByte('\n')
		}
		fmt.Fprintf(&b, "%s\n\t%s:%d", f.Func, f.File, f.Line)
	}
	return b.String()
}

// stackOK accepts the complete chain from frame s, with or without trailing runtime frames.
func stackOK(got string, tr []frame, s int) bool {
	if s >= len(tr) {
		return false
	}
	fs := tr[s:]
	for end := len(fs); end > 0; end-- {
		if got == renderStack(fs[:end]) {
			return true
		}
		if !strings.HasPrefix(fs[end-1].Func, "runtime.") {
			break
		}
	}
	return false
}

func methodCoverage(r *ev.Run, covered map[string]bool) {
	notLogging := map[string]bool{"Sugar": true, "Named": true, "WithOptions": true, "With": true, "WithLazy": true, "Level": true, "Sync": true, "Core": true, "Name": true, "Desugar": true}
	var missing []string
	for prefix, t := range map[string]reflect.Type{"Logger.": reflect.TypeOf(&zap.Logger{}), "Sugar.": reflect.TypeOf(&zap.SugaredLogger{})} {
		for i := 0; i < t.NumMethod(); i++ {
			n := t.Method(i).Name
			if notLogging[n] {
				continue
			}
			if !covered[prefix+n] {
				missing = append(missing, prefix+n)
			}
		}
	}
	sort.Strings(missing)
	if len(missing) > 0 {
		r.Incomplete(fmt.Sprintf("logging methods without a call-site row: %v", missing))
	}
}

func applyChain(l *zap.Logger, g *rng.R, words *[]string) *zap.Logger {
	for n := g.Intn(5); n > 0; n-- {
		switch g.Intn(6) {
		case 0:
			l = l.Sugar().Desugar()
			*words = append(*words, "Sugar.Desugar")
		case 1:
			l = l.With(zap.Int("c", 1))
			*words = append(*words, "With")
		case 2:
			l = l.WithLazy(zap.Int("lz", 1))
			*words = append(*words, "WithLazy")
		case 3:
			l = l.Named("n")
			*words = append(*words, "Named")
		case 4:
			l = l.WithOptions(zap.Fields(zap.Int("o", 1)))
			*words = append(*words, "WithOptions")
		default:
			l = l.Sugar().With("k", 1).Named("s").Desugar()
			*words = append(*words, "Sugar.With.Named.Desugar")
		}
	}
	return l
}

// Run is the C15 monitor.
func Run(r *ev.Run) {
	r.Rule = "case = (front-end method, conversion chain, wrapper depth d with AddCallerSkip(k<=d), extra call-stack depth around the pooled 64-frame capacity, AddStacktrace enabler (static threshold, arbitrary level set, AtomicLevel changed after construction), caller on/off); the logging call shares its source line with mark(), which captures runtime.Callers of its caller; expected caller = ground-truth frame k, expected stack = ground-truth frames k.. ; distinct = distinct (method, chain, d, k, depth class, threshold) tuples"
	fes := append(append(loggerFEs(), sugarFEs()...), otherFEs()...)
	covered := map[string]bool{}
	for _, f := range fes {
		covered[f.name] = true
	}
	methodCoverage(r, covered)
	n := r.N(30000, 2000000)
	depths := []int{0, 0, 0, 3, 40, 120, 128, 500, 0, 0, 0, 3, 40, 120, 128, 500, 1100, 2600}
	// frames between the logging line and the bottom of the stack with no wrappers and no extra depth
	lastMark = nil
	_ = ev.Guard(func() { deep(0, func() { wrap(0, func() { mark("probe") }) }) })
	base := len(truth()) - 1 // mark's caller here is the inner closure; a front-end closure adds one frame
	r.Extra("base_stack_depth", base+1)
	for i := 0; i < n; i++ {
		id := fmt.Sprintf("c15/%d", i)
		if !r.Want(id) {
			continue
		}
		g := rng.For(r.Seed, "c15", i)
		f := fes[i%len(fes)]
		lvl := f.level
		if f.any {
			lvl = zapcore.Level(g.Intn(7) - 1)
		}
		d := g.Intn(9)
		k := g.Intn(d + 1)
		extra := rng.Pick(g, depths)
		if g.P(1, 3) { // land the captured frame count (from the skipped-to frame down) on 62..66
			extra = g.Range(62, 66) - (base + 1 + d - k)
			if extra < 0 {
				extra = 0
			}
		}
		callerOn := !g.P(1, 6)
		stackThr := zapcore.Level(g.Intn(9) - 2) // -2..6: from "always" to "never"
		// the stack-trace enabler: a static threshold, an arbitrary (also non-monotone) set of
		// levels, or an AtomicLevel that is changed after the logger was built
		var stackEn zapcore.LevelEnabler = stackThr
		stackOn := func(l zapcore.Level) bool { return l >= stackThr }
		stackDesc := fmt.Sprintf("threshold %v", stackThr)
		var afterBuild func()
		undecided := false // the enabler's answer for this call is not predicted: only "a trace that is there is complete" is judged
		switch g.Intn(5) {
		case 4:
			// an enabler with a memory: it alternates between no and yes every time it is asked
			asked := g.Intn(2)
			stackEn = zap.LevelEnablerFunc(func(zapcore.Level) bool { asked++; return asked%2 == 0 })
			undecided = true
			stackDesc = "an enabler that alternates between no and yes each time it is consulted"
			r.Count("stack_enabler:alternating", 1)
		case 0:
			var set [8]bool
			for x := range set {
				set[x] = g.Bool()
			}
			stackEn = zap.LevelEnablerFunc(func(l zapcore.Level) bool { return l >= -1 && l <= 5 && set[l+1] })
			stackOn = func(l zapcore.Level) bool { return l >= -1 && l <= 5 && set[l+1] }
			stackDesc = fmt.Sprintf("level set %v (debug..fatal)", set[:7])
			r.Count("stack_enabler:level-set", 1)
		case 1:
			first := zapcore.Level(g.Intn(7) - 1)
			al := zap.NewAtomicLevelAt(first)
			stackEn = al
			afterBuild = func() { al.SetLevel(stackThr) }
			stackDesc = fmt.Sprintf("AtomicLevel %v at construction, %v when logging", first, stackThr)
			r.Count("stack_enabler:atomic-level-changed-later", 1)
		default:
			r.Count("stack_enabler:static-threshold", 1)
		}
		core, logs := observer.New(zapcore.DebugLevel)
		opts := []zap.Option{zap.WithCaller(callerOn), zap.AddStacktrace(stackEn), zap.WithPanicHook(noopHook{}), zap.WithFatalHook(noopHook{})}
		var words []string
		skipFirst := g.Bool()
		// the skip is a sum: one time in three it is given in two instalments, one of them negative,
		// in either order
		skipOpts := []zap.Option{zap.AddCallerSkip(k)}
		if g.P(1, 3) {
			a := g.Range(1, 3)
			if g.Bool() {
				skipOpts = []zap.Option{zap.AddCallerSkip(-a), zap.AddCallerSkip(k + a)}
			} else {
				skipOpts = []zap.Option{zap.AddCallerSkip(k + a), zap.AddCallerSkip(-a)}
			}
			r.Count("skip_given_as_negative_plus_positive", 1)
		}
		if skipFirst {
			opts = append(opts, skipOpts...)
		}
		var l *zap.Logger
		if g.P(1, 5) {
			// built from a Config: options given to Build come after the Config's own (they win)
			cfg := zap.NewProductionConfig()
			if g.Bool() {
				cfg = zap.NewDevelopmentConfig()
			}
			bl, err := cfg.Build(append(append([]zap.Option{}, opts...), zap.WrapCore(func(zapcore.Core) zapcore.Core { return core }))...)
			if err != nil {
				r.Inconclusive(id + ": Config.Build failed: " + err.Error())
				continue
			}
			l = bl
			words = append(words, "Config.Build(options)")
			r.Count("loggers_built_from_config", 1)
		} else {
			l = zap.New(core, opts...)
		}
		l = applyChain(l, g, &words)
		if !skipFirst {
			if g.Bool() {
				l = l.Sugar().WithOptions(skipOpts...).Desugar()
				words = append(words, "Sugar.WithOptions(AddCallerSkip).Desugar")
			} else {
				l = l.WithOptions(skipOpts...)
			}
		}
		if afterBuild != nil {
			afterBuild()
		}
		msg := fmt.Sprintf("m%d", i)
		lastMark = nil
		// one case in eight logs from a deferred call while a panic unwinds: the runtime's own frames
		// then sit in the middle of the call chain, not only at its end
		unwinding := g.P(1, 8)
		pn := ev.Guard(func() {
			deep(extra, func() {
				wrap(d, func() {
					if unwinding {
						duringPanic(func() { f.call(l, lvl, msg) })
						return
					}
					f.call(l, lvl, msg)
				})
			})
		})
		if unwinding {
			r.Count("calls_from_a_deferred_function_during_a_panic", 1)
		}
		r.Eval(1)
		r.SetAdd("methods", f.name)
		depthClass := "shallow"
		tr := truth()
		switch {
		case len(tr)-k > 66:
			depthClass = "stack>66"
		case len(tr)-k >= 62 && len(tr)-k <= 66:
			depthClass = fmt.Sprintf("stack=%d", len(tr)-k)
		}
		r.SetAdd("depth_classes", depthClass)
		r.Distinct(fmt.Sprintf("%s|%v|%d|%d|%s|%d|%v", f.name, words, d, k, depthClass, stackThr, callerOn))
		if i < 3 {
			r.Sample(map[string]any{"method": f.name, "chain": words, "wrappers": d, "caller_skip": k, "extra_depth": extra, "stack_traces": stackDesc, "caller_on": callerOn})
		}
		wit := map[string]any{"method": f.name, "level": lvl.String(), "chain": words, "wrappers": d, "caller_skip": k, "extra_depth": extra, "stack_traces": stackDesc, "caller_on": callerOn}
		bad := func(class, format string, a ...any) {
			r.Violate(ev.Violation{Case: id, Class: class, Msg: fmt.Sprintf("%s (chain %v, %d wrappers, skip %d, depth+%d): ", f.name, words, d, k, extra) + fmt.Sprintf(format, a...), Witness: wit})
		}
		if pn != "" {
			bad("call-panic", "panicked: %s", pn)
			continue
		}
		var e *observer.LoggedEntry
		for _, x := range logs.All() {
			x := x
			if x.Message == msg {
				e = &x
			}
		}
		if e == nil {
			bad("entry-missing", "the entry was not logged")
			continue
		}
		if len(tr) <= k {
			r.Inconclusive(id + ": ground truth shorter than the skip")
			continue
		}
		want := tr[k]
		// std-log paths that go through log.(*Logger).Output in this Go version carry one more
		// frame of package log than zap's fixed bridge depth: open known finding, keyed narrowly.
		extraLogFrame := func(fn, file string, line int) bool {
			if f.name != "NewStdLog.Panic" && f.name != "RedirectStdLog+log.Output" {
				return false
			}
			if k == 0 {
				return strings.HasPrefix(fn, "log.")
			}
			return fn == tr[k-1].Func && file == tr[k-1].File && line == tr[k-1].Line
		}
		if callerOn {
			c := e.Caller
			if !c.Defined || c.File != want.File || c.Line != want.Line || c.Function != want.Func {
				if c.Defined && extraLogFrame(c.Function, c.File, c.Line) {
					bad("stdlog-bridge:extra-log-package-frame", "caller is %s:%d %s, one frame short of the user's call site %s:%d %s", c.File, c.Line, c.Function, want.File, want.Line, want.Func)
					continue
				}
				bad("caller", "caller is %s:%d %s, the runtime says frame %d of the call site is %s:%d %s", c.File, c.Line, c.Function, k, want.File, want.Line, want.Func)
				continue
			}
		} else if e.Caller.Defined {
			bad("caller-when-off", "caller annotation is off but the entry has caller %v", e.Caller)
			continue
		}
		wantStack := stackOn(lvl)
		if undecided {
			wantStack = e.Stack != ""
		}
		if (e.Stack != "") != wantStack {
			bad("stack-presence", "stack attached=%v at level %v with stack traces configured as: %s", e.Stack != "", lvl, stackDesc)
			continue
		}
		if wantStack {
			r.Count("stacks_compared", 1)
			if !stackOK(e.Stack, tr, k) {
				got := strings.Split(e.Stack, "\n")
				if len(got) >= 2 {
					var ln int
					var file string
					if i := strings.LastIndexByte(got[1], ':'); i > 0 {
						file = strings.TrimSpace(got[1][:i])
						fmt.Sscan(got[1][i+1:], &ln)
					}
					if extraLogFrame(got[0], file, ln) {
						bad("stdlog-bridge:extra-log-package-frame", "stack trace starts at %q, one frame short of the user's call site", first2(got))
						continue
					}
				}
				bad("stack", "stack trace (%d frames) is not the runtime's call chain from frame %d (%d frames): got first %q, want first %q; got last %q", len(got)/2, k, len(tr)-k, first2(got), want.Func, last2(got))
			}
		}
	}
	slogCases(r)
	concurrentCallers(r)
}

func first2(ls []string) string {
	if len(ls) >= 2 {
		return ls[0] + " " + strings.TrimSpace(ls[1])
	}
	return strings.Join(ls, " ")
}

func last2(ls []string) string {
	if len(ls) >= 2 {
		return ls[len(ls)-2] + " " + strings.TrimSpace(ls[len(ls)-1])
	}
	return strings.Join(ls, " ")
}

type sfe struct {
	name string
	call func(h slog.Handler, lvl slog.Level, m string)
}

func slogFEs() []sfe {
	ctx := context.Background()
	return []sfe{
		{"slog.Logger.Info/Warn/Error/Debug", func(h slog.Handler, lv slog.Level, m string) {
			sl := slog.New(h)
			switch {
			case lv >= slog.LevelError:
				sl.Error(mark(m))
			case lv >= slog.LevelWarn:
				sl.Warn(mark(m))
			case lv >= slog.LevelInfo:
				sl.Info(mark(m))
			default:
				sl.Debug(mark(m))
			}
		}},
		{"slog.Logger.InfoContext", func(h slog.Handler, lv slog.Level, m string) { slog.New(h).InfoContext(ctx, mark(m)) }},
		{"slog.Logger.Log", func(h slog.Handler, lv slog.Level, m string) { slog.New(h).Log(ctx, lv, mark(m), "k", 1) }},
		{"slog.Logger.LogAttrs", func(h slog.Handler, lv slog.Level, m string) {
			slog.New(h).LogAttrs(ctx, lv, mark(m), slog.Int("k", 1))
		}},
		{"slog.Logger.With.WithGroup.Log", func(h slog.Handler, lv slog.Level, m string) {
			slog.New(h).With("a", 1).WithGroup("g").Log(ctx, lv, mark(m), "k", 1)
		}},
		{"slog.SetDefault+slog.Log", func(h slog.Handler, lv slog.Level, m string) {
			old := slog.Default()
			slog.SetDefault(slog.New(h))
			defer slog.SetDefault(old)
			slog.Log(ctx, lv, mark(m))
		}},
	}
}

// inlinedHelpers: slog calls made inside small helper functions that the compiler inlines into their
// callers still have a call site - the line inside the helper - and the entry must name it.
func inlinedHelpers(r *ev.Run) {
	const pkg = "go.uber.org/zap/verif/props/c15."
	cases := []struct {
		fn   string
		line int
		emit func(l *slog.Logger, msg string)
	}{
		{pkg + "inlNote", lineOfInlNote(), func(l *slog.Logger, m string) { inlNote(l, m) }},
		{pkg + "inlWarn", lineOfInlWarn(), func(l *slog.Logger, m string) { inlWarn(l, m, errors.New("e")) }},
		{pkg + "(*inlService).started", lineOfInlStarted(), func(l *slog.Logger, m string) { (&inlService{l}).started(m) }},
	}
	for round := 0; round < 20; round++ {
		for ci, c := range cases {
			id := fmt.Sprintf("c15/slog-inlined-helper/%d/%d", round, ci)
			if !r.Want(id) {
				continue
			}
			core, logs := observer.New(zapcore.DebugLevel)
			h := zapslog.NewHandler(core, zapslog.WithCaller(true))
			var hd slog.Handler = h
			if round%2 == 1 {
				hd = h.WithAttrs([]slog.Attr{slog.Int("round", round)}).WithGroup("g")
			}
			msg := fmt.Sprintf("inl%d-%d", round, ci)
			pn := ev.Guard(func() { c.emit(slog.New(hd), msg) })
			r.Eval(1)
			r.Count("slog_calls_inside_inlinable_helpers", 1)
			r.Distinct(fmt.Sprintf("inl|%d|%d", round%2, ci))
			bad := func(f string, a ...any) {
				r.Violate(ev.Violation{Case: id, Class: "slog-caller", Msg: fmt.Sprintf("slog call inside the small helper %s: ", c.fn) + fmt.Sprintf(f, a...)})
			}
			if pn != "" {
				bad("panicked: %s", pn)
				continue
			}
			es := logs.TakeAll()
			if len(es) != 1 {
				bad("%d entries recorded, want 1", len(es))
				continue
			}
			cl := es[0].Caller
			if !cl.Defined {
				bad("caller annotation is enabled but the entry has no caller")
				continue
			}
			if cl.Function != c.fn || cl.Line != c.line || !strings.HasSuffix(cl.File, "inl_helpers.go") {
				bad("caller is %s:%d %s, want inl_helpers.go:%d %s", cl.File, cl.Line, cl.Function, c.line, c.fn)
			}
		}
	}
}

func slogCases(r *ev.Run) {
	inlinedHelpers(r)
	fes := slogFEs()
	n := r.N(3000, 200000)
	for i := 0; i < n; i++ {
		id := fmt.Sprintf("c15/slog/%d", i)
		if !r.Want(id) {
			continue
		}
		g := rng.For(r.Seed, "c15/slog", i)
		f := fes[i%len(fes)]
		lv := slog.Level(g.Intn(17) - 4)
		if f.name == "slog.Logger.InfoContext" {
			lv = slog.LevelInfo
		}
		if f.name == "slog.Logger.Info/Warn/Error/Debug" { // these methods log at their own fixed level
			switch {
			case lv >= slog.LevelError:
				lv = slog.LevelError
			case lv >= slog.LevelWarn:
				lv = slog.LevelWarn
			case lv >= slog.LevelInfo:
				lv = slog.LevelInfo
			default:
				lv = slog.LevelDebug
			}
		}
		stackAt := slog.Level(g.Intn(17) - 4)
		callerOn := !g.P(1, 5)
		extra := rng.Pick(g, []int{0, 0, 3, 58, 59, 60, 61, 62, 63, 64, 65, 128, 300})
		d := g.Intn(4)
		// a caller skip for the stack trace (the caller itself comes from the record): also handlers
		// derived with With / WithGroup must keep it
		skip := g.Intn(d + 1)
		core, logs := observer.New(zapcore.DebugLevel)
		h := zapslog.NewHandler(core, zapslog.WithCaller(callerOn), zapslog.AddStacktraceAt(stackAt), zapslog.WithCallerSkip(skip))
		msg := fmt.Sprintf("s%d", i)
		lastMark = nil
		pn := ev.Guard(func() { deep(extra, func() { wrap(d, func() { f.call(h, lv, msg) }) }) })
		r.Eval(1)
		r.SetAdd("methods", f.name)
		r.Distinct(fmt.Sprintf("%s|%d|%d|%v|%d|%d", f.name, lv, stackAt, callerOn, extra, skip))
		bad := func(class, format string, a ...any) {
			r.Violate(ev.Violation{Case: id, Class: class, Msg: fmt.Sprintf("%s (level %d, stack at %d, depth+%d): ", f.name, lv, stackAt, extra) + fmt.Sprintf(format, a...)})
		}
		if pn != "" {
			bad("call-panic", "panicked: %s", pn)
			continue
		}
		es := logs.All()
		if len(es) != 1 {
			bad("entry-missing", "%d entries logged", len(es))
			continue
		}
		e := es[0]
		tr := truth()
		want := tr[0]
		if callerOn {
			c := e.Caller
			if !c.Defined || c.File != want.File || c.Line != want.Line || c.Function != want.Func {
				bad("slog-caller", "caller is %s:%d %s, slog's call site is %s:%d %s", c.File, c.Line, c.Function, want.File, want.Line, want.Func)
				continue
			}
		} else if e.Caller.Defined {
			bad("caller-when-off", "caller annotation is off but the entry has one")
			continue
		}
		wantStack := lv >= stackAt
		if (e.Stack != "") != wantStack {
			bad("slog-stack-presence", "stack attached=%v", e.Stack != "")
			continue
		}
		if wantStack && !stackOK(e.Stack, tr, skip) {
			got := strings.Split(e.Stack, "\n")
			bad("slog-stack", "stack trace (%d frames) does not start %d frame(s) above the call site slog recorded (WithCallerSkip(%d)) / is not the complete chain (%d frames): got first %q want %q", len(got)/2, skip, skip, len(tr), first2(got), tr[skip].Func)
		}
	}
}

// ---- concurrent call sites -------------------------------------------------------------------------

//go:noinline
func concSite0(l *zap.Logger, msg string) { l.Info(msg) }

//go:noinline
func concSite1(l *zap.Logger, msg string) { l.Warn(msg, zap.Int("k", 1)) }

//go:noinline
func concSite2(l *zap.Logger, msg string) { l.Sugar().Infow(msg, "k", 2) }

//go:noinline
func concSite3(l *zap.Logger, msg string) { l.Error(msg) }

var concSites = []func(*zap.Logger, string){concSite0, concSite1, concSite2, concSite3}

// concurrentCallers: goroutines log at the same time from different functions (after caller
// lookups that failed, and with stack traces on for some levels): every entry must name the
// function of the goroutine that logged it - stack objects are pooled and shared.
func concurrentCallers(r *ev.Run) {
	n := r.N(60, 2000)
	for i := 0; i < n; i++ {
		id := fmt.Sprintf("c15/concurrent/%d", i)
		if !r.Want(id) {
			continue
		}
		g := rng.For(r.Seed, "c15/conc", i)
		core, logs := observer.New(zapcore.DebugLevel)
		l := zap.New(core, zap.AddCaller(), zap.AddStacktrace(zapcore.ErrorLevel), zap.ErrorOutput(zapcore.AddSync(discardW{})))
		// caller lookups that cannot succeed (skip beyond the stack); the entries are still logged
		bad := l.WithOptions(zap.AddCallerSkip(100000))
		for k := g.Range(1, 4); k > 0; k-- {
			bad.Info("caller lookup fails")
		}
		ng := g.Range(2, 8)
		per := g.Range(20, 200)
		var wg sync.WaitGroup
		start := make(chan struct{})
		for gi := 0; gi < ng; gi++ {
			wg.Add(1)
			go func(gi int) {
				defer wg.Done()
				defer func() { _ = recover() }()
				<-start
				site := concSites[gi%len(concSites)]
				for k := 0; k < per; k++ {
					site(l, fmt.Sprintf("site%d g%d #%d", gi%len(concSites), gi, k))
					if k%17 == 3 {
						bad.Info("caller lookup fails")
					}
				}
			}(gi)
		}
		close(start)
		done := make(chan struct{})
		go func() { wg.Wait(); close(done) }()
		select {
		case <-done:
		case <-time.After(60 * time.Second):
			r.Inconclusive(id + ": concurrent logging with caller annotation did not finish within 60s")
			return
		}
		r.Eval(1)
		r.Distinct(fmt.Sprintf("conc|%d|%d|%d", i, ng, per))
		cnt := 0
		for _, e := range logs.All() {
			if !strings.HasPrefix(e.Message, "site") {
				continue
			}
			cnt++
			want := fmt.Sprintf("c15.concSite%c", e.Message[4])
			if !e.Caller.Defined || !strings.HasSuffix(e.Caller.Function, want) {
				r.Violate(ev.Violation{Case: id, Class: "caller-concurrent", Msg: fmt.Sprintf("%d goroutines logging at once: entry %q was logged by %s but its caller is %s (%s:%d)", ng, e.Message, want, e.Caller.Function, e.Caller.File, e.Caller.Line)})
				return
			}
			if e.Level >= zapcore.ErrorLevel && !strings.Contains(strings.SplitN(e.Stack, "\n", 2)[0], want) {
				r.Violate(ev.Violation{Case: id, Class: "stack-concurrent", Msg: fmt.Sprintf("%d goroutines logging at once: the stack of entry %q does not start in %s: %q", ng, e.Message, want, first2(strings.Split(e.Stack, "\n")))})
				return
			}
		}
		if cnt != ng*per {
			r.Violate(ev.Violation{Case: id, Class: "caller-concurrent", Msg: fmt.Sprintf("%d of %d entries were logged (a log call panicked?)", cnt, ng*per)})
			return
		}
		r.Count("concurrent_caller_entries", int64(cnt))
	}
}

type discardW struct{}

func (discardW) Write(p []byte) (int, error) { return len(p), nil }
