// Package c10 monitors C10: field and sink failures are contained and
// reported; the entry is never lost.
package c10

import (
	"context"
	"encoding/json"
	"errors"
	"fmt"
	"log/slog"
	"strings"
	"sync"
	"time"

	"go.uber.org/zap"
	"go.uber.org/zap/exp/zapslog"
	"go.uber.org/zap/verif/internal/ev"
	"go.uber.org/zap/verif/internal/gen"
	"go.uber.org/zap/verif/internal/jsonv"
	"go.uber.org/zap/verif/internal/rec"
	"go.uber.org/zap/verif/internal/rng"
	"go.uber.org/zap/verif/props/encjson"
	"go.uber.org/zap/zapcore"
)

func opts(i int) gen.Opts {
	return gen.Opts{Hostile: i%3 == 0, UniqueKeys: i%2 == 0, MaxDepth: 4, MaxFields: 5}
}

// logCase sends the case through a real Logger over a JSON core and returns the sink line.
func logCase(c *gen.Case) (line []byte, errOut []byte, problem string) {
	sink, eo := &rec.Sink{}, &rec.Sink{}
	core := zapcore.NewCore(zapcore.NewJSONEncoder(c.Cfg.Zap()), sink, zapcore.Level(-128))
	lg := zap.New(core, zap.ErrorOutput(eo), zap.WithClock(fixedClock{c.Ent}), zap.WithPanicHook(noop{}), zap.WithFatalHook(noop{}))
	if c.Ent.LoggerName != "" {
		lg = lg.Named(c.Ent.LoggerName)
	}
	for _, w := range c.Ctx {
		lg = lg.With(gen.ZapFields(w)...)
	}
	lg.Log(c.Ent.Level, c.Ent.Message, gen.ZapFields(c.Fields)...)
	ws := sink.Writes()
	if len(ws) != 1 {
		return nil, eo.All(), fmt.Sprintf("the entry produced %d sink writes (entry lost or duplicated)", len(ws))
	}
	return ws[0], eo.All(), ""
}

type noop struct{}

func (noop) OnWrite(*zapcore.CheckedEntry, []zapcore.Field) {}

type fixedClock struct{ e zapcore.Entry }

func (c fixedClock) Now() time.Time                         { return c.e.Time }
func (c fixedClock) NewTicker(d time.Duration) *time.Ticker { return time.NewTicker(d) }

func fieldFaults(r *ev.Run) {
	bases := r.N(10000, 400000)
	variants := 0
	for i := 0; i < bases; i++ {
		// count the fault-capable sites of base case i
		g0 := gen.New(rng.For(r.Seed, "c10", i), opts(i))
		g0.Opt.FaultNum = 0
		c0 := g0.Case(false)
		_ = c0
		sites := g0.FaultSites()
		for k := -1; k < sites; k++ {
			id := fmt.Sprintf("c10/field/%d/%d", i, k)
			if !r.Want(id) {
				continue
			}
			g := gen.New(rng.For(r.Seed, "c10", i), opts(i))
			if k >= 0 {
				g.FaultTarget = k
			} else {
				// one variant per base with several simultaneous faults
				g.Opt.FaultNum, g.Opt.FaultDen = 1, 3
			}
			c := g.Case(false)
			// the logger supplies caller/stack itself; keep only what a Logger call can carry
			c.Ent.Caller = zapcore.EntryCaller{}
			c.Ent.Stack = ""
			if c.Ent.Level > zapcore.FatalLevel {
				c.Ent.Level = zapcore.Level(int(c.Ent.Level)%7 - 1) // above Fatal the logger attaches its own stack trace
			}
			if c.Ent.Time.IsZero() {
				c.Ent.Time = g.SaneTime()
			}
			if c.Faults == 0 && k >= 0 {
				continue
			}
			variants++
			r.Eval(1)
			for t := range c.Tags {
				if strings.Contains(t, ":") {
					r.SetAdd("fault_kinds", t)
				}
			}
			r.Distinct(fmt.Sprintf("ff|%d|%d", i, k))
			if variants%700 == 1 {
				r.Sample(c.Describe())
			}
			var line, eo []byte
			var problem string
			if p := ev.Guard(func() { line, eo, problem = logCase(c) }); p != "" {
				r.Violate(ev.Violation{Case: id, Class: "field-fault-panic", Msg: "the logging call panicked on a failing field: " + p, Witness: c.Describe()})
				continue
			}
			_ = eo
			if problem != "" {
				r.Violate(ev.Violation{Case: id, Class: "entry-lost", Msg: problem, Witness: c.Describe()})
				continue
			}
			err, inc := encjson.Judge02(c, line)
			if inc {
				r.Inconclusive(id + ": " + err.Error())
				continue
			}
			if err != nil {
				w := c.Describe()
				w["line"] = string(line)
				r.Violate(ev.Violation{Case: id, Class: "field-fault-containment", Msg: fmt.Sprintf("with a failing field the entry is not 'all other fields intact plus <key>Error': %v", err), Witness: w})
			}
		}
	}
	r.Extra("field_fault_variants", variants)
}

// ---- sink / core faults --------------------------------------------------------------

type failCore struct {
	zapcore.LevelEnabler
	err   error
	calls *int
}

func (c failCore) With([]zapcore.Field) zapcore.Core { return c }
func (c failCore) Check(e zapcore.Entry, ce *zapcore.CheckedEntry) *zapcore.CheckedEntry {
	return ce.AddCore(e, c)
}
func (c failCore) Write(zapcore.Entry, []zapcore.Field) error { *c.calls++; return c.err }
func (c failCore) Sync() error                                { return nil }

// wrapCore is a user-style wrapper: it adds itself in Check and delegates Write.
type wrapCore struct{ zapcore.Core }

func (w wrapCore) With(fs []zapcore.Field) zapcore.Core { return wrapCore{w.Core.With(fs)} }
func (w wrapCore) Check(e zapcore.Entry, ce *zapcore.CheckedEntry) *zapcore.CheckedEntry {
	if w.Enabled(e.Level) {
		return ce.AddCore(e, w)
	}
	return ce
}

var outcomes = []string{"ok", "zero+err", "short+err", "full+err", "syncerr", "failing-core", "short+nil"}

var sinkCfg = zapcore.EncoderConfig{MessageKey: "msg", LevelKey: "level", EncodeLevel: zapcore.LowercaseLevelEncoder}

func sinkFaults(r *ev.Run) {
	maxK := r.N(3, 4)
	seqLen := r.N(3, 5)
	total := 0
	for k := 1; k <= maxK; k++ {
		nvec := 1
		for i := 0; i < k; i++ {
			nvec *= len(outcomes)
		}
		for vec := 0; vec < nvec; vec++ {
			for _, mode := range []string{"tee", "multisyncer", "wrapped-tee"} {
				id := fmt.Sprintf("c10/sink/%s/%d/%d", mode, k, vec)
				if !r.Want(id) {
					continue
				}
				// destination j's outcome for entry e is outcomes[(digit_j + e) % len]: the vector rotates along the sequence
				digits := make([]int, k)
				v := vec
				for j := range digits {
					digits[j] = v % len(outcomes)
					v /= len(outcomes)
				}
				sinks := make([]*rec.Sink, k)
				coreCalls := make([]int, k)
				eo := &rec.Sink{}
				var cores []zapcore.Core
				var wss []zapcore.WriteSyncer
				skip := false
				for j := range sinks {
					sinks[j] = &rec.Sink{Name: fmt.Sprint(j)}
					wss = append(wss, sinks[j])
				}
				// per-entry programming happens just before each call
				if mode == "multisyncer" {
					for _, d := range digits {
						if outcomes[d] == "failing-core" {
							skip = true
						}
					}
					if skip || k < 2 {
						continue
					}
					cores = []zapcore.Core{zapcore.NewCore(zapcore.NewJSONEncoder(sinkCfg), zapcore.NewMultiWriteSyncer(wss...), zapcore.DebugLevel)}
				}
				total++
				r.Eval(1)
				r.Distinct(fmt.Sprintf("sf|%s|%d|%d", mode, k, vec))
				errKind := (vec / 3) % 4
				r.Count(fmt.Sprintf("sink_fault_vectors_with_error_values:%d", errKind), 1)
				for e := 0; e < seqLen; e++ {
					names := make([]string, k)
					errs := make([]error, k)
					lvl := []zapcore.Level{zapcore.InfoLevel, zapcore.DPanicLevel, zapcore.ErrorLevel, zapcore.PanicLevel, zapcore.DebugLevel}[e%5]
					if mode != "multisyncer" {
						cores = cores[:0]
					}
					for j := range sinks {
						o := outcomes[(digits[j]+e)%len(outcomes)]
						names[j] = o
						sinks[j].Reset()
						sinks[j].Outcomes, sinks[j].SyncErrs = nil, nil
						// error values: distinct pointers / values of a type that cannot be compared with == /
						// one and the same sentinel value for every destination
						var werr error = fmt.Errorf("write-failed-dest%d-entry%d", j, e)
						switch errKind {
						case 1:
							werr = listErr{fmt.Sprintf("write-failed-dest%d-entry%d", j, e)}
						case 2:
							werr = errSentinel
						case 3:
							werr = (*nilErr)(nil) // an error value that cannot even be rendered
						}
						switch o {
						case "zero+err":
							sinks[j].Outcomes, errs[j] = []rec.Outcome{{N: 0, Err: werr}}, werr
						case "short+err":
							sinks[j].Outcomes, errs[j] = []rec.Outcome{{N: 3, Err: werr}}, werr
						case "full+err":
							sinks[j].Outcomes, errs[j] = []rec.Outcome{{N: -1, Err: werr}}, werr
						case "syncerr":
							sinks[j].SyncErrs = []error{errors.New("sync-failed")}
							if errKind == 1 {
								sinks[j].SyncErrs = []error{listErr{"sync-failed"}, listErr{"sync-failed"}}
							}
						case "short+nil":
							// a silent short write is nothing zap can see: whether it is reported is not judged,
							// but it must not keep the entry from the other destinations
							sinks[j].Outcomes = []rec.Outcome{{N: 3, Err: nil}}
						}
						if mode != "multisyncer" {
							if o == "failing-core" {
								errs[j] = fmt.Errorf("core-failed-dest%d-entry%d", j, e)
								switch errKind {
								case 1:
									errs[j] = listErr{fmt.Sprintf("core-failed-dest%d-entry%d", j, e)}
								case 2:
									errs[j] = errSentinel
								case 3:
									errs[j] = (*nilErr)(nil)
								}
								cores = append(cores, failCore{zapcore.DebugLevel, errs[j], &coreCalls[j]})
							} else {
								cores = append(cores, zapcore.NewCore(zapcore.NewJSONEncoder(sinkCfg), sinks[j], zapcore.DebugLevel))
							}
						} else if o == "failing-core" {
							names[j] = "ok"
						}
					}
					eo.Reset()
					var top zapcore.Core = zapcore.NewTee(cores...)
					if mode == "wrapped-tee" {
						// a user-defined wrapper that registers itself and forwards Write to the tee as a whole
						top = wrapCore{top}
					}
					// half of the vectors keep the stock terminal actions: a Panic entry (and, in development, a
					// DPanic entry) really panics out of the call; the failure report must be there all the same
					realTerm, dev := vec%2 == 1, vec%4 == 3
					lopts := []zap.Option{zap.ErrorOutput(eo)}
					if !realTerm {
						lopts = append(lopts, zap.WithPanicHook(noop{}))
					}
					if dev {
						lopts = append(lopts, zap.Development())
					}
					// caller / stack annotation asked for, in two vectors out of five from a place the
					// annotation cannot be found (skip beyond the stack): reports still reach the error output
					callerMode := (k + vec + e) % 5
					switch callerMode {
					case 0:
						lopts = append(lopts, zap.AddCaller(), zap.AddCallerSkip(1000))
					case 1:
						lopts = append(lopts, zap.AddStacktrace(zapcore.DebugLevel), zap.AddCallerSkip(1000))
					case 2:
						lopts = append(lopts, zap.AddCaller(), zap.AddStacktrace(zapcore.WarnLevel))
					}
					lg := zap.New(top, lopts...)
					msg := fmt.Sprintf("entry-%d-%d-%d", k, vec, e)
					wit := map[string]any{"mode": mode, "destinations": names, "entry": e, "level": lvl.String(), "stock_terminal_actions": realTerm, "development": dev, "caller_mode": []string{"AddCaller with skip 1000", "AddStacktrace with skip 1000", "AddCaller and AddStacktrace", "none", "none"}[callerMode], "error_values": []string{"distinct", "uncomparable type", "one shared sentinel", "a nil pointer whose Error method panics"}[errKind]}
					bad := func(class, f string, a ...any) {
						r.Violate(ev.Violation{Case: id, Class: class, Msg: fmt.Sprintf("%s %v entry %d: ", mode, names, e) + fmt.Sprintf(f, a...), Witness: wit})
					}
					if p := ev.Guard(func() { lg.Log(lvl, msg, zap.Int("n", e)) }); p != "" {
						if !(realTerm && (lvl == zapcore.PanicLevel || (lvl == zapcore.DPanicLevel && dev)) && strings.Contains(p, msg)) {
							bad("sink-fault-panic", "the logging call panicked: %s", p)
							break
						}
						r.Count("sink_fault_entries_ending_in_a_real_panic", 1)
					}
					r.Count("sink_fault_entries", 1)
					if p := ev.Guard(func() { _ = lg.Sync() }); p != "" {
						bad("sink-fault-panic", "Logger.Sync panicked: %s", p)
						break
					}
					anyErr := false
					for j := range sinks {
						if names[j] == "failing-core" {
							anyErr = true
							if coreCalls[j] == 0 {
								bad("tee-core-skipped", "failing core %d was not even called", j)
							}
							continue
						}
						ws := sinks[j].Writes()
						if len(ws) != 1 {
							bad("tee-branch-missed", "destination %d (%s) received %d writes, want 1 (an earlier destination's failure must not stop delivery)", j, names[j], len(ws))
							continue
						}
						v, err, _ := jsonv.CheckLine(ws[0], "\n")
						if err != nil || v.Get("msg") == nil || v.Get("msg").Str != msg {
							bad("tee-branch-bytes", "destination %d received a wrong line %q", j, ws[0])
						}
						if errs[j] != nil {
							anyErr = true
						}
					}
					rep := string(eo.All())
					if anyErr {
						if !strings.Contains(rep, "write error") {
							bad("not-reported", "a destination failed but nothing was reported on the error output (got %q)", rep)
						}
						nfail := 0
						for j, e2 := range errs {
							if e2 != nil {
								nfail++
							}
							if e2 != nil && errKind != 3 && !strings.Contains(rep, e2.Error()) {
								bad("not-reported", "the failure of destination %d (%v) is not named on the error output (got %q)", j, e2, rep)
							}
						}
						if errKind == 2 && strings.Count(rep, errSentinel.Error()) < nfail {
							bad("not-reported", "%d destinations failed (each with the same error value) but the error output names %d failures (got %q)", nfail, strings.Count(rep, errSentinel.Error()), rep)
						}
					} else if strings.Contains(rep, "write error") {
						hasSyncErr := false
						for _, n := range names {
							if n == "syncerr" || n == "short+nil" {
								hasSyncErr = true
							}
						}
						if !hasSyncErr {
							bad("spurious-report", "no destination failed but the error output says %q", rep)
						}
					}
				}
			}
		}
	}
	r.Extra("sink_vectors_enumerated", total)
	r.Extra("sink_max_destinations", maxK)
	r.Extra("sink_entries_per_vector", seqLen)
	r.Exhaustive(true)
}

// listErr is an error whose dynamic type cannot be compared with ==.
type listErr []string

func (e listErr) Error() string { return strings.Join(e, "; ") }

var errSentinel = errors.New("shared-sentinel-failure")

// Run is the C10 monitor.
func Run(r *ev.Run) {
	r.Rule = "field faults: for each seeded base case every fault-capable site (object/array marshaler error at a chosen position, panicking Stringer/error, unencodable reflected value, failing zap.Stringers element) is made to fail in turn, plus one multi-fault variant; the entry goes through a real Logger and its line is compared with 'all other fields intact plus <key>Error'; sink faults: every outcome vector over {ok, (0,err), (short,err), (full,err), (short,nil), sync error, failing core} for 1..3 (quick) / 4 (thorough) tee destinations and multi-syncer sinks, rotated over a sequence of entries; distinct = distinct (base, site) / vectors"
	fieldFaults(r)
	sinkFaults(r)
	backgroundFlushFaults(r)
	slogFaults(r)
}

// ---- a transient sink failure first seen by the background flush ---------------------------------

type tickClock struct {
	mu  sync.Mutex
	chs []chan time.Time
}

func (c *tickClock) Now() time.Time { return time.Unix(1, 0) }
func (c *tickClock) NewTicker(time.Duration) *time.Ticker {
	ch := make(chan time.Time)
	c.mu.Lock()
	c.chs = append(c.chs, ch)
	c.mu.Unlock()
	return &time.Ticker{C: ch}
}

// flakySink fails its first `failures` writes, then recovers.
type flakySink struct {
	mu       sync.Mutex
	failures int
	attempts int
	got      []byte
}

func (s *flakySink) Write(p []byte) (int, error) {
	s.mu.Lock()
	defer s.mu.Unlock()
	s.attempts++
	if s.attempts <= s.failures {
		return 0, fmt.Errorf("flaky-sink-write-%d-failed", s.attempts)
	}
	s.got = append(s.got, p...)
	return len(p), nil
}
func (s *flakySink) Sync() error { return nil }
func (s *flakySink) tried() int  { s.mu.Lock(); defer s.mu.Unlock(); return s.attempts }

// backgroundFlushFaults: entries sit in a BufferedWriteSyncer; the timer-driven flush (a harness
// tick) is the first to meet the failing sink and has nobody to report to. The failure must still
// come out on the error output - with the next entry, or with Sync/Stop returning an error that
// the caller sees - and the call that meets it must return normally.
func backgroundFlushFaults(r *ev.Run) {
	n := r.N(150, 4000)
	for i := 0; i < n; i++ {
		id := fmt.Sprintf("c10/background-flush/%d", i)
		if !r.Want(id) {
			continue
		}
		g := rng.For(r.Seed, "c10/bgflush", i)
		clk := &tickClock{}
		sink := &flakySink{failures: g.Range(1, 2)}
		eo := &rec.Sink{}
		b := &zapcore.BufferedWriteSyncer{WS: sink, Size: 4096, FlushInterval: time.Hour, Clock: clk}
		lg := zap.New(zapcore.NewCore(zapcore.NewJSONEncoder(sinkCfg), b, zapcore.DebugLevel), zap.ErrorOutput(eo))
		before := g.Range(1, 3)
		for k := 0; k < before; k++ {
			lg.Info(fmt.Sprintf("before-tick-%d", k))
		}
		// deliver the tick and wait until the flush loop has tried the sink (a condition, not a time)
		clk.mu.Lock()
		chs := append([]chan time.Time(nil), clk.chs...)
		clk.mu.Unlock()
		if len(chs) == 0 {
			r.Inconclusive(id + ": the buffered syncer created no ticker")
			continue
		}
		ticked := false
		select {
		case chs[0] <- time.Unix(2, 0):
			ticked = true
		case <-time.After(30 * time.Second):
		}
		for w := 0; ticked && sink.tried() == 0 && w < 30000; w++ {
			time.Sleep(time.Millisecond)
		}
		if !ticked || sink.tried() == 0 {
			r.Inconclusive(id + ": the flush loop did not reach the sink")
			_ = b.Stop()
			continue
		}
		// the sink has recovered (or will after one more failure); keep logging, then flush for real
		var syncErrs []string
		after := g.Range(1, 4)
		pn := ev.Guard(func() {
			for k := 0; k < after; k++ {
				lg.Warn(fmt.Sprintf("after-tick-%d", k), zap.Int("k", k))
			}
			if err := lg.Sync(); err != nil {
				syncErrs = append(syncErrs, err.Error())
			}
			if err := b.Stop(); err != nil {
				syncErrs = append(syncErrs, err.Error())
			}
		})
		r.Eval(1)
		r.Distinct(fmt.Sprintf("bgflush|%d|%d|%d|%d", i, sink.failures, before, after))
		r.Count("background_flush_fault_cases", 1)
		if pn != "" {
			r.Violate(ev.Violation{Case: id, Class: "sink-fault-panic", Msg: "logging after a failed background flush panicked: " + pn})
			continue
		}
		reported := string(eo.All()) + strings.Join(syncErrs, " ")
		if !strings.Contains(reported, "flaky-sink-write-1-failed") {
			r.Violate(ev.Violation{Case: id, Class: "not-reported", Msg: fmt.Sprintf("the sink failed during the timer-driven flush of a BufferedWriteSyncer (%d entries buffered, %d logged afterwards, then Sync and Stop): the failure appears neither on the error output nor in an error returned by Sync/Stop (error output %q, returned %q)", before, after, clipB(eo.All()), syncErrs)})
		}
	}
}

func clipB(b []byte) string {
	if len(b) > 300 {
		return string(b[:300]) + "..."
	}
	return string(b)
}

// ---- hostile values arriving through the slog front end ------------------------------------------

type nilStr struct{ s string }

func (v nilStr) String() string { return v.s } // value receiver: a nil *nilStr panics

type boomStr struct{}

func (boomStr) String() string { panic("string-panics") }

type nilErr struct{ s string }

func (v nilErr) Error() string { return v.s }

type boomErr struct{}

func (boomErr) Error() string { panic("error-panics") }

type boomObj struct{}

func (boomObj) MarshalLogObject(zapcore.ObjectEncoder) error { return errors.New("object-fails") }

// slogFaults: the same containment holds when the value comes in as a slog attribute - at top level,
// inside a group, through Handler.WithAttrs, through Logger.With: the call returns, one line is
// written, the attributes around the hostile one are intact and the hostile one is either rendered
// as <nil> or named in <key>Error.
func slogFaults(r *ev.Run) {
	hostile := []struct {
		name string
		v    any
	}{
		{"nil pointer whose String panics", (*nilStr)(nil)},
		{"Stringer that panics", boomStr{}},
		{"nil pointer whose Error panics", (*nilErr)(nil)},
		{"error that panics", boomErr{}},
		{"object marshaler that fails", boomObj{}},
	}
	places := []string{"attribute", "attribute inside a group", "Handler.WithAttrs", "Logger.With", "WithGroup then attribute"}
	for hi, h := range hostile {
		for pi, place := range places {
			id := fmt.Sprintf("c10/slog/%d/%d", hi, pi)
			if !r.Want(id) {
				continue
			}
			sink := &rec.Sink{}
			core := zapcore.NewCore(zapcore.NewJSONEncoder(sinkCfg), sink, zapcore.DebugLevel)
			before, bad, after := slog.Int("before", 1), slog.Any("bad", h.v), slog.String("after", "x")
			inner := "" // the member the three attributes are expected under ("" = top level)
			pn := ev.Guard(func() {
				hd := slog.Handler(zapslog.NewHandler(core))
				switch place {
				case "attribute":
					slog.New(hd).LogAttrs(context.Background(), slog.LevelInfo, "slog entry", before, bad, after)
				case "attribute inside a group":
					inner = "g"
					slog.New(hd).LogAttrs(context.Background(), slog.LevelInfo, "slog entry", slog.Group("g", before, bad, after))
				case "Handler.WithAttrs":
					slog.New(hd.WithAttrs([]slog.Attr{before, bad, after})).Info("slog entry")
				case "Logger.With":
					slog.New(hd).With("before", 1, "bad", h.v, "after", "x").Info("slog entry")
				default:
					inner = "w"
					slog.New(hd.WithGroup("w")).LogAttrs(context.Background(), slog.LevelWarn, "slog entry", before, bad, after)
				}
			})
			r.Eval(1)
			r.Count("slog_fault_cases", 1)
			r.Distinct(fmt.Sprintf("slogfault|%d|%d", hi, pi))
			fail := func(f string, a ...any) {
				r.Violate(ev.Violation{Case: id, Class: "slog-fault-not-contained", Msg: fmt.Sprintf("slog %s = %s: ", place, h.name) + fmt.Sprintf(f, a...), Witness: map[string]any{"value": h.name, "place": place, "sink": string(sink.All())}})
			}
			if pn != "" {
				fail("the logging call panicked: %s", pn)
				continue
			}
			ws := sink.Writes()
			if len(ws) != 1 {
				fail("%d lines were written, want 1", len(ws))
				continue
			}
			var top map[string]any
			if err := json.Unmarshal(ws[0], &top); err != nil {
				fail("the line is not valid JSON: %v: %q", err, ws[0])
				continue
			}
			obj := top
			if inner != "" {
				o, ok := top[inner].(map[string]any)
				if !ok {
					fail("the group %q is missing from the entry %q", inner, ws[0])
					continue
				}
				obj = o
			}
			if top["msg"] != "slog entry" || obj["before"] != float64(1) || obj["after"] != "x" {
				fail("the message or the attributes around the hostile one are not intact: %q", ws[0])
				continue
			}
			_, named := obj["badError"]
			if obj["bad"] != "<nil>" && !named {
				fail("the hostile attribute is neither rendered as <nil> nor named in badError: %q", ws[0])
			}
		}
	}
}
