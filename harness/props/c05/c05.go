// Package c05 monitors C05: an entry is written exactly where its level is
// enabled, and reported levels agree with delivery.
package c05

import (
	"context"
	"encoding/json"
	"fmt"
	"log/slog"
	"net/http/httptest"
	"strings"
	"time"

	"go.uber.org/zap"
	"go.uber.org/zap/exp/zapslog"
	"go.uber.org/zap/verif/internal/ev"
	"go.uber.org/zap/verif/internal/gen"
	"go.uber.org/zap/verif/internal/rng"
	"go.uber.org/zap/zapcore"
	"go.uber.org/zap/zapgrpc"
	"go.uber.org/zap/zapio"
)

type noopHook struct{}

func (noopHook) OnWrite(*zapcore.CheckedEntry, []zapcore.Field) {}

type countObj struct{ n *int }

func (c countObj) MarshalLogObject(enc zapcore.ObjectEncoder) error {
	*c.n++
	enc.AddInt("x", 1)
	return nil
}

// frontEnd emits one entry at level l with message msg; it reports false when the
// front end cannot express that level.
type frontEnd struct {
	name string
	emit func(lg *zap.Logger, core zapcore.Core, l zapcore.Level, msg string, obj countObj) bool
}

func frontEnds() []frontEnd {
	return []frontEnd{
		{"Logger.Log", func(lg *zap.Logger, _ zapcore.Core, l zapcore.Level, msg string, o countObj) bool {
			lg.Log(l, msg, zap.Object("o", o))
			return true
		}},
		{"Logger.Check+Write", func(lg *zap.Logger, _ zapcore.Core, l zapcore.Level, msg string, o countObj) bool {
			if ce := lg.Check(l, msg); ce != nil {
				ce.Write(zap.Object("o", o))
			}
			return true
		}},
		{"Logger.<level method>", func(lg *zap.Logger, _ zapcore.Core, l zapcore.Level, msg string, o countObj) bool {
			f := zap.Object("o", o)
			switch l {
			case zapcore.DebugLevel:
				lg.Debug(msg, f)
			case zapcore.InfoLevel:
				lg.Info(msg, f)
			case zapcore.WarnLevel:
				lg.Warn(msg, f)
			case zapcore.ErrorLevel:
				lg.Error(msg, f)
			case zapcore.DPanicLevel:
				lg.DPanic(msg, f)
			case zapcore.PanicLevel:
				lg.Panic(msg, f)
			case zapcore.FatalLevel:
				lg.Fatal(msg, f)
			default:
				return false
			}
			return true
		}},
		{"Sugar.Logw", func(lg *zap.Logger, _ zapcore.Core, l zapcore.Level, msg string, o countObj) bool {
			lg.Sugar().Logw(l, msg, "o", o)
			return true
		}},
		{"Sugar.Log", func(lg *zap.Logger, _ zapcore.Core, l zapcore.Level, msg string, o countObj) bool {
			lg.Sugar().Log(l, msg)
			return true
		}},
		{"Sugar.Logf", func(lg *zap.Logger, _ zapcore.Core, l zapcore.Level, msg string, o countObj) bool {
			lg.Sugar().Logf(l, "%s", msg)
			return true
		}},
		{"Sugar.Logln", func(lg *zap.Logger, _ zapcore.Core, l zapcore.Level, msg string, o countObj) bool {
			lg.Sugar().Logln(l, msg)
			return true
		}},
		{"Sugar.With.<level>w", func(lg *zap.Logger, _ zapcore.Core, l zapcore.Level, msg string, o countObj) bool {
			s := lg.Sugar()
			switch l {
			case zapcore.DebugLevel:
				s.Debugw(msg, "o", o)
			case zapcore.InfoLevel:
				s.Infow(msg, "o", o)
			case zapcore.WarnLevel:
				s.Warnw(msg, "o", o)
			case zapcore.ErrorLevel:
				s.Errorw(msg, "o", o)
			case zapcore.DPanicLevel:
				s.DPanicw(msg, "o", o)
			case zapcore.PanicLevel:
				s.Panicw(msg, "o", o)
			case zapcore.FatalLevel:
				s.Fatalw(msg, "o", o)
			default:
				return false
			}
			return true
		}},
		{"zapio.Writer", func(lg *zap.Logger, _ zapcore.Core, l zapcore.Level, msg string, o countObj) bool {
			w := &zapio.Writer{Log: lg, Level: l}
			_, _ = w.Write([]byte(msg + "\n"))
			return true
		}},
		{"NewStdLogAt", func(lg *zap.Logger, _ zapcore.Core, l zapcore.Level, msg string, o countObj) bool {
			sl, err := zap.NewStdLogAt(lg, l)
			if err != nil {
				return false
			}
			sl.Print(msg)
			return true
		}},
		{"zapgrpc", func(lg *zap.Logger, _ zapcore.Core, l zapcore.Level, msg string, o countObj) bool {
			gl := zapgrpc.NewLogger(lg)
			switch l {
			case zapcore.InfoLevel:
				gl.Infoln(msg)
			case zapcore.WarnLevel:
				gl.Warning(msg)
			case zapcore.ErrorLevel:
				gl.Errorf("%s", msg)
			case zapcore.DebugLevel:
				zapgrpc.NewLogger(lg, zapgrpc.WithDebug()).Println(msg)
			default:
				return false
			}
			return true
		}},
		{"slog", func(lg *zap.Logger, core zapcore.Core, l zapcore.Level, msg string, o countObj) bool {
			var sl slog.Level
			switch l {
			case zapcore.DebugLevel:
				sl = slog.LevelDebug
			case zapcore.InfoLevel:
				sl = slog.LevelInfo + 1
			case zapcore.WarnLevel:
				sl = slog.LevelWarn
			case zapcore.ErrorLevel:
				sl = slog.LevelError + 3
			default:
				return false
			}
			slog.New(zapslog.NewHandler(core)).Log(context.Background(), sl, msg, "o", 1)
			return true
		}},
	}
}

// countValuer is a slog attribute value whose resolution is counted like a field marshaler call.
type countValuer struct{ o countObj }

func (v countValuer) LogValue() slog.Value { *v.o.n++; return slog.IntValue(1) }

func slogHandle(core zapcore.Core, l zapcore.Level, msg string, o countObj) {
	sl := map[zapcore.Level]slog.Level{zapcore.DebugLevel: slog.LevelDebug, zapcore.InfoLevel: slog.LevelInfo + 1, zapcore.WarnLevel: slog.LevelWarn, zapcore.ErrorLevel: slog.LevelError + 3}[l]
	rec := slog.NewRecord(time.Unix(1, 0), sl, msg, 0)
	rec.AddAttrs(slog.Any("o", countValuer{o}), slog.Group("g", slog.Any("v", countValuer{o})))
	_ = zapslog.NewHandler(core).Handle(context.Background(), rec)
}

type snapshot struct {
	act   []int
	hooks []int
}

func snap(env *gen.Env) snapshot {
	s := snapshot{hooks: append([]int(nil), env.HookCalls...)}
	for _, l := range env.Leaves {
		s.act = append(s.act, l.Activity())
	}
	return s
}

// judgeCall compares what one log call did with the model.
func judgeCall(env *gen.Env, root *gen.Comp, l zapcore.Level, msg string, before snapshot, marshals int) string {
	leaves, hooks := map[int]int{}, map[int]int{}
	root.DeliverCall(l, msg, leaves, hooks)
	for _, lf := range env.Leaves {
		got := lf.Got(msg)
		want := leaves[lf.ID]
		if got != want {
			return fmt.Sprintf("leaf %s#%d recorded the entry %d times, model says %d", lf.Kind, lf.ID, got, want)
		}
		if want == 0 && lf.Activity() != before.act[lf.ID] {
			return fmt.Sprintf("leaf %s#%d shows activity for an entry it must not receive", lf.Kind, lf.ID)
		}
	}
	for id := range env.HookCalls {
		if d := env.HookCalls[id] - before.hooks[id]; d != hooks[id] {
			return fmt.Sprintf("hook #%d fired %d times, model says %d", id, d, hooks[id])
		}
	}
	if len(leaves) == 0 && marshals != 0 {
		return fmt.Sprintf("a disabled entry caused %d field marshaler calls", marshals)
	}
	return ""
}

func classify(root *gen.Comp, msg string) string {
	s := root.String()
	switch {
	case contains(msg, "hook #") && contains(s, "tee(") && contains(s, "hooks#"):
		return "hooks-after-accepting-tee-branch"
	case contains(msg, "Level() reports") && contains(s, "tee("):
		return "tee-level-report"
	case contains(s, "increase[") && (contains(msg, "Enabled(") || contains(msg, "Level() reports") || contains(msg, "V(")):
		return "increase-level-report"
	}
	return "delivery"
}

func contains(s, sub string) bool {
	for i := 0; i+len(sub) <= len(s); i++ {
		if s[i:i+len(sub)] == sub {
			return true
		}
	}
	return false
}

// reportedLevels checks Enabled/Level/LevelOf/V against the model.
func reportedLevels(lg *zap.Logger, core zapcore.Core, root *gen.Comp) string {
	var e [256]bool
	anySupported, any := false, false
	for l := -128; l <= 127; l++ {
		e[l+128] = root.EnabledModel(zapcore.Level(l))
		if e[l+128] {
			any = true
			if l >= -1 && l <= 5 {
				anySupported = true
			}
		}
	}
	for l := -128; l <= 127; l++ {
		if got := core.Enabled(zapcore.Level(l)); got != e[l+128] {
			return fmt.Sprintf("Enabled(%d) = %v but an entry at that level is delivered=%v", l, got, e[l+128])
		}
	}
	for name, rl := range map[string]zapcore.Level{"Logger.Level()": lg.Level(), "LevelOf(core)": zapcore.LevelOf(core), "Sugar.Level()": lg.Sugar().Level()} {
		for l := -1; l <= 5; l++ {
			if zapcore.Level(l) < rl && e[l+128] {
				return fmt.Sprintf("%s reports %d but level %d below it is delivered", name, rl, l)
			}
		}
		if rl >= -1 && rl <= 5 && !e[int(rl)+128] {
			return fmt.Sprintf("%s reports %d (%v) but entries at that level are not delivered", name, rl, rl)
		}
		if !any && rl != zapcore.InvalidLevel {
			return fmt.Sprintf("%s reports %d although nothing is enabled (want the invalid level)", name, rl)
		}
		_ = anySupported
	}
	gl := zapgrpc.NewLogger(lg)
	for g, zl := range []zapcore.Level{zapcore.InfoLevel, zapcore.WarnLevel, zapcore.ErrorLevel, zapcore.FatalLevel} {
		if gl.V(g) != e[int(zl)+128] {
			return fmt.Sprintf("gRPC V(%d) = %v but level %v delivered=%v", g, gl.V(g), zl, e[int(zl)+128])
		}
	}
	h := zapslog.NewHandler(core)
	for _, sl := range []slog.Level{-8, -4, -1, 0, 3, 4, 7, 8, 12} {
		zl := zapcore.DebugLevel
		switch {
		case sl >= 8:
			zl = zapcore.ErrorLevel
		case sl >= 4:
			zl = zapcore.WarnLevel
		case sl >= 0:
			zl = zapcore.InfoLevel
		}
		if h.Enabled(context.Background(), sl) != e[int(zl)+128] {
			return fmt.Sprintf("slog handler Enabled(%d) disagrees with delivery at %v", sl, zl)
		}
	}
	return ""
}

// Run is the C05 monitor.
func Run(r *ev.Run) {
	r.Rule = "case i = f(seed,i): a core composition (observer/JSON/console leaves with static, atomic and arbitrary non-monotone enablers under tee, increase-level, hooks, lazy, with, pass-through and really dropping samplers (each message is then logged twice); depth <= 4 quick / 6 thorough) built together with its delivery model; every one of the 256 levels is logged through Logger.Log plus a rotating second front end; Enabled/Level/LevelOf/V/slog Enabled compared with delivery; then 3 rounds of AtomicLevel changes with re-judging; distinct = distinct composition strings; non-trivial = has a wrapper; one call in three at debug..error followed by a record given directly to the slog Handler.Handle with counting LogValuers"
	n := r.N(2500, 60000)
	fes := frontEnds()
	for i := 0; i < n; i++ {
		id := fmt.Sprintf("c05/%d", i)
		if !r.Want(id) {
			continue
		}
		g := gen.New(rng.For(r.Seed, "c05", i), gen.Opts{})
		env := &gen.Env{}
		for k := g.R.Intn(3); k > 0; k-- {
			lv := zapcore.Level(g.R.Intn(7) - 1)
			env.Atomics = append(env.Atomics, zap.NewAtomicLevelAt(lv))
			g.AtomicShadow = append(g.AtomicShadow, lv)
		}
		depth := g.R.Range(0, r.N(4, 6))
		root := g.Composition(env, depth)
		var core zapcore.Core
		if p := ev.Guard(func() { core = root.Build(env) }); p != "" {
			r.Violate(ev.Violation{Case: id, Class: "build-panic", Msg: "building the composition panicked: " + p, Witness: root.String()})
			continue
		}
		desc := root.String()
		r.Eval(1)
		shapes := map[string]int{}
		d := root.Shape(0, shapes)
		if len(shapes) > 1 {
			r.Distinct(desc)
		}
		for k := range shapes {
			r.SetAdd("wrapper_kind_x_depth", fmt.Sprintf("%s@%d", k, d))
		}
		if i < 3 {
			r.Sample(map[string]any{"composition": desc})
		}
		for _, p := range env.Problems {
			r.Violate(ev.Violation{Case: id, Class: "increase-level-construction", Msg: p, Witness: desc})
		}
		lg := zap.New(core, zap.WithPanicHook(noopHook{}), zap.WithFatalHook(noopHook{}), zap.ErrorOutput(zapcore.AddSync(discard{})))
		if g.R.P(1, 3) {
			lg = lg.Named("n").With(zap.Int("w", 1))
		}
		if g.R.P(1, 4) {
			// the logger is derived once more with the IncreaseLevel option - half of the time at exactly
			// the level the logger reports right now, where the filter changes nothing yet and must still
			// be there when a shared AtomicLevel is lowered later
			thr := zapcore.Level(g.R.Intn(7) - 1)
			if cur := lg.Level(); g.R.Bool() && cur >= zapcore.DebugLevel && cur <= zapcore.FatalLevel {
				thr = cur
			}
			inc := &gen.Comp{Kind: "increase", Enab: &gen.Enab{Kind: "static", Thr: thr}, Kids: []*gen.Comp{root}}
			inc.Collapsed = inc.IncreaseMustFail()
			lg = lg.WithOptions(zap.IncreaseLevel(thr))
			core, root, desc = lg.Core(), inc, "Logger.WithOptions(IncreaseLevel("+thr.String()+")) over "+desc
			r.Count("loggers_derived_with_the_IncreaseLevel_option", 1)
		}
		hasDrop := shapes["dropsampler"] > 0
		if hasDrop {
			r.Count("compositions_with_dropping_sampler", 1)
		}
		violated := false
		fail := func(msg string) {
			violated = true
			r.Violate(ev.Violation{Case: id, Class: classify(root, msg), Msg: msg, Witness: map[string]any{"composition": desc}})
		}
		round := func(levels []int, tag string) {
			for _, lv := range levels {
				if violated {
					return
				}
				l := zapcore.Level(lv)
				for k, fe := range []frontEnd{fes[0], fes[1+(lv+128+i)%(len(fes)-1)]} {
					msg := fmt.Sprintf("m-%d-%d-%s-%d", i, lv, tag, k)
					if hasDrop {
						// the same messages in every round: what a dropping sampler counted (or must not have
						// counted, while its core had the level disabled) in an earlier round decides this one
						msg = fmt.Sprintf("m-%d-%d-all-%d", i, lv, k)
					}
					for _, lf := range env.Leaves {
						lf.Reset()
					}
					before := snap(env)
					cnt := 0
					ok := false
					if p := ev.Guard(func() { ok = fe.emit(lg, core, l, msg, countObj{&cnt}) }); p != "" {
						fail(fmt.Sprintf("front end %s at level %d panicked: %s", fe.name, lv, p))
						return
					}
					if !ok {
						continue
					}
					r.Count("entries_judged", 1)
					r.SetAdd("front_ends", fe.name)
					if m := judgeCall(env, root, l, msg, before, cnt); m != "" {
						fail(fmt.Sprintf("level %d via %s (%s): %s", lv, fe.name, tag, m))
						return
					}
					// the same message again: a dropping sampler in the composition now declines it
					// although its level is enabled (hooks above it must stay silent)
					if hasDrop && lv >= -1 && lv <= 5 {
						for _, lf := range env.Leaves {
							lf.Reset()
						}
						before = snap(env)
						cnt = 0
						if p := ev.Guard(func() { ok = fe.emit(lg, core, l, msg, countObj{&cnt}) }); p != "" {
							fail(fmt.Sprintf("front end %s at level %d panicked on a repeated message: %s", fe.name, lv, p))
							return
						}
						r.Count("repeated_entries_judged", 1)
						// marshaler calls are not judged here: a repeat may be refused by a sampler after the level pre-check
						if m := judgeCall(env, root, l, msg, before, 0); m != "" {
							fail(fmt.Sprintf("level %d via %s (%s), same message repeated: %s", lv, fe.name, tag, m))
							return
						}
					}
					// a record handed straight to the slog handler's Handle, as a forwarding slog middleware
					// whose own Enabled says yes does: attributes of a record no core enables are not
					// resolved or converted (round 8)
					if lv >= -1 && lv <= 2 && (i+lv+k)%3 == 0 {
						msg2 := msg + "-slog-handle"
						for _, lf := range env.Leaves {
							lf.Reset()
						}
						before = snap(env)
						cnt = 0
						if p := ev.Guard(func() { slogHandle(core, l, msg2, countObj{&cnt}) }); p != "" {
							fail(fmt.Sprintf("slog Handler.Handle at level %d panicked: %s", lv, p))
							return
						}
						r.Count("entries_judged_via_direct_slog_Handle", 1)
						if m := judgeCall(env, root, l, msg2, before, cnt); m != "" {
							fail(fmt.Sprintf("level %d via slog Handler.Handle called directly (%s): %s", lv, tag, m))
							return
						}
					}
				}
			}
		}
		all := make([]int, 0, 256)
		for l := -128; l <= 127; l++ {
			all = append(all, l)
		}
		round(all, "r0")
		if !violated {
			if m := reportedLevels(lg, core, root); m != "" {
				fail(m)
			}
		}
		// AtomicLevel histories: change shared levels, every logger derived from them must follow
		for h := 1; h <= 3 && !violated && len(env.Atomics) > 0; h++ {
			for ai := range env.Atomics {
				if g.R.P(2, 3) {
					nl := zapcore.Level(g.R.Intn(9) - 2)
					if g.R.P(1, 10) {
						nl = zapcore.Level(int8(g.R.Intn(256) - 128))
					}
					// the level is changed through one of the routes a program has; every logger built
					// from this AtomicLevel earlier must follow
					route := "SetLevel"
					if nl >= zapcore.DebugLevel && nl <= zapcore.FatalLevel {
						route = rng.Pick(g.R, []string{"SetLevel", "UnmarshalText", "json.Unmarshal", "HTTP PUT"})
					}
					var rerr error
					switch route {
					case "SetLevel":
						env.Atomics[ai].SetLevel(nl)
					case "UnmarshalText":
						rerr = (&env.Atomics[ai]).UnmarshalText([]byte(nl.String()))
					case "json.Unmarshal":
						rerr = json.Unmarshal([]byte(`"`+nl.CapitalString()+`"`), &env.Atomics[ai])
					case "HTTP PUT":
						rec := httptest.NewRecorder()
						env.Atomics[ai].ServeHTTP(rec, httptest.NewRequest("PUT", "/", strings.NewReader(`{"level":"`+nl.String()+`"}`)))
						if rec.Code != 200 {
							rerr = fmt.Errorf("status %d", rec.Code)
						}
					}
					if rerr != nil {
						fail(fmt.Sprintf("changing the shared level to %v through %s failed: %v", nl, route, rerr))
						break
					}
					g.AtomicShadow[ai] = nl
					r.Count("atomic_level_changes", 1)
					r.SetAdd("level_change_routes", route)
				}
			}
			lv := []int{-128, -2, -1, 0, 1, 2, 3, 4, 5, 6, 50, 127}
			round(lv, fmt.Sprintf("h%d", h))
			if !violated {
				if m := reportedLevels(lg, core, root); m != "" {
					fail(fmt.Sprintf("after AtomicLevel change %d: %s", h, m))
				}
			}
		}
	}
	_ = time.Second
}

type discard struct{}

func (discard) Write(p []byte) (int, error) { return len(p), nil }
