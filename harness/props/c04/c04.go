// Package c04 monitors C04: concurrent logging delivers every accepted entry exactly once
// as an intact line, in per-goroutine order, to every tee branch.
//
// Observation point: the byte stream received by the underlying sink(s). Every log call
// carries a unique id; the expected bytes of every line come from issuing the same call
// sequentially on an identically configured logger.
package c04

import (
	"bytes"
	"context"
	"errors"
	"fmt"
	"log"
	"log/slog"
	"net/url"
	"os"
	"path/filepath"
	"regexp"
	"runtime"
	"sort"
	"strconv"
	"sync"
	"sync/atomic"
	"time"

	"github.com/anishathalye/porcupine"
	"go.uber.org/zap"
	"go.uber.org/zap/exp/zapslog"
	"go.uber.org/zap/internal/verifhook"
	"go.uber.org/zap/verif/internal/ev"
	"go.uber.org/zap/verif/internal/jsonv"
	"go.uber.org/zap/verif/internal/mon"
	"go.uber.org/zap/verif/internal/rng"
	"go.uber.org/zap/zapcore"
	"go.uber.org/zap/zapio"
)

// recSink is deliberately unsynchronised: it only ever sits below one of zap's own
// serialising wrappers, so a missing lock is both a race report and a corrupt stream.
type recSink struct {
	buf       []byte
	writes    int
	syncs     int
	failEvery int
}

var errSink = errors.New("c04 injected sink failure")

func (s *recSink) Write(p []byte) (int, error) {
	s.writes++
	if s.failEvery > 0 && s.writes%s.failEvery == 0 {
		return 0, errSink
	}
	s.buf = append(s.buf, p...)
	return len(p), nil
}
func (s *recSink) Sync() error { s.syncs++; s.writes += 0; _ = len(s.buf); return nil }

type constClock struct{ ticks *hticks }

var fixedTime = time.Date(2024, 2, 3, 4, 5, 6, 789000000, time.UTC)

func (c constClock) Now() time.Time { return fixedTime }
func (c constClock) NewTicker(time.Duration) *time.Ticker {
	ch := make(chan time.Time)
	c.ticks.mu.Lock()
	c.ticks.chs = append(c.ticks.chs, ch)
	c.ticks.mu.Unlock()
	return &time.Ticker{C: ch}
}

type hticks struct {
	mu  sync.Mutex
	chs []chan time.Time
}

func (h *hticks) all() []chan time.Time {
	h.mu.Lock()
	defer h.mu.Unlock()
	return append([]chan time.Time(nil), h.chs...)
}

// BranchSpec describes one tee branch.
type BranchSpec struct {
	Enc     string `json:"enc"`  // json | console
	Sink    string `json:"sink"` // lock | buffered | file | combine | failing
	BufSize int    `json:"buf_size,omitempty"`
	Warn    bool   `json:"warn_and_above,omitempty"`
	// Sampled: the branch's core sits behind a sampler that really drops (first 1, then nothing, per
	// message bucket): what it keeps depends on arrival order and is not judged; what the other
	// branches receive must not depend on its decisions
	Sampled bool `json:"sampled,omitempty"`
	Color   bool `json:"colour_level_encoder,omitempty"`
}

// Spec describes one run.
type Spec struct {
	Index    int          `json:"index"`
	NG       int          `json:"goroutines"`
	Per      int          `json:"calls_per_goroutine"`
	Branches []BranchSpec `json:"branches"`
	Caller   bool         `json:"caller"`
	Salt     uint64       `json:"salt"`
	BigEvery int          `json:"big_every"`
	StopMid  int          `json:"stop_buffered_sinks_after_us,omitempty"` // > 0: BufferedWriteSyncer.Stop is called while goroutines still log
}

func genSpec(seed int64, i int) Spec {
	g := rng.For(seed, "c04/run", i)
	s := Spec{Index: i, NG: g.Range(2, 32), Per: g.Range(5, 120), Caller: g.Bool(), Salt: g.Uint64(), BigEvery: rng.Pick(g, []int{0, 0, 17, 40})}
	if i%10 == 0 { // small history, also handed to porcupine
		s.NG, s.Per = g.Range(2, 5), g.Range(2, 6)
	}
	if s.NG*s.Per > 2400 {
		s.Per = 2400 / s.NG
	}
	nb := rng.Pick(g, []int{1, 1, 2, 2, 3})
	for b := 0; b < nb; b++ {
		bs := BranchSpec{Enc: rng.Pick(g, []string{"json", "json", "console"}), Sink: rng.Pick(g, []string{"lock", "buffered", "buffered", "file", "combine", "combine1", "open-custom", "shared-pair", "same-file-pair"})}
		if bs.Sink == "buffered" {
			bs.BufSize = rng.Pick(g, []int{64, 300, 1024, 4096, 65536})
		}
		if nb > 1 && g.P(1, 4) {
			bs.Warn = true
		}
		bs.Color = g.P(1, 3)
		s.Branches = append(s.Branches, bs)
	}
	if g.P(1, 3) {
		s.StopMid = g.Range(50, 3000)
	}
	if g.P(1, 4) {
		s.Branches = append(s.Branches, BranchSpec{Enc: "json", Sink: "lock", Sampled: true})
	}
	if nb > 1 && g.P(1, 3) { // a failing branch in front: the others must still receive everything
		s.Branches = append([]BranchSpec{{Enc: "json", Sink: "failing"}}, s.Branches...)
	}
	return s
}

type env struct {
	logger   *zap.Logger
	sugar    *zap.SugaredLogger
	std      *log.Logger
	handler  slog.Handler
	handler3 slog.Handler
	// children derived once and shared by all goroutines (first use happens concurrently)
	sharedNS, sharedRefl *zap.Logger
	// streams[b] = readers of the final bytes received by the underlying sink(s) of branch b
	streams [][]func() []byte
	bws     []*zapcore.BufferedWriteSyncer
	ticks   *hticks
	cleanup []func()
}

func encoder(kind string, colour bool) zapcore.Encoder {
	c := zap.NewProductionEncoderConfig()
	c.EncodeTime = zapcore.ISO8601TimeEncoder
	// stack traces are captured (from error level upwards, and for the unnamed levels) but have no key:
	// they cost what they always cost and leave the one-line-per-entry streams comparable
	c.StacktraceKey = ""
	if colour {
		c.EncodeLevel = zapcore.CapitalColorLevelEncoder
		if kind != "console" {
			c.EncodeLevel = zapcore.LowercaseColorLevelEncoder
		}
	}
	if kind == "console" {
		return zapcore.NewConsoleEncoder(c)
	}
	return zapcore.NewJSONEncoder(c)
}

var fileSeq atomic.Int64

// custom sinks opened through zap.Open: the factory hands out the recording sink registered
// under the URL's host name.
var (
	customSinks    sync.Map
	customOnce     sync.Once
	customSchemeID string
)

type closableSink struct{ *recSink }

func (closableSink) Close() error { return nil }

func customScheme() string {
	customOnce.Do(func() {
		customSchemeID = fmt.Sprintf("c04s%d", os.Getpid())
		_ = zap.RegisterSink(customSchemeID, func(u *url.URL) (zap.Sink, error) {
			v, ok := customSinks.Load(u.Host)
			if !ok {
				return nil, fmt.Errorf("unknown custom sink %q", u.Host)
			}
			return closableSink{v.(*recSink)}, nil
		})
	})
	return customSchemeID
}

// build constructs the logger of a spec. In reference mode every sink is a plain
// recording sink (same encoders, same levels) and the logger is used sequentially.
func build(s Spec, reference bool) (*env, error) {
	e := &env{ticks: &hticks{}}
	clk := constClock{e.ticks}
	var cores []zapcore.Core
	for _, b := range s.Branches {
		var ws zapcore.WriteSyncer
		var readers []func() []byte
		kind := b.Sink
		if reference && kind != "shared-pair" && kind != "same-file-pair" {
			kind = "lock"
		}
		switch kind {
		case "lock", "failing":
			rs := &recSink{}
			if kind == "failing" {
				rs.failEvery = 3
			}
			ws = zapcore.Lock(rs)
			readers = append(readers, func() []byte { return rs.buf })
		case "buffered":
			rs := &recSink{}
			bw := &zapcore.BufferedWriteSyncer{WS: rs, Size: b.BufSize, FlushInterval: time.Hour, Clock: clk}
			e.bws = append(e.bws, bw)
			ws = bw
			readers = append(readers, func() []byte { return rs.buf })
		case "file":
			path := filepath.Join(ev.WorkDir(), fmt.Sprintf("c04-%d-%d.log", os.Getpid(), fileSeq.Add(1)))
			w, closeFn, err := zap.Open("file://" + path)
			if err != nil {
				return nil, err
			}
			ws = w
			e.cleanup = append(e.cleanup, func() { closeFn(); os.Remove(path) })
			readers = append(readers, func() []byte { b, _ := os.ReadFile(path); return b })
		case "combine":
			a, c := &recSink{}, &recSink{}
			ws = zap.CombineWriteSyncers(a, c)
			readers = append(readers, func() []byte { return a.buf }, func() []byte { return c.buf })
		case "combine1":
			// a single writer: the result is documented as safe for concurrent use all the same
			a := &recSink{}
			ws = zap.CombineWriteSyncers(a)
			readers = append(readers, func() []byte { return a.buf })
		case "open-custom":
			// exactly one path, a custom (unsynchronised) sink: Open's result must serialise the writes
			rs := &recSink{}
			name := fmt.Sprintf("c04-%d-%d", os.Getpid(), fileSeq.Add(1))
			customSinks.Store(name, rs)
			w, closeFn, err := zap.Open(customScheme() + "://" + name)
			if err != nil {
				return nil, err
			}
			ws = w
			e.cleanup = append(e.cleanup, closeFn)
			readers = append(readers, func() []byte { return rs.buf })
		}
		lvl := zapcore.InfoLevel
		if b.Warn {
			lvl = zapcore.WarnLevel
		}
		if b.Sink == "same-file-pair" {
			// two cores, each with its own zap.Open of one and the same file (two descriptors): the file
			// must end up with every line of both (every entry twice), none overwritten by the other
			path := filepath.Join(ev.WorkDir(), fmt.Sprintf("c04-pair-%d-%d.log", os.Getpid(), fileSeq.Add(1)))
			w1, close1, err := zap.Open(path)
			if err != nil {
				return nil, err
			}
			w2, close2, err := zap.Open("file://" + path)
			if err != nil {
				close1()
				return nil, err
			}
			e.cleanup = append(e.cleanup, func() { close1(); close2(); os.Remove(path) })
			cores = append(cores, zapcore.NewCore(encoder(b.Enc, b.Color), w1, lvl), zapcore.NewCore(encoder(b.Enc, b.Color), w2, lvl))
			e.streams = append(e.streams, []func() []byte{func() []byte { b, _ := os.ReadFile(path); return b }})
			continue
		}
		if b.Sink == "shared-pair" {
			// one locked sink used by a core on its own AND, through CombineWriteSyncers, by a second
			// core: every line of both cores must still arrive intact at the shared sink (twice per
			// entry), which needs one and the same lock on both paths
			sharedSink, other := &recSink{}, &recSink{}
			shared := zapcore.Lock(sharedSink)
			cores = append(cores, zapcore.NewCore(encoder(b.Enc, b.Color), shared, lvl), zapcore.NewCore(encoder(b.Enc, b.Color), zap.CombineWriteSyncers(shared, other), lvl))
			e.streams = append(e.streams, []func() []byte{func() []byte { return sharedSink.buf }, func() []byte { return other.buf }})
			continue
		}
		if b.Sampled {
			cores = append(cores, zapcore.NewSamplerWithOptions(zapcore.NewCore(encoder(b.Enc, b.Color), ws, lvl), time.Hour, 1, 0))
		} else {
			cores = append(cores, zapcore.NewCore(encoder(b.Enc, b.Color), ws, lvl))
		}
		e.streams = append(e.streams, readers)
	}
	var core zapcore.Core
	if len(cores) == 1 {
		core = cores[0]
	} else {
		core = zapcore.NewTee(cores...)
	}
	opts := []zap.Option{zap.WithClock(clk), zap.ErrorOutput(zapcore.Lock(&recSink{})), zap.AddStacktrace(zapcore.ErrorLevel)}
	if s.Caller {
		opts = append(opts, zap.AddCaller())
	}
	e.logger = zap.New(core, opts...)
	e.sugar = e.logger.Sugar()
	e.std = zap.NewStdLog(e.logger)
	e.handler = zapslog.NewHandler(core, zapslog.WithName("slog"))
	// a handler with three pending groups, shared by all goroutines
	e.handler3 = e.handler.WithGroup("a").WithGroup("b").WithGroup("c")
	e.sharedNS = e.logger.With(zap.String("shared", "ns"), zap.Namespace("ns"))
	e.sharedRefl = e.logger.With(zap.Reflect("settings", settings{"shared", []int{80}, map[string]string{"k": "v"}}), zap.Namespace("r"))
	return e, nil
}

type errGroup struct{ causes []error }

func (g errGroup) Error() string   { return fmt.Sprintf("group of %d", len(g.causes)) }
func (g errGroup) Errors() []error { return g.causes }

type obj struct{ g, s int }

func (o obj) MarshalLogObject(enc zapcore.ObjectEncoder) error {
	enc.AddInt("g", o.g)
	enc.OpenNamespace("inner")
	enc.AddInt("s", o.s)
	return nil
}

func mix(salt uint64, gi, seq int) uint64 {
	x := salt ^ uint64(gi)*0x9E3779B97F4A7C15 ^ uint64(seq)*0xBF58476D1CE4E5B9
	x ^= x >> 31
	x *= 0x94D049BB133111EB
	x ^= x >> 29
	return x
}

var payloadLens = []int{0, 3, 40, 200, 900, 1020, 1100, 2500}

func payload(h uint64, big bool) string {
	n := payloadLens[int(h>>8)%len(payloadLens)]
	if big {
		n = 70000
	}
	b := make([]byte, n)
	for i := range b {
		b[i] = byte('a' + (int(h)+i)%26)
	}
	return string(b)
}

const nKinds = 20

var kindNames = []string{"Logger.Info", "Logger.Warn", "Logger.Debug(disabled)", "Check+Write", "Sugar.Infow", "Sugar.Infof", "Sugar.Infoln", "std-log.Print", "zapio.Writer", "slog.Handle", "With-child.Error", "Named.Info", "WithLazy-child.Info", "Logger.Info(reflect,error)", "Sugar.With.Warnw", "With-child(open namespace).Warn(no fields)", "With-child(reflected context).Info(reflect)", "With-child(reflected context).Warn(no fields)", "Logger.Log(level outside debug..fatal)", "shared With-child(reflected context).With(reflected).Info"}

type wctx struct {
	child *zap.Logger
	lazy  *zap.Logger
	refl  *zap.Logger
}

type settings struct {
	Name  string
	Ports []int
	Tags  map[string]string
}

// emit issues call (gi, seq). Its content is a pure function of (spec, gi, seq), so the
// same function run sequentially on a reference logger yields the expected bytes.
func emit(e *env, s *Spec, c *wctx, gi, seq int) int {
	h := mix(s.Salt, gi, seq)
	kind := int(h % nKinds)
	big := s.BigEvery > 0 && (gi*131+seq)%s.BigEvery == 0
	id := "<" + strconv.Itoa(gi) + "." + strconv.Itoa(seq) + ">"
	p := payload(h, big)
	msg := id + " " + p[:len(p)/8]
	switch kind {
	case 0:
		e.logger.Info(msg, zap.Int("g", gi), zap.Int("s", seq), zap.String("p", p))
	case 1:
		e.logger.Warn(msg, zap.String("p", p), zap.Strings("arr", []string{"x", id}))
	case 2:
		e.logger.Debug(msg, zap.String("p", p))
	case 3:
		if ce := e.logger.Check(zapcore.InfoLevel, msg); ce != nil {
			ce.Write(zap.Object("o", obj{gi, seq}), zap.String("p", p))
		}
	case 4:
		e.sugar.Infow(msg, "g", gi, "p", p)
	case 5:
		e.sugar.Infof("%s %s", id, p)
	case 6:
		e.sugar.Infoln(id, p)
	case 7:
		e.std.Print(msg)
	case 8:
		w := &zapio.Writer{Log: e.logger, Level: zapcore.InfoLevel}
		_, _ = w.Write([]byte(msg[:len(msg)/2]))
		_, _ = w.Write([]byte(msg[len(msg)/2:] + "\n"))
		_ = w.Close()
	case 9:
		rec := slog.NewRecord(fixedTime, slog.LevelInfo, msg, 0)
		rec.AddAttrs(slog.Int("g", gi), slog.Group("grp", slog.String("p", p)))
		if seq%2 == 1 {
			_ = e.handler3.Handle(context.Background(), rec)
			break
		}
		_ = e.handler.Handle(context.Background(), rec)
	case 10:
		if c.child == nil {
			c.child = e.logger.With(zap.Int("child_of", gi), zap.Namespace("ns"))
		}
		c.child.Error(msg, zap.String("p", p))
	case 11:
		e.logger.Named("n"+strconv.Itoa(gi)).Info(msg, zap.String("p", p))
	case 12:
		if c.lazy == nil {
			c.lazy = e.logger.WithLazy(zap.Object("lazy", obj{gi, 0}))
		}
		c.lazy.Info(msg, zap.String("p", p))
	case 13:
		// error groups: one with a single cause, one with several (their elements are pooled)
		e.logger.Info(msg, zap.Reflect("r", map[string]int{"g": gi}), zap.Error(fmt.Errorf("err %s", id)), zap.Errors("es", []error{errSink, errSink}),
			zap.NamedError("lone", errGroup{[]error{fmt.Errorf("lone cause %s", id)}}), zap.NamedError("many", errGroup{[]error{fmt.Errorf("cause a %s", id), nil, fmt.Errorf("cause b %s", id)}}))
	case 14:
		e.sugar.With("w", gi).Warnw(msg, "p", p)
	case 15:
		// no call-site fields on a child whose context ends inside an open namespace; every other
		// time through a child that all goroutines share
		if seq%2 == 0 {
			e.sharedNS.Warn(msg)
			break
		}
		if c.child == nil {
			c.child = e.logger.With(zap.Int("child_of", gi), zap.Namespace("ns"))
		}
		c.child.Warn(msg)
	case 18:
		// a level with no name of its own (above fatal, so every branch enables it)
		e.logger.Log(zapcore.Level(7+int(h>>20)%100), msg, zap.String("p", p))
	case 19:
		// siblings derived at the same moment from the shared child whose context holds a reflected value,
		// each adding a reflected value of its own
		e.sharedRefl.With(zap.Reflect("mine", []string{id, "y"})).Info(msg, zap.String("p", p))
	default:
		// a child whose accumulated context holds a reflection-encoded value
		if c.refl == nil {
			c.refl = e.logger.With(zap.Reflect("settings", settings{"svc", []int{gi, 80}, map[string]string{"g": id}}), zap.Int("child_of", gi))
		}
		l := c.refl
		if seq%2 == 0 {
			l = e.sharedRefl
		}
		if kind == 16 {
			l.Info(msg, zap.Reflect("r", []string{id, "x"}), zap.String("p", p))
		} else {
			l.Warn(msg)
		}
	}
	return kind
}

var idRe = regexp.MustCompile(`<(\d+)\.(\d+)>`)

type lineInfo struct {
	gi, seq int
	off     int
}

// parseStream splits a stream into lines and identifies each line's entry.
func parseStream(stream []byte) (ids []lineInfo, lines [][]byte, bad string) {
	off := 0
	for off < len(stream) {
		nl := bytes.IndexByte(stream[off:], '\n')
		if nl < 0 {
			return ids, lines, fmt.Sprintf("the stream ends with an incomplete line: %q", clip(stream[off:]))
		}
		line := stream[off : off+nl+1]
		m := idRe.FindSubmatch(line)
		if m == nil {
			return ids, lines, fmt.Sprintf("line at offset %d carries no entry id (torn or corrupt): %q", off, clip(line))
		}
		gi, _ := strconv.Atoi(string(m[1]))
		seq, _ := strconv.Atoi(string(m[2]))
		ids = append(ids, lineInfo{gi, seq, off})
		lines = append(lines, line)
		off += nl + 1
	}
	return ids, lines, ""
}

func clip(b []byte) []byte {
	if len(b) > 160 {
		return append(append([]byte{}, b[:100]...), append([]byte(" ... "), b[len(b)-50:]...)...)
	}
	return b
}

type stamp struct{ t0, t1 int64 }

// logModel is the sequential specification handed to porcupine: an append-only log whose
// append returns the position the entry took (read off the sink stream, so the history is
// unambiguous and the search is linear).
var logModel = porcupine.Model{
	Init: func() interface{} { return 0 },
	Step: func(state, input, output interface{}) (bool, interface{}) {
		return output.(int) == state.(int), state.(int) + 1
	},
	DescribeOperation: func(input, output interface{}) string {
		return fmt.Sprintf("append %s -> position %d", input.(string), output.(int))
	},
}

var hits [3]atomic.Int64

func installPerturb(tracing bool) {
	verifhook.Set(func(name string) {
		if tracing {
			switch name {
			case "iocore.write.encoded":
				hits[0].Add(1)
			case "iocore.write.written":
				hits[1].Add(1)
			case "bws.loop.tick_received":
				hits[2].Add(1)
			}
		}
		t := time.Now().UnixNano()
		switch {
		case (t>>4)&3 == 0:
			runtime.Gosched()
		case (t>>6)&63 == 0:
			time.Sleep(20 * time.Microsecond)
		}
	})
}

// runOne executes run i concurrently and judges the sink streams. false = hung.
func runOne(r *ev.Run, i int) bool {
	s := genSpec(r.Seed, i)
	id := fmt.Sprintf("c04/run/%d", i)
	installPerturb(i%8 == 0)
	fail := func(class, msg string, extra map[string]any) {
		w := map[string]any{"spec": s}
		for k, v := range extra {
			w[k] = v
		}
		r.Violate(ev.Violation{Case: id, Class: class, Msg: fmt.Sprintf("goroutines=%d x %d calls, branches=%+v: %s", s.NG, s.Per, s.Branches, msg), Witness: w})
	}
	// reference: the same calls, sequentially, on plain sinks
	ref, err := build(s, true)
	if err != nil {
		r.Inconclusive(id + ": cannot build reference: " + err.Error())
		return true
	}
	for gi := 0; gi < s.NG; gi++ {
		c := &wctx{}
		for seq := 0; seq < s.Per; seq++ {
			emit(ref, &s, c, gi, seq)
		}
	}
	_ = ref.logger.Sync()
	type streamExp struct {
		line  map[[2]int][]byte
		count map[[2]int]int
	}
	expected := make([][]streamExp, len(s.Branches))
	for b := range s.Branches {
		for rsi := range ref.streams[b] {
			se := streamExp{map[[2]int][]byte{}, map[[2]int]int{}}
			refStream := ref.streams[b][rsi]()
			if k := bytes.IndexByte(refStream, 0xDB); k >= 0 {
				lo := k - 80
				if lo < 0 {
					lo = 0
				}
				fail("poison", fmt.Sprintf("branch %d: freed-buffer poison (0xDB) reached the sink even with a single goroutine: a pooled buffer was read after it was returned to the pool: %q", b, clip(refStream[lo:])), nil)
				return true
			}
			ids, lines, bad := parseStream(refStream)
			if bad != "" {
				// one goroutine is the smallest instance of "any number of goroutines"
				fail("sequential-corrupt", fmt.Sprintf("branch %d: with a single goroutine the sink stream is already not one intact line per entry: %s", b, bad), nil)
				return true
			}
			mult := 1
			if (s.Branches[b].Sink == "shared-pair" || s.Branches[b].Sink == "same-file-pair") && rsi == 0 {
				mult = 2
			}
			for k, li := range ids {
				key := [2]int{li.gi, li.seq}
				if prev, dup := se.line[key]; dup && (se.count[key] >= mult || !bytes.Equal(prev, lines[k])) {
					fail("duplicate", fmt.Sprintf("branch %d: with a single goroutine entry <%d.%d> reached the sink %d times", b, li.gi, li.seq, se.count[key]+1), nil)
					return true
				}
				se.line[key] = lines[k]
				se.count[key]++
			}
			if mult == 2 {
				for key, n := range se.count {
					if n != 2 {
						fail("sequential-lost", fmt.Sprintf("branch %d (%s): two cores write to one sink, yet with a single goroutine entry <%d.%d> is there %d times instead of twice: one core's line was lost or overwritten", b, s.Branches[b].Sink, key[0], key[1], n), nil)
						return true
					}
				}
			}
			expected[b] = append(expected[b], se)
		}
	}
	// concurrent execution
	e, err := build(s, false)
	if err != nil {
		r.Inconclusive(id + ": cannot build: " + err.Error())
		return true
	}
	defer func() {
		for _, f := range e.cleanup {
			f()
		}
	}()
	stamps := make([][]stamp, s.NG)
	kindsUsed := make([][]int, s.NG)
	panics := make([]string, s.NG)
	startCh := make(chan struct{})
	var wg sync.WaitGroup
	start := time.Now()
	for gi := 0; gi < s.NG; gi++ {
		wg.Add(1)
		go func(gi int) {
			defer wg.Done()
			defer func() {
				if x := recover(); x != nil {
					panics[gi] = fmt.Sprint(x)
				}
			}()
			c := &wctx{}
			st := make([]stamp, 0, s.Per)
			ks := make([]int, 0, s.Per)
			<-startCh
			for seq := 0; seq < s.Per; seq++ {
				t0 := time.Since(start).Nanoseconds()
				k := emit(e, &s, c, gi, seq)
				st = append(st, stamp{t0, time.Since(start).Nanoseconds()})
				ks = append(ks, k)
			}
			stamps[gi], kindsUsed[gi] = st, ks
		}(gi)
	}
	var stop atomic.Bool
	auxDone := make(chan struct{}, 2)
	go func() { // harness flush ticks
		defer func() { auxDone <- struct{}{} }()
		for !stop.Load() {
			for _, ch := range e.ticks.all() {
				select {
				case ch <- fixedTime:
				default:
				}
			}
			time.Sleep(100 * time.Microsecond)
		}
	}()
	go func() { // concurrent Sync calls
		defer func() { auxDone <- struct{}{} }()
		for !stop.Load() {
			_ = e.logger.Sync()
			time.Sleep(150 * time.Microsecond)
		}
	}()
	if s.StopMid > 0 && len(e.bws) > 0 {
		// Stop while loggers are still active: later entries stay buffered until the final Sync, and
		// nothing may overtake what is already buffered
		go func() {
			<-startCh
			time.Sleep(time.Duration(s.StopMid) * time.Microsecond)
			for _, b := range e.bws {
				_ = b.Stop()
			}
		}()
		r.Count("runs_with_stop_during_logging", 1)
	}
	finished := make(chan struct{})
	go func() { wg.Wait(); close(finished) }()
	close(startCh)
	// stuck decides between "deadlocked" (violation) and "slow" (inconclusive) by quiescence: two
	// goroutine dumps apart, every goroutine of this run blocked with an unchanged stack
	stuck := func(what string) bool {
		stop.Store(true)
		for k := 0; k < 2; k++ {
			select {
			case <-auxDone: // helper goroutines may themselves be stuck inside zap (a Sync waiting for a lock never released)
			case <-time.After(3 * time.Second):
			}
		}
		time.Sleep(500 * time.Millisecond)
		d1 := mon.Stacks()
		time.Sleep(1500 * time.Millisecond)
		d2 := mon.Stacks()
		if mon.Quiescent(d1, d2, "c04.runOne.func", "BufferedWriteSyncer", "lockedWriteSyncer") {
			fail("deadlock", what+": every goroutine of the run is blocked with an unchanged stack and no harness event is pending", map[string]any{"dump": clipS(d2, 6000)})
		} else {
			r.Inconclusive(id + ": " + what + ", but goroutines are still moving")
		}
		return false
	}
	select {
	case <-finished:
	case <-time.After(120 * time.Second):
		return stuck("concurrent logging did not finish")
	}
	stop.Store(true)
	finalDone := make(chan struct{})
	go func() {
		<-auxDone
		<-auxDone
		_ = e.logger.Sync()
		for _, b := range e.bws {
			_ = b.Stop()
		}
		close(finalDone)
	}()
	select {
	case <-finalDone:
	case <-time.After(60 * time.Second):
		return stuck("the final Sync/Stop after all log calls returned did not finish")
	}
	r.Eval(1)
	r.Distinct(fmt.Sprintf("%d|%d|%d|%v", i, s.NG, s.Per, s.Branches))
	for gi, p := range panics {
		if p != "" {
			fail("panic", fmt.Sprintf("goroutine %d panicked while logging: %s", gi, p), nil)
			return true
		}
	}
	issued := 0
	for gi := range kindsUsed {
		for _, k := range kindsUsed[gi] {
			r.SetAdd("front_ends", kindNames[k])
			issued++
		}
	}
	r.Count("entries_issued", int64(issued))
	for b, bs := range s.Branches {
		r.SetAdd("sink_kinds", bs.Sink+"/"+bs.Enc)
		if bs.Sink == "failing" {
			r.Count("runs_with_failing_first_branch", 1)
			continue // its own content is not judged; the branches after it are
		}
		if bs.Sampled {
			r.Count("runs_with_dropping_sampled_last_branch", 1)
			continue
		}
		if bs.Sink == "combine" {
			// one locked writer over two sinks: every write reaches both before the next one starts, so the
			// two streams are the same bytes in the same order
			a, c := e.streams[b][0](), e.streams[b][1]()
			r.Count("combined_sink_pairs_compared", 1)
			if !bytes.Equal(a, c) {
				k := 0
				for k < len(a) && k < len(c) && a[k] == c[k] {
					k++
				}
				fail("combined-sinks-differ", fmt.Sprintf("branch %d (CombineWriteSyncers over two sinks): the two sinks hold different streams (%d and %d bytes, first difference at offset %d): writes by different goroutines reached them in different orders", b, len(a), len(c), k), nil)
				return true
			}
		}
		for si, rd := range e.streams[b] {
			stream := rd()
			where := fmt.Sprintf("branch %d (%s/%s) stream %d", b, bs.Sink, bs.Enc, si)
			if bytes.IndexByte(stream, 0xDB) >= 0 {
				k := bytes.IndexByte(stream, 0xDB)
				lo := k - 80
				if lo < 0 {
					lo = 0
				}
				fail("poison", where+": freed-buffer poison (0xDB) reached the sink: a pooled buffer was read after it was returned to the pool: "+fmt.Sprintf("%q", clip(stream[lo:])), nil)
				return true
			}
			ids, lines, bad := parseStream(stream)
			if bad != "" {
				fail("torn-line", where+": "+bad, nil)
				return true
			}
			seen := map[[2]int]int{}
			lastSeq := map[int]int{}
			switches := 0
			se := expected[b][0]
			if si < len(expected[b]) {
				se = expected[b][si]
			}
			for k, li := range ids {
				key := [2]int{li.gi, li.seq}
				exp, ok := se.line[key]
				if !ok {
					fail("unexpected-line", fmt.Sprintf("%s: a line for entry <%d.%d> reached the sink although that call is not accepted by this branch (or the id is corrupt): %q", where, li.gi, li.seq, clip(lines[k])), nil)
					return true
				}
				if !bytes.Equal(exp, lines[k]) {
					msg := fmt.Sprintf("%s: the line of entry <%d.%d> differs from the bytes the same call produces sequentially (torn, interleaved, merged or corrupted):\n got  %q\n want %q", where, li.gi, li.seq, clip(lines[k]), clip(exp))
					if bs.Enc == "json" {
						if _, jerr, _ := jsonv.CheckLine(lines[k], "\n"); jerr != nil {
							msg += "\n (not a valid JSON line: " + jerr.Error() + ")"
						}
					}
					fail("corrupt-line", msg, nil)
					return true
				}
				seen[key]++
				if seen[key] > se.count[key] {
					fail("duplicate", fmt.Sprintf("%s: entry <%d.%d> appears %d times (want %d)", where, li.gi, li.seq, seen[key], se.count[key]), nil)
					return true
				}
				if last, ok := lastSeq[li.gi]; ok && (li.seq < last || (li.seq == last && se.count[key] == 1)) {
					fail("order", fmt.Sprintf("%s: entries of goroutine %d are out of order: <%d.%d> after <%d.%d>", where, li.gi, li.gi, li.seq, li.gi, last), nil)
					return true
				}
				lastSeq[li.gi] = li.seq
				if k > 0 && ids[k-1].gi != li.gi {
					switches++
				}
			}
			for key, want := range se.count {
				if seen[key] < want {
					fail("lost", fmt.Sprintf("%s: accepted entry <%d.%d> reached the sink %d times, want %d (Sync and Stop completed)", where, key[0], key[1], seen[key], want), nil)
					return true
				}
			}
			// real-time order: if A returned before B was invoked, A precedes B in a serialised sink
			minT1 := int64(1 << 62)
			var minAt lineInfo
			for k := len(ids) - 1; k >= 0; k-- {
				st := stamps[ids[k].gi][ids[k].seq]
				if minT1 < st.t0 {
					fail("realtime-order", fmt.Sprintf("%s: entry <%d.%d> returned before <%d.%d> was invoked, yet appears after it in the sink", where, minAt.gi, minAt.seq, ids[k].gi, ids[k].seq), nil)
					return true
				}
				if st.t1 < minT1 {
					minT1, minAt = st.t1, ids[k]
				}
			}
			r.Count("lines_compared_bytewise", int64(len(ids)))
			r.Count("bytes_compared", int64(len(stream)))
			r.Count("goroutine_switches_in_streams", int64(switches))
			oh := uint64(14695981039346656037)
			for _, li := range ids {
				oh = (oh ^ uint64(li.gi*100003+li.seq)) * 1099511628211
			}
			r.SetAdd("distinct_sink_orders", strconv.FormatUint(oh, 36))
			if len(ids) > 0 && len(ids) <= 400 && si == 0 && bs.Sink != "shared-pair" && bs.Sink != "same-file-pair" {
				porcupineCheck(r, id, where, ids, stamps, fail)
			}
		}
	}
	if len(s.Branches) > 1 {
		r.Count("tee_runs", 1)
	}
	if i < 2 {
		r.Sample(map[string]any{"spec": s, "entries_issued": issued})
	}
	return true
}

func porcupineCheck(r *ev.Run, id, where string, ids []lineInfo, stamps [][]stamp, fail func(string, string, map[string]any)) {
	var ops []porcupine.Operation
	var order []string
	for pos, li := range ids {
		st := stamps[li.gi][li.seq]
		name := fmt.Sprintf("%d.%d", li.gi, li.seq)
		ops = append(ops, porcupine.Operation{ClientId: li.gi, Input: name, Call: st.t0, Output: pos, Return: st.t1})
		order = append(order, name)
	}
	res, _ := porcupine.CheckOperationsVerbose(logModel, ops, 20*time.Second)
	switch res {
	case porcupine.Ok:
		r.Count("porcupine_histories_linearizable", 1)
		r.Count("porcupine_operations", int64(len(ops)))
	case porcupine.Unknown:
		r.Count("porcupine_unknown", 1)
		r.Inconclusive(id + ": porcupine timed out")
	default:
		fail("not-linearizable", where+": porcupine finds no linearization of the log calls (append-only log model) that yields the observed sink order", map[string]any{"sink_order": order})
	}
}

func clipS(s string, n int) string {
	if len(s) > n {
		return s[:n]
	}
	return s
}

// Child runs runs [lo,hi) in the race build.
func Child(r *ev.Run, args []string) {
	var lo, hi int
	fmt.Sscanf(args[0], "%d", &lo)
	fmt.Sscanf(args[1], "%d", &hi)
	defer verifhook.Set(nil)
	for i := lo; i < hi; i++ {
		if !runOne(r, i) {
			break
		}
	}
	names := []string{"iocore.write.encoded", "iocore.write.written", "bws.loop.tick_received"}
	for k, n := range names {
		r.Count("hook_hits_in_tracing_runs:"+n, hits[k].Load())
	}
}

// Run is the C04 monitor (parent).
func Run(r *ev.Run) {
	r.Rule = "run i = f(seed,i): 2-32 goroutines x 5-120 calls, each call a pure function of (run, goroutine, sequence number): one of 15 front ends (Logger methods, Check+Write, Sugar w/f/ln, std-log bridge, zapio.Writer, slog handler, With/WithLazy/Named children created concurrently), payloads 0 B-70 KB (crossing the 1 KiB pooled buffer and the BufferedWriteSyncer size), unique id in the message; shared core = 1-3 tee branches of JSON/console over Lock(sink), BufferedWriteSyncer (64 B-64 KiB) with harness ticks and concurrent Sync, zap.Open file, CombineWriteSyncers, optionally a failing branch in front; sinks below zap's locks are unsynchronised; race build with quiet perturbation; every received line is compared byte-for-byte with the line the same call yields sequentially; distinct = distinct run specs"
	total := r.N(200, 4000)
	batch := r.N(20, 200)
	type job struct{ lo, hi int }
	jobs := make(chan job)
	var wg sync.WaitGroup
	for p := 0; p < 4; p++ {
		wg.Add(1)
		go func() {
			defer wg.Done()
			for j := range jobs {
				o := mon.ChildOpts{Race: true, Prop: "C04", Args: []string{fmt.Sprint(j.lo), fmt.Sprint(j.hi)}, Timeout: 30 * time.Minute, CrashIsViolation: true, Env: []string{"GOMAXPROCS=8"}}
				oc := mon.RunChild(r, o)
				mon.Judge(r, o, oc, fmt.Sprintf("c04/batch/%d-%d", j.lo, j.hi))
			}
		}()
	}
	if r.Only != "" {
		var lo, hi int
		if n, _ := fmt.Sscanf(r.Only, "c04/batch/%d-%d", &lo, &hi); n != 2 {
			fmt.Sscanf(r.Only, "c04/run/%d", &lo)
			hi = lo + 1
		}
		for k := 0; k < 20; k++ {
			jobs <- job{lo, hi}
		}
	} else {
		for lo := 0; lo < total; lo += batch {
			hi := lo + batch
			if hi > total {
				hi = total
			}
			jobs <- job{lo, hi}
		}
	}
	close(jobs)
	wg.Wait()
	r.Extra("distinct_sink_orders_seen", r.SetLen("distinct_sink_orders"))
	// the set itself is large; keep only its size in the evidence
	if r.Only == "" && r.Violations() == 0 {
		if r.Counter("lines_compared_bytewise") < 1000 || r.Counter("goroutine_switches_in_streams") < 100 {
			r.Incomplete("too few lines or too little interleaving observed")
		}
		for _, p := range []string{"iocore.write.encoded", "iocore.write.written", "bws.loop.tick_received"} {
			if r.Counter("hook_hits_in_tracing_runs:"+p) == 0 {
				r.Incomplete("perturbation point " + p + " was never reached")
			}
		}
	}
	_ = sort.Strings
}
