// Package c03 monitors C03: constructors and zap.Any deliver exactly the value
// given; Field.Equals is reflexive, symmetric and never panics.
package c03

import (
	"errors"
	"fmt"
	"go/ast"
	"go/parser"
	"go/token"
	"math"
	"os"
	"reflect"
	"sort"
	"time"

	"go.uber.org/zap"
	"go.uber.org/zap/exp/zapfield"
	"go.uber.org/zap/verif/internal/ev"
	"go.uber.org/zap/verif/internal/gen"
	"go.uber.org/zap/verif/internal/rec"
	"go.uber.org/zap/verif/internal/rng"
	"go.uber.org/zap/zapcore"
)

// built is one constructed field with its expectation.
type built struct {
	f       zapcore.Field
	again   func() zapcore.Field // independently re-built from equal inputs
	want    []rec.Call
	anyF    *zapcore.Field // zap.Any(key, v) when the row's type is supported by Any
	anyAlt  *zapcore.Field // a second typed constructor that corresponds equally well (either accepted)
	desc    string
	noRefl  bool            // payload not equal to itself under the documented comparison (excluded from reflexivity only)
	after   func() string   // optional extra judgement after AddTo ("" = fine)
	related []zapcore.Field // fields that are close to f (same key, wrapped/wrapping payload): symmetry is judged against them
	boundry bool
	restore func() // undoes what the row changed in the process (run right after the field was encoded)
}

type row struct {
	name string
	make func(g *gen.G, key string) built
}

func call(kind, key string, v any) []rec.Call { return []rec.Call{{Kind: kind, Key: key, Val: v}} }

func scalar[T any](name string, ctor func(string, T) zapcore.Field, genv func(*gen.G) T, kind string, conv func(T) any) row {
	return row{name, func(g *gen.G, key string) built {
		v := genv(g)
		a := zap.Any(key, v)
		return built{f: ctor(key, v), again: func() zapcore.Field { return ctor(key, v) }, want: call(kind, key, conv(v)), anyF: &a, desc: fmt.Sprintf("%s(%q, %v)", name, key, any(v))}
	}}
}

func pointer[T any](name string, ctor func(string, *T) zapcore.Field, genv func(*gen.G) T, kind string, conv func(T) any) row {
	return row{name, func(g *gen.G, key string) built {
		if g.R.P(1, 3) {
			a := zap.Any(key, (*T)(nil))
			return built{f: ctor(key, nil), again: func() zapcore.Field { return ctor(key, nil) }, want: call("reflected", key, nil), anyF: &a, desc: fmt.Sprintf("%s(%q, nil)", name, key)}
		}
		v := genv(g)
		v2 := v
		a := zap.Any(key, &v)
		return built{f: ctor(key, &v), again: func() zapcore.Field { return ctor(key, &v2) }, want: call(kind, key, conv(v)), anyF: &a, desc: fmt.Sprintf("%s(%q, &%v)", name, key, any(v))}
	}}
}

func slice[T any](name string, ctor func(string, []T) zapcore.Field, genv func(*gen.G) T, kind string, conv func(T) any, anyable bool) row {
	return row{name, func(g *gen.G, key string) built {
		var vs []T
		switch g.R.Intn(6) {
		case 0: // nil
		case 1:
			vs = []T{}
		default:
			n := g.R.Intn(6) + 1
			vs = make([]T, n, n+g.R.Intn(3)) // spare capacity: aliasing is observed, not judged
			for i := range vs {
				vs[i] = genv(g)
			}
		}
		sub := []rec.Call{}
		for _, v := range vs {
			sub = append(sub, rec.Call{Kind: kind, Val: conv(v)})
		}
		cp := clone(vs)
		before := fmt.Sprintf("%#v", vs)
		b := built{f: ctor(key, vs), again: func() zapcore.Field { return ctor(key, cp) }, want: []rec.Call{{Kind: "array", Key: key, Sub: sub}}, desc: fmt.Sprintf("%s(%q, %v)", name, key, any(vs))}
		b.after = func() string {
			if now := fmt.Sprintf("%#v", vs); now != before {
				return "the constructor (or encoding the field) modified the caller's slice"
			}
			return ""
		}
		if anyable {
			a := zap.Any(key, vs)
			b.anyF = &a
		}
		for _, v := range vs {
			if f, ok := any(v).(float64); ok && f != f {
				b.noRefl = true
			}
			if f, ok := any(v).(float32); ok && f != f {
				b.noRefl = true
			}
			if c, ok := any(v).(complex128); ok && c != c {
				b.noRefl = true
			}
			if c, ok := any(v).(complex64); ok && c != c {
				b.noRefl = true
			}
		}
		return b
	}}
}

func id[T any](v T) any { return v }

func clone[T any](vs []T) []T {
	if vs == nil {
		return nil
	}
	out := make([]T, len(vs))
	copy(out, vs)
	return out
}

type gentleErr struct{ msg string }

func (e *gentleErr) Error() string {
	if e == nil {
		return "no error value (nil *gentleErr)"
	}
	return e.msg
}

type valObj struct {
	K string
	N int
}

func (o valObj) MarshalLogObject(enc zapcore.ObjectEncoder) error {
	enc.AddString("k", o.K)
	enc.AddInt("n", o.N)
	return nil
}

type labels []string

func (l labels) MarshalLogObject(enc zapcore.ObjectEncoder) error {
	enc.AddInt("count", len(l))
	return nil
}

type enumJ int

func (e enumJ) MarshalJSON() ([]byte, error) { return []byte(fmt.Sprintf(`"state-%d"`, int(e))), nil }

type maskT string

func (m maskT) MarshalText() ([]byte, error) { return []byte("****"), nil }

type (
	plainU uint16
	plainS string
	plainF float32
	plainB bool
)

type strer struct{ s string }

func (s strer) String() string { return s.s }

type om struct{ k string }

func (o om) MarshalLogObject(e zapcore.ObjectEncoder) error { e.AddString(o.k, "v"); return nil }

type omv struct{ K string }

// omvSeen records the receivers the pointer marshaler was called on: ObjectValues is documented
// to marshal "pointers to these objects", i.e. to the caller's own elements.
var omvSeen []*omv

func (o *omv) MarshalLogObject(e zapcore.ObjectEncoder) error {
	omvSeen = append(omvSeen, o)
	e.AddString(o.K, "pv")
	return nil
}

type am struct{ n int }

func (a am) MarshalLogArray(e zapcore.ArrayEncoder) error {
	for i := 0; i < a.n; i++ {
		e.AppendInt(i)
	}
	return nil
}

type myStr string
type myKey string

func rows() []row {
	i64 := func(bits int) func(*gen.G) int64 { return func(g *gen.G) int64 { return g.Int64(bits) } }
	u64 := func(bits int) func(*gen.G) uint64 { return func(g *gen.G) uint64 { return g.Uint64(bits) } }
	gi := func(g *gen.G) int { return int(g.Int64(64)) }
	gi32 := func(g *gen.G) int32 { return int32(g.Int64(32)) }
	gi16 := func(g *gen.G) int16 { return int16(g.Int64(16)) }
	gi8 := func(g *gen.G) int8 { return int8(g.Int64(8)) }
	gu := func(g *gen.G) uint { return uint(g.Uint64(64)) }
	gu32 := func(g *gen.G) uint32 { return uint32(g.Uint64(32)) }
	gu16 := func(g *gen.G) uint16 { return uint16(g.Uint64(16)) }
	gu8 := func(g *gen.G) uint8 { return uint8(g.Uint64(8)) }
	gup := func(g *gen.G) uintptr { return uintptr(g.Uint64(64)) }
	gf64 := func(g *gen.G) float64 { return g.Float64() }
	gf32 := func(g *gen.G) float32 { return g.Float32() }
	gc128 := func(g *gen.G) complex128 { return complex(g.Float64(), g.Float64()) }
	gc64 := func(g *gen.G) complex64 { return complex(g.Float32(), g.Float32()) }
	gb := func(g *gen.G) bool { return g.R.Bool() }
	gs := func(g *gen.G) string { return g.Str() }
	gd := func(g *gen.G) time.Duration { return g.Duration() }
	gt := func(g *gen.G) time.Time { return g.Time() }
	cI := func(v int) any { return int64(v) }
	cI64 := func(v int64) any { return v }
	cI32 := func(v int32) any { return int64(v) }
	cI16 := func(v int16) any { return int64(v) }
	cI8 := func(v int8) any { return int64(v) }
	cU := func(v uint) any { return uint64(v) }
	cU64 := func(v uint64) any { return v }
	cU32 := func(v uint32) any { return uint64(v) }
	cU16 := func(v uint16) any { return uint64(v) }
	cU8 := func(v uint8) any { return uint64(v) }
	cUp := func(v uintptr) any { return uint64(v) }
	cF64 := func(v float64) any { return math.Float64bits(v) }
	cF32 := func(v float32) any { return math.Float32bits(v) }
	_ = i64
	_ = u64
	rs := []row{
		scalar("Bool", zap.Bool, gb, "bool", id[bool]),
		pointer("Boolp", zap.Boolp, gb, "bool", id[bool]),
		slice("Bools", zap.Bools, gb, "bool", id[bool], true),
		scalar("Int", zap.Int, gi, "int", cI), pointer("Intp", zap.Intp, gi, "int", cI), slice("Ints", zap.Ints, gi, "int", cI, true),
		scalar("Int64", zap.Int64, i64(64), "int", cI64), pointer("Int64p", zap.Int64p, i64(64), "int", cI64), slice("Int64s", zap.Int64s, i64(64), "int", cI64, true),
		scalar("Int32", zap.Int32, gi32, "int", cI32), pointer("Int32p", zap.Int32p, gi32, "int", cI32), slice("Int32s", zap.Int32s, gi32, "int", cI32, true),
		scalar("Int16", zap.Int16, gi16, "int", cI16), pointer("Int16p", zap.Int16p, gi16, "int", cI16), slice("Int16s", zap.Int16s, gi16, "int", cI16, true),
		scalar("Int8", zap.Int8, gi8, "int", cI8), pointer("Int8p", zap.Int8p, gi8, "int", cI8), slice("Int8s", zap.Int8s, gi8, "int", cI8, true),
		scalar("Uint", zap.Uint, gu, "uint", cU), pointer("Uintp", zap.Uintp, gu, "uint", cU), slice("Uints", zap.Uints, gu, "uint", cU, true),
		scalar("Uint64", zap.Uint64, u64(64), "uint", cU64), pointer("Uint64p", zap.Uint64p, u64(64), "uint", cU64), slice("Uint64s", zap.Uint64s, u64(64), "uint", cU64, true),
		scalar("Uint32", zap.Uint32, gu32, "uint", cU32), pointer("Uint32p", zap.Uint32p, gu32, "uint", cU32), slice("Uint32s", zap.Uint32s, gu32, "uint", cU32, true),
		scalar("Uint16", zap.Uint16, gu16, "uint", cU16), pointer("Uint16p", zap.Uint16p, gu16, "uint", cU16), slice("Uint16s", zap.Uint16s, gu16, "uint", cU16, true),
		scalar("Uint8", zap.Uint8, gu8, "uint", cU8), pointer("Uint8p", zap.Uint8p, gu8, "uint", cU8),
		slice("Uint8s", zap.Uint8s, gu8, "uint", cU8, false), // Any([]uint8) is Binary
		scalar("Uintptr", zap.Uintptr, gup, "uint", cUp), pointer("Uintptrp", zap.Uintptrp, gup, "uint", cUp), slice("Uintptrs", zap.Uintptrs, gup, "uint", cUp, true),
		scalar("Float64", zap.Float64, gf64, "f64", cF64), pointer("Float64p", zap.Float64p, gf64, "f64", cF64), slice("Float64s", zap.Float64s, gf64, "f64", cF64, true),
		scalar("Float32", zap.Float32, gf32, "f32", cF32), pointer("Float32p", zap.Float32p, gf32, "f32", cF32), slice("Float32s", zap.Float32s, gf32, "f32", cF32, true),
		scalar("Complex128", zap.Complex128, gc128, "c128", id[complex128]), pointer("Complex128p", zap.Complex128p, gc128, "c128", id[complex128]), slice("Complex128s", zap.Complex128s, gc128, "c128", id[complex128], true),
		scalar("Complex64", zap.Complex64, gc64, "c64", id[complex64]), pointer("Complex64p", zap.Complex64p, gc64, "c64", id[complex64]), slice("Complex64s", zap.Complex64s, gc64, "c64", id[complex64], true),
		scalar("String", zap.String, gs, "str", id[string]), pointer("Stringp", zap.Stringp, gs, "str", id[string]), slice("Strings", zap.Strings, gs, "str", id[string], true),
		scalar("Duration", zap.Duration, gd, "dur", id[time.Duration]), pointer("Durationp", zap.Durationp, gd, "dur", id[time.Duration]), slice("Durations", zap.Durations, gd, "dur", id[time.Duration], true),
		scalar("Time", zap.Time, gt, "time", id[time.Time]), pointer("Timep", zap.Timep, gt, "time", id[time.Time]), slice("Times", zap.Times, gt, "time", id[time.Time], true),
		slice("ByteStrings", zap.ByteStrings, func(g *gen.G) []byte { return g.Bytes() }, "bytestr", func(b []byte) any { return string(b) }, false),
		{"Binary", func(g *gen.G, key string) built {
			v := g.Bytes()
			cp := append([]byte(nil), v...)
			a := zap.Any(key, v)
			return built{f: zap.Binary(key, v), again: func() zapcore.Field { return zap.Binary(key, cp) }, want: call("binary", key, append([]byte(nil), v...)), anyF: &a, desc: fmt.Sprintf("Binary(%q,%x)", key, v)}
		}},
		{"ByteString", func(g *gen.G, key string) built {
			v := g.Bytes()
			cp := append([]byte(nil), v...)
			return built{f: zap.ByteString(key, v), again: func() zapcore.Field { return zap.ByteString(key, cp) }, want: call("bytestr", key, string(v)), desc: fmt.Sprintf("ByteString(%q,%q)", key, v)}
		}},
		{"Reflect", func(g *gen.G, key string) built {
			type other struct{ A, B int }
			type withFunc struct{ F func() }
			var v any
			noRefl := false
			switch g.R.Intn(9) {
			case 7:
				v = holder{hidden(g)} // comparable struct type, uncomparable contents
			case 8:
				v = [1]interface{}{hidden(g)}
			case 0:
				v = nil
			case 1:
				v = other{1, int(g.Int64(16))}
			case 2:
				v = map[string]int{g.Str(): 1}
			case 3:
				v = []other{{1, 2}}
			case 4:
				v = &other{3, 4}
			case 5:
				v = withFunc{func() {}} // DeepEqual is irreflexive on non-nil funcs
				noRefl = true
			default:
				v = map[string]float64{"nan": math.NaN()}
				noRefl = true
			}
			a := zap.Any(key, v)
			return built{f: zap.Reflect(key, v), again: func() zapcore.Field { return zap.Reflect(key, v) }, want: call("reflected", key, v), anyF: &a, noRefl: noRefl, desc: fmt.Sprintf("Reflect(%q,%T)", key, v)}
		}},
		{"Stringer", func(g *gen.G, key string) built {
			s := g.Str()
			var v fmt.Stringer = strer{s}
			var want []rec.Call
			switch g.R.Intn(5) {
			case 0: // uncomparable dynamic type
				v = stringerSlice{s}
			case 1:
				v = stringerMap{"k": s}
			case 2: // comparable struct type, uncomparable contents
				v = strHolder{hidden(g)}
			}
			want = call("str", key, v.String())
			a := zap.Any(key, v)
			return built{f: zap.Stringer(key, v), again: func() zapcore.Field { return zap.Stringer(key, v) }, want: want, anyF: &a, desc: fmt.Sprintf("Stringer(%q,%T %q)", key, v, s)}
		}},
		{"NamedError", func(g *gen.G, key string) built {
			if g.R.P(1, 4) {
				return built{f: zap.NamedError(key, nil), again: func() zapcore.Field { return zap.NamedError(key, nil) }, want: nil, desc: "NamedError(nil)"}
			}
			var e error = errors.New(g.Str())
			if g.R.P(1, 3) {
				e = errSlice{g.Str()}
			} else if g.R.P(1, 3) {
				e = errHolder{hidden(g)}
			} else if g.R.P(1, 2) {
				e = richError(g, 0)
			}
			a := zap.Any(key, e)
			// related fields under the same key: the error it wraps / an error wrapping it (Equals must stay symmetric)
			rel := []zapcore.Field{zap.NamedError(key, fmt.Errorf("outer: %w", e))}
			if u := errors.Unwrap(e); u != nil {
				rel = append(rel, zap.NamedError(key, u))
			}
			return built{f: zap.NamedError(key, e), again: func() zapcore.Field { return zap.NamedError(key, e) }, want: wantError(key, e), anyF: &a, related: rel, desc: fmt.Sprintf("NamedError(%q,%T)", key, e)}
		}},
		{"Error", func(g *gen.G, key string) built {
			if g.R.P(1, 4) {
				return built{f: zap.Error(nil), again: func() zapcore.Field { return zap.Error(nil) }, want: nil, desc: "Error(nil)"}
			}
			e := errors.New(g.Str())
			return built{f: zap.Error(e), again: func() zapcore.Field { return zap.Error(e) }, want: call("str", "error", e.Error()), desc: "Error(err)"}
		}},
		{"Errors", func(g *gen.G, key string) built {
			n := g.R.Intn(4)
			es := make([]error, n)
			sub := []rec.Call{}
			for i := range es {
				if g.R.P(1, 4) {
					continue
				}
				es[i] = errors.New(g.Str())
				if g.R.P(1, 2) {
					es[i] = richError(g, 0)
				}
				// each element is encoded like zap.Error(element) inside an object
				sub = append(sub, rec.Call{Kind: "object", Sub: wantError("error", es[i])})
			}
			orig := clone(es)
			a := zap.Any(key, es)
			return built{f: zap.Errors(key, es), again: func() zapcore.Field { return zap.Errors(key, clone(orig)) }, want: []rec.Call{{Kind: "array", Key: key, Sub: sub}}, anyF: &a, desc: fmt.Sprintf("Errors(%q,%d)", key, n),
				after: func() string {
					for i := range orig {
						if !sameErr(es[i], orig[i]) {
							return fmt.Sprintf("the constructor (or encoding the field) modified the caller's slice: element %d changed", i)
						}
					}
					return ""
				}}
		}},
		{"Object", func(g *gen.G, key string) built {
			if g.R.P(1, 3) {
				o := omHolder{g.Key(), hidden(g)}
				a := zap.Any(key, o)
				return built{f: zap.Object(key, o), again: func() zapcore.Field { return zap.Object(key, o) }, want: []rec.Call{{Kind: "object", Key: key, Sub: call("str", o.k, "v")}}, anyF: &a, desc: "Object(comparable struct with uncomparable contents)"}
			}
			o := om{g.Key()}
			a := zap.Any(key, o)
			return built{f: zap.Object(key, o), again: func() zapcore.Field { return zap.Object(key, o) }, want: []rec.Call{{Kind: "object", Key: key, Sub: call("str", o.k, "v")}}, anyF: &a, desc: "Object"}
		}},
		{"Inline", func(g *gen.G, key string) built {
			if g.R.P(1, 2) { // uncomparable dynamic type behind Inline
				d := zap.DictObject(zap.Int("a", 1), zap.String("b", "x"))
				return built{f: zap.Inline(d), again: func() zapcore.Field { return zap.Inline(zap.DictObject(zap.Int("a", 1), zap.String("b", "x"))) },
					want: []rec.Call{{Kind: "int", Key: "a", Val: int64(1)}, {Kind: "str", Key: "b", Val: "x"}}, desc: "Inline(DictObject)"}
			}
			if g.R.P(1, 3) {
				o := omHolder{g.Key(), hidden(g)}
				return built{f: zap.Inline(o), again: func() zapcore.Field { return zap.Inline(o) }, want: call("str", o.k, "v"), desc: "Inline(comparable struct with uncomparable contents)"}
			}
			o := om{g.Key()}
			return built{f: zap.Inline(o), again: func() zapcore.Field { return zap.Inline(o) }, want: call("str", o.k, "v"), desc: "Inline"}
		}},
		{"Dict", func(g *gen.G, key string) built {
			v := g.Int64(64)
			a := zap.Any(key, []zapcore.Field{zap.Int64("a", v), zap.Bool("b", true)})
			return built{f: zap.Dict(key, zap.Int64("a", v), zap.Bool("b", true)), again: func() zapcore.Field { return zap.Dict(key, zap.Int64("a", v), zap.Bool("b", true)) },
				want: []rec.Call{{Kind: "object", Key: key, Sub: []rec.Call{{Kind: "int", Key: "a", Val: v}, {Kind: "bool", Key: "b", Val: true}}}}, anyF: &a, desc: "Dict"}
		}},
		{"Array", func(g *gen.G, key string) built {
			if g.R.P(1, 4) {
				m := amHolder{hidden(g), 1}
				a := zap.Any(key, m)
				return built{f: zap.Array(key, m), again: func() zapcore.Field { return zap.Array(key, m) }, want: []rec.Call{{Kind: "array", Key: key, Sub: []rec.Call{{Kind: "int", Val: int64(2)}}}}, anyF: &a, desc: "Array(comparable array with uncomparable contents)"}
			}
			m := am{g.R.Intn(4)}
			sub := []rec.Call{}
			for i := 0; i < m.n; i++ {
				sub = append(sub, rec.Call{Kind: "int", Val: int64(i)})
			}
			a := zap.Any(key, m)
			return built{f: zap.Array(key, m), again: func() zapcore.Field { return zap.Array(key, m) }, want: []rec.Call{{Kind: "array", Key: key, Sub: sub}}, anyF: &a, desc: "Array"}
		}},
		{"Objects", func(g *gen.G, key string) built {
			n := g.R.Intn(4)
			os := make([]om, n)
			sub := []rec.Call{}
			for i := range os {
				os[i] = om{g.Key()}
				sub = append(sub, rec.Call{Kind: "object", Sub: call("str", os[i].k, "v")})
			}
			return built{f: zap.Objects(key, os), again: func() zapcore.Field { return zap.Objects(key, clone(os)) }, want: []rec.Call{{Kind: "array", Key: key, Sub: sub}}, desc: "Objects"}
		}},
		{"ObjectValues", func(g *gen.G, key string) built {
			n := g.R.Intn(4)
			os := make([]omv, n)
			sub := []rec.Call{}
			for i := range os {
				os[i] = omv{g.Key()}
				sub = append(sub, rec.Call{Kind: "object", Sub: call("str", os[i].K, "pv")})
			}
			return built{f: zap.ObjectValues[omv, *omv](key, os), again: func() zapcore.Field { return zap.ObjectValues[omv, *omv](key, clone(os)) }, want: []rec.Call{{Kind: "array", Key: key, Sub: sub}}, desc: "ObjectValues",
				after: func() string {
					seen := omvSeen
					omvSeen = nil
					if len(seen) < len(os) {
						return fmt.Sprintf("the pointer marshaler ran %d times for %d elements", len(seen), len(os))
					}
					for i := range os {
						if seen[i] != &os[i] {
							return fmt.Sprintf("element %d was marshaled through a pointer to a copy, not through a pointer to the caller's element", i)
						}
					}
					return ""
				}}
		}},
		{"Stringers", func(g *gen.G, key string) built {
			n := g.R.Intn(4)
			ss := make([]strer, n)
			sub := []rec.Call{}
			for i := range ss {
				ss[i] = strer{g.Str()}
				sub = append(sub, rec.Call{Kind: "str", Val: ss[i].s})
			}
			return built{f: zap.Stringers(key, ss), again: func() zapcore.Field { return zap.Stringers(key, clone(ss)) }, want: []rec.Call{{Kind: "array", Key: key, Sub: sub}}, desc: "Stringers"}
		}},
		{"Time(local zone; time.Local reassigned before encoding)", func(g *gen.G, key string) built {
			// the field carries the zone the value had when it was built, whatever the process's idea of
			// "local" is by the time it is encoded
			t := time.Unix(int64(g.R.Intn(2_000_000_000)), int64(g.R.Intn(1_000_000_000))).In(time.Local)
			var f zapcore.Field
			switch g.R.Intn(3) {
			case 0:
				f = zap.Time(key, t)
			case 1:
				f = zap.Timep(key, &t)
			default:
				f = zap.Any(key, t)
			}
			old := time.Local
			time.Local = time.FixedZone("moved", (g.R.Intn(23)-11)*3600+1800)
			return built{f: f, again: func() zapcore.Field { return f }, want: call("time", key, t), desc: "Time(local zone, time.Local reassigned)",
				restore: func() { time.Local = old }}
		}},
		{"Dict(caller-owned slice with no-op members)", func(g *gen.G, key string) built {
			// the slice handed to Dict / Any([]Field) stays the caller's: no-op members (Skip, a nil error)
			// add nothing to the object and the slice is the same afterwards
			fs := []zapcore.Field{zap.String("a", g.Str()), zap.Skip(), zap.Int("b", int(g.Int64(16))), zap.Error(nil), zap.Bool("c", true), zap.NamedError("none", nil), zap.Int("d", 4)}
			fs = fs[g.R.Intn(3):]
			keep := clone(fs)
			var sub []rec.Call
			for _, f := range keep {
				s := &rec.Spy{}
				f.AddTo(s)
				sub = append(sub, s.Calls...)
			}
			f := zap.Dict(key, fs...)
			a := zap.Any(key, fs)
			return built{f: f, again: func() zapcore.Field { return zap.Dict(key, clone(keep)...) }, want: []rec.Call{{Kind: "object", Key: key, Sub: sub}}, anyF: &a, desc: "Dict(slice with no-op members)",
				after: func() string {
					for i := range keep {
						if !keep[i].Equals(fs[i]) {
							return fmt.Sprintf("Dict/Any changed element %d of the caller's field slice", i)
						}
					}
					return ""
				}}
		}},
		{"Any(named scalar types, with and without marshaling methods)", func(g *gen.G, key string) built {
			// a type Any has no case for is handed over as it is (Reflect), methods and all
			var v interface{}
			switch g.R.Intn(6) {
			case 0:
				v = enumJ(g.R.Intn(5))
			case 1:
				v = maskT(g.Str())
			case 2:
				v = plainU(g.R.Intn(60000))
			case 3:
				v = plainS(g.Str())
			case 4:
				v = plainF(1.5)
			default:
				v = plainB(true)
			}
			return built{f: zap.Any(key, v), again: func() zapcore.Field { return zap.Reflect(key, v) }, want: call("reflected", key, v), desc: fmt.Sprintf("Any(%T)", v)}
		}},
		{"NamedError(nil pointer whose Error method copes with nil)", func(g *gen.G, key string) built {
			// the text an error gives is the text delivered, also when the value is a nil pointer of a
			// type whose method handles that
			var e *gentleErr
			var f zapcore.Field
			switch g.R.Intn(3) {
			case 0:
				f = zap.NamedError(key, e)
			case 1:
				f = zap.Any(key, error(e))
			default:
				es := zap.Errors(key, []error{e})
				return built{f: es, again: func() zapcore.Field { return zap.Errors(key, []error{e}) }, want: []rec.Call{{Kind: "array", Key: key, Sub: []rec.Call{{Kind: "object", Sub: call("str", "error", "no error value (nil *gentleErr)")}}}}, desc: "Errors(nil pointer with nil-safe Error)"}
			}
			return built{f: f, again: func() zapcore.Field { return zap.NamedError(key, e) }, want: call("str", key, "no error value (nil *gentleErr)"), desc: "NamedError(nil pointer with nil-safe Error)"}
		}},
		{"Objects(value elements, zero values among them)", func(g *gen.G, key string) built {
			// every element is delivered through its marshaler, zero values included
			n := g.R.Range(1, 4)
			os := make([]valObj, n)
			sub := []rec.Call{}
			for i := range os {
				if !g.R.P(1, 2) {
					os[i] = valObj{K: g.Key(), N: g.R.Intn(9)}
				}
				sub = append(sub, rec.Call{Kind: "object", Sub: []rec.Call{{Kind: "str", Key: "k", Val: os[i].K}, {Kind: "int", Key: "n", Val: int64(os[i].N)}}})
			}
			return built{f: zap.Objects(key, os), again: func() zapcore.Field { return zap.Objects(key, clone(os)) }, want: []rec.Call{{Kind: "array", Key: key, Sub: sub}}, desc: "Objects(value type, zero values)"}
		}},
		{"Objects(elements of a type that cannot be compared)", func(g *gen.G, key string) built {
			os := []labels{{"a", "b"}, nil, {}}
			sub := []rec.Call{}
			for _, o := range os {
				sub = append(sub, rec.Call{Kind: "object", Sub: call("int", "count", int64(len(o)))})
			}
			return built{f: zap.Objects(key, os), again: func() zapcore.Field { return zap.Objects(key, clone(os)) }, want: []rec.Call{{Kind: "array", Key: key, Sub: sub}}, noRefl: true, desc: "Objects(uncomparable element type)"}
		}},
		{"Stringers(nil pointers among the elements)", func(g *gen.G, key string) built {
			// value-receiver String on pointer elements: a nil pointer renders as "<nil>" like
			// zap.Stringer does, and the elements after it are still there
			n := g.R.Range(1, 5)
			ss := make([]*strer, n)
			sub := []rec.Call{}
			for i := range ss {
				if g.R.P(1, 3) {
					sub = append(sub, rec.Call{Kind: "str", Val: "<nil>"})
					continue
				}
				ss[i] = &strer{g.Str()}
				sub = append(sub, rec.Call{Kind: "str", Val: ss[i].s})
			}
			return built{f: zap.Stringers(key, ss), again: func() zapcore.Field { return zap.Stringers(key, clone(ss)) }, want: []rec.Call{{Kind: "array", Key: key, Sub: sub}}, desc: "Stringers(nil pointers)"}
		}},
		{"Any(value matching several cases)", func(g *gen.G, key string) built {
			k := g.Key()
			switch g.R.Intn(5) {
			case 0:
				v := omErr{k}
				a := zap.Any(key, v)
				return built{f: zap.Object(key, v), again: func() zapcore.Field { return zap.Object(key, v) }, want: []rec.Call{{Kind: "object", Key: key, Sub: call("str", k, "v")}}, anyF: &a, desc: "Any(ObjectMarshaler that is also an error)"}
			case 1:
				v := omStr{k}
				a := zap.Any(key, v)
				return built{f: zap.Object(key, v), again: func() zapcore.Field { return zap.Object(key, v) }, want: []rec.Call{{Kind: "object", Key: key, Sub: call("str", k, "v")}}, anyF: &a, desc: "Any(ObjectMarshaler that is also a Stringer)"}
			case 2:
				v := amErr{3}
				a := zap.Any(key, v)
				return built{f: zap.Array(key, v), again: func() zapcore.Field { return zap.Array(key, v) }, want: []rec.Call{{Kind: "array", Key: key, Sub: []rec.Call{{Kind: "int", Val: int64(3)}}}}, anyF: &a, desc: "Any(ArrayMarshaler that is also an error)"}
			case 3:
				v := amStr{4}
				a := zap.Any(key, v)
				return built{f: zap.Array(key, v), again: func() zapcore.Field { return zap.Array(key, v) }, want: []rec.Call{{Kind: "array", Key: key, Sub: []rec.Call{{Kind: "int", Val: int64(4)}}}}, anyF: &a, desc: "Any(ArrayMarshaler that is also a Stringer)"}
			default:
				// error and Stringer at once: either typed constructor corresponds; not judged (anyAlt)
				v := errStr{k}
				a := zap.Any(key, v)
				alt := zap.Stringer(key, v)
				return built{f: zap.NamedError(key, v), again: func() zapcore.Field { return zap.NamedError(key, v) }, want: call("str", key, v.Error()), anyF: &a, anyAlt: &alt, desc: "Any(error that is also a Stringer)"}
			}
		}},
		{"Namespace", func(g *gen.G, key string) built {
			return built{f: zap.Namespace(key), again: func() zapcore.Field { return zap.Namespace(key) }, want: call("ns", key, nil), desc: "Namespace"}
		}},
		{"Skip", func(g *gen.G, key string) built {
			return built{f: zap.Skip(), again: zap.Skip, want: nil, desc: "Skip"}
		}},
		{"zapfield.Str", func(g *gen.G, key string) built {
			v := g.Str()
			return built{f: zapfield.Str(myKey(key), myStr(v)), again: func() zapcore.Field { return zapfield.Str(myKey(key), myStr(v)) }, want: call("str", key, v), desc: "zapfield.Str"}
		}},
		{"zapfield.Strs", func(g *gen.G, key string) built {
			n := g.R.Intn(4)
			vs := make([]myStr, n)
			sub := []rec.Call{}
			for i := range vs {
				vs[i] = myStr(g.Str())
				sub = append(sub, rec.Call{Kind: "str", Val: string(vs[i])})
			}
			return built{f: zapfield.Strs(myKey(key), vs), again: func() zapcore.Field { return zapfield.Strs(myKey(key), clone(vs)) }, want: []rec.Call{{Kind: "array", Key: key, Sub: sub}}, desc: "zapfield.Strs"}
		}},
	}
	return rs
}

// comparable static types whose contents are uncomparable: == on them panics at run time
// although reflect.Type.Comparable() is true.
type holder struct{ X interface{} }

type strHolder struct{ X interface{} }

func (s strHolder) String() string { return fmt.Sprint(s.X) }

type errHolder struct{ X interface{} }

func (e errHolder) Error() string { return fmt.Sprint(e.X) }

type omHolder struct {
	k string
	X interface{}
}

func (o omHolder) MarshalLogObject(e zapcore.ObjectEncoder) error { e.AddString(o.k, "v"); return nil }

type amHolder [2]interface{}

func (a amHolder) MarshalLogArray(e zapcore.ArrayEncoder) error { e.AppendInt(len(a)); return nil }

func hidden(g *gen.G) interface{} {
	if g.R.Bool() {
		return []int{1, int(g.Int64(8))}
	}
	return map[string]int{g.Str(): 1}
}

// types matching more than one case of zap.Any: a value that can marshal itself is
// represented by its marshaler (the error / Stringer text would be a reduction of it).
type omErr struct{ k string }

func (o omErr) MarshalLogObject(e zapcore.ObjectEncoder) error { e.AddString(o.k, "v"); return nil }
func (o omErr) Error() string                                  { return "omErr:" + o.k }

type omStr struct{ k string }

func (o omStr) MarshalLogObject(e zapcore.ObjectEncoder) error { e.AddString(o.k, "v"); return nil }
func (o omStr) String() string                                 { return "omStr:" + o.k }

type amErr struct{ n int }

func (a amErr) MarshalLogArray(e zapcore.ArrayEncoder) error { e.AppendInt(a.n); return nil }
func (a amErr) Error() string                                { return "amErr" }

type amStr struct{ n int }

func (a amStr) MarshalLogArray(e zapcore.ArrayEncoder) error { e.AppendInt(a.n); return nil }
func (a amStr) String() string                               { return "amStr" }

type errStr struct{ s string }

func (e errStr) Error() string  { return "error:" + e.s }
func (e errStr) String() string { return "string:" + e.s }

// rich error kinds (the representation of an error is documented in zapcore/error.go:
// message under key, "%+v" under keyVerbose when it differs, causes under keyCauses)
type verboseE struct{ msg, verbose string }

func (e verboseE) Error() string { return e.msg }
func (e verboseE) Format(s fmt.State, verb rune) {
	if verb == 'v' && s.Flag('+') {
		fmt.Fprint(s, e.verbose)
		return
	}
	fmt.Fprint(s, e.msg)
}

type groupE struct {
	msg    string
	causes []error
}

func (e groupE) Error() string   { return e.msg }
func (e groupE) Errors() []error { return e.causes }

type ptrE struct{ msg string }

func (e *ptrE) Error() string { return e.msg } // a nil *ptrE panics here: rendered as "<nil>"

func richError(g *gen.G, depth int) error {
	switch g.R.Intn(6) {
	case 0:
		m := g.Str()
		return verboseE{m, m + "\n  verbose"}
	case 1:
		m := g.Str()
		return verboseE{m, m} // verbose equals the message: no keyVerbose member
	case 2:
		if depth < 2 {
			n := g.R.Intn(3)
			cs := make([]error, 0, n+1)
			for i := 0; i < n; i++ {
				cs = append(cs, richError(g, depth+1))
			}
			if g.R.Bool() {
				cs = append(cs, nil)
			}
			return groupE{g.Str(), cs}
		}
		return errors.New(g.Str())
	case 3:
		return (*ptrE)(nil)
	case 4:
		return fmt.Errorf("wrap: %w", errors.New(g.Str()))
	}
	return errors.New(g.Str())
}

// sameErr compares two error values without panicking on uncomparable dynamic types.
func sameErr(a, b error) (eq bool) {
	defer func() {
		if recover() != nil {
			eq = reflect.DeepEqual(a, b)
		}
	}()
	return a == b
}

// wantError is the reference representation of err under key.
func wantError(key string, err error) []rec.Call {
	if p, ok := err.(*ptrE); ok && p == nil {
		return call("str", key, "<nil>")
	}
	basic := err.Error()
	out := call("str", key, basic)
	switch e := err.(type) {
	case interface{ Errors() []error }:
		var sub []rec.Call
		for _, c := range e.Errors() {
			if c == nil {
				continue
			}
			sub = append(sub, rec.Call{Kind: "object", Sub: wantError("error", c)})
		}
		if sub == nil {
			sub = []rec.Call{}
		}
		out = append(out, rec.Call{Kind: "array", Key: key + "Causes", Sub: sub})
	case fmt.Formatter:
		if v := fmt.Sprintf("%+v", e); v != basic {
			out = append(out, rec.Call{Kind: "str", Key: key + "Verbose", Val: v})
		}
	}
	return out
}

type stringerSlice []string

func (s stringerSlice) String() string { return fmt.Sprint([]string(s)) }

type stringerMap map[string]string

func (s stringerMap) String() string { return fmt.Sprint(map[string]string(s)) }

type errSlice []string

func (e errSlice) Error() string { return fmt.Sprint([]string(e)) }

// special constructors that are exercised elsewhere (no value to deliver)
var noValue = map[string]string{
	"Stack":     "captures the current stack (C15)",
	"StackSkip": "captures the current stack (C15)",
	"Any":       "judged against every typed row",
}

// constructorsInSource lists exported functions returning Field from the current /repo.
func constructorsInSource() (map[string]bool, error) {
	out := map[string]bool{}
	repo := os.Getenv("VERIF_REPO")
	if repo == "" {
		repo = "/repo"
	}
	files := map[string]string{repo + "/field.go": "", repo + "/array.go": "", repo + "/error.go": "", repo + "/exp/zapfield/zapfield.go": "zapfield."}
	for path, prefix := range files {
		fs := token.NewFileSet()
		f, err := parser.ParseFile(fs, path, nil, 0)
		if err != nil {
			return nil, err
		}
		for _, d := range f.Decls {
			fd, ok := d.(*ast.FuncDecl)
			if !ok || fd.Recv != nil || !fd.Name.IsExported() || fd.Type.Results == nil || len(fd.Type.Results.List) != 1 {
				continue
			}
			switch t := fd.Type.Results.List[0].Type.(type) {
			case *ast.Ident:
				if t.Name == "Field" {
					out[prefix+fd.Name.Name] = true
				}
			case *ast.SelectorExpr:
				if t.Sel.Name == "Field" {
					out[prefix+fd.Name.Name] = true
				}
			}
		}
	}
	return out, nil
}

func spy(f zapcore.Field) (calls []rec.Call, panicked string) {
	s := &rec.Spy{}
	panicked = ev.Guard(func() { f.AddTo(s) })
	return s.Calls, panicked
}

// Run is the C03 monitor.
func Run(r *ev.Run) {
	r.Rule = "for every exported constructor found by parsing /repo's source: case = (constructor, seeded boundary-biased value); the call sequence an encoder spy receives is compared bitwise with the value given; Any(k,v) must produce the same sequence; Equals judged on (f, rebuilt f, unrelated h); distinct = distinct (constructor, received call sequence) pairs; non-trivial = every case"
	rs := rows()
	have := map[string]bool{}
	for _, rw := range rs {
		have[rw.name] = true
	}
	src, err := constructorsInSource()
	if err != nil {
		r.Inconclusive("cannot parse constructors from /repo: " + err.Error())
	}
	var missing []string
	for name := range src {
		if !have[name] && noValue[name] == "" {
			missing = append(missing, name)
		}
	}
	sort.Strings(missing)
	r.Extra("constructors_in_source", len(src))
	r.Extra("constructors_with_row", len(rs))
	if len(missing) > 0 {
		r.Incomplete(fmt.Sprintf("constructors without a table row: %v", missing))
	}
	per := r.N(1500, 250000)
	var pool []zapcore.Field
	for ri, rw := range rs {
		for i := 0; i < per; i++ {
			id := fmt.Sprintf("c03/%s/%d", rw.name, i)
			if !r.Want(id) {
				continue
			}
			g := gen.New(rng.For(r.Seed, "c03/"+rw.name, i), gen.Opts{Hostile: i%2 == 0, NoFaults: true})
			key := g.Key()
			var b built
			if p := ev.Guard(func() { b = rw.make(g, key) }); p != "" {
				r.Violate(ev.Violation{Case: id, Class: "constructor-panic", Msg: "constructor panicked: " + p})
				continue
			}
			r.Eval(1)
			r.Count("values:"+rw.name, 1)
			got, p := spy(b.f)
			if b.restore != nil {
				b.restore()
			}
			if p != "" {
				r.Violate(ev.Violation{Case: id, Class: "addto-panic", Msg: fmt.Sprintf("%s: AddTo panicked: %s", b.desc, p)})
				continue
			}
			r.Distinct(fmt.Sprintf("%s|%v", rw.name, got))
			if ri < 3 && i == 0 {
				r.Sample(map[string]any{"constructor": b.desc, "received": fmt.Sprint(got)})
			}
			if d := rec.SameCalls(b.want, got); d != "" {
				r.Violate(ev.Violation{Case: id, Class: "value-changed:" + rw.name, Msg: fmt.Sprintf("%s: the encoder did not receive the value given: %s", b.desc, d), Witness: b.desc})
				continue
			}
			if b.after != nil {
				if m := b.after(); m != "" {
					r.Violate(ev.Violation{Case: id, Class: "input-not-original:" + rw.name, Msg: b.desc + ": " + m, Witness: b.desc})
					continue
				}
			}
			if b.anyF != nil {
				r.Count("any_comparisons", 1)
				gotAny, p := spy(*b.anyF)
				if p != "" {
					r.Violate(ev.Violation{Case: id, Class: "any-panic", Msg: b.desc + ": Any field panicked: " + p})
				} else if d := rec.SameCalls(got, gotAny); d != "" {
					if b.anyAlt != nil {
						if gotAlt, _ := spy(*b.anyAlt); rec.SameCalls(gotAlt, gotAny) == "" {
							r.Count("any_with_two_corresponding_constructors", 1)
							goto anyDone
						}
					}
					r.Violate(ev.Violation{Case: id, Class: "any-differs:" + rw.name, Msg: fmt.Sprintf("%s: zap.Any chose a different representation than the typed constructor: %s", b.desc, d), Witness: b.desc})
				}
			}
		anyDone:
			// Equals
			g2 := b.again()
			var eqSelf, eqFG, eqGF bool
			if p := ev.Guard(func() { eqSelf = b.f.Equals(b.f); eqFG = b.f.Equals(g2); eqGF = g2.Equals(b.f) }); p != "" {
				r.Violate(ev.Violation{Case: id, Class: "equals-panic:" + rw.name, Msg: fmt.Sprintf("%s: Field.Equals panicked: %s", b.desc, p), Witness: b.desc})
			} else {
				r.Count("equals_triples", 1)
				if eqFG != eqGF {
					r.Violate(ev.Violation{Case: id, Class: "equals-asymmetric", Msg: b.desc + ": Equals is asymmetric on equal inputs"})
				}
				if !b.noRefl && (!eqSelf || !eqFG) {
					r.Violate(ev.Violation{Case: id, Class: "equals-not-reflexive:" + rw.name, Msg: fmt.Sprintf("%s: fields built from equal inputs are not Equal (self=%v rebuilt=%v)", b.desc, eqSelf, eqFG), Witness: b.desc})
				}
			}
			for _, h := range b.related {
				var x, y bool
				if p := ev.Guard(func() { x = b.f.Equals(h); y = h.Equals(b.f) }); p != "" {
					r.Violate(ev.Violation{Case: id, Class: "equals-panic:" + rw.name, Msg: fmt.Sprintf("%s: Equals against a related field panicked: %s", b.desc, p)})
				} else if x != y {
					r.Violate(ev.Violation{Case: id, Class: "equals-asymmetric", Msg: fmt.Sprintf("%s: Equals is asymmetric against a field holding the wrapping/wrapped error under the same key (f.Equals(h)=%v, h.Equals(f)=%v)", b.desc, x, y)})
				}
				r.Count("equals_related_pairs", 1)
			}
			// symmetry / no panic against unrelated fields
			if len(pool) > 0 {
				h := pool[g.R.Intn(len(pool))]
				var x, y bool
				if p := ev.Guard(func() { x = b.f.Equals(h); y = h.Equals(b.f) }); p != "" {
					r.Violate(ev.Violation{Case: id, Class: "equals-panic:" + rw.name, Msg: fmt.Sprintf("%s: Equals against another field panicked: %s", b.desc, p)})
				} else if x != y {
					r.Violate(ev.Violation{Case: id, Class: "equals-asymmetric", Msg: b.desc + ": Equals asymmetric against another field"})
				}
			}
			if len(pool) < 4000 {
				pool = append(pool, b.f)
			} else {
				pool[g.R.Intn(len(pool))] = b.f
			}
		}
	}
	// Any falls back to reflection only for types without a typed row.
	type unsupported struct{ X int }
	for i, v := range []any{unsupported{1}, &unsupported{2}, map[string]int{"a": 1}, []unsupported{{3}}, [2]int{1, 2}, struct{}{}, int8(1), make(chan int), [][]byte{{1}}, []any{1}} {
		id := fmt.Sprintf("c03/anyfallback/%d", i)
		if !r.Want(id) {
			continue
		}
		got, p := spy(zap.Any("k", v))
		r.Eval(1)
		if _, isInt8 := v.(int8); isInt8 {
			if d := rec.SameCalls(call("int", "k", int64(1)), got); d != "" || p != "" {
				r.Violate(ev.Violation{Case: id, Class: "any-differs:Int8", Msg: "Any(int8) " + d + p})
			}
			continue
		}
		if p != "" || len(got) != 1 || got[0].Kind != "reflected" {
			r.Violate(ev.Violation{Case: id, Class: "any-fallback", Msg: fmt.Sprintf("Any(%T) did not fall back to reflection: %v %s", v, got, p)})
		}
	}
}
