// Package c13 monitors C13: zap's writers and WriteSyncer combinators honour
// the io.Writer contract.
package c13

import (
	"bytes"
	"errors"
	"fmt"
	"io"
	"os"
	"strings"
	"sync"
	"syscall"
	"time"

	"go.uber.org/multierr"
	"go.uber.org/zap"
	"go.uber.org/zap/verif/internal/ev"
	"go.uber.org/zap/verif/internal/mon"
	"go.uber.org/zap/verif/internal/rec"
	"go.uber.org/zap/verif/internal/rng"
	"go.uber.org/zap/zapcore"
	"go.uber.org/zap/zapio"
	"go.uber.org/zap/zaptest"
	"go.uber.org/zap/zaptest/observer"
)

// cleanupT is a test handle that also offers Cleanup, as *testing.T does.
type cleanupT struct {
	fakeT
	fns []func()
}

func (t *cleanupT) Cleanup(f func()) { t.fns = append(t.fns, f) }
func (t *cleanupT) finish() {
	for i := len(t.fns) - 1; i >= 0; i-- {
		t.fns[i]()
	}
	t.fns = nil
}

type fakeT struct {
	mu     sync.Mutex
	logs   []string
	failed bool
}

func (t *fakeT) Logf(f string, a ...interface{}) {
	t.mu.Lock()
	t.logs = append(t.logs, fmt.Sprintf(f, a...))
	t.mu.Unlock()
}
func (t *fakeT) Errorf(f string, a ...interface{}) { t.Logf(f, a...); t.failed = true }
func (t *fakeT) Fail()                             { t.failed = true }
func (t *fakeT) Failed() bool                      { return t.failed }
func (t *fakeT) Name() string                      { return "fake" }
func (t *fakeT) FailNow()                          { t.failed = true }

func payloads(g *rng.R) [][]byte {
	big := []byte(strings.Repeat("x", 1<<20))
	ps := [][]byte{nil, {}, []byte(" "), []byte("\n"), []byte("\n\n"), []byte("abc"), []byte("abc\n"), []byte("abc\n\n\n"), []byte("  hello \n"),
		[]byte("\t\r\n"), []byte("   "), []byte(" a b "), []byte("a\nb\nc"), []byte("\nlead"), []byte("trail \t"), []byte("\x00\xff\n"), []byte("é  "), []byte(" x "), big, append(append([]byte(nil), big...), '\n')}
	for i := 0; i < 20; i++ {
		n := g.Intn(30)
		b := make([]byte, n)
		for j := range b {
			b[j] = " \n\tab\r\x00"[g.Intn(7)]
		}
		ps = append(ps, b)
	}
	return ps
}

func describe(p []byte) string {
	if len(p) > 40 {
		return fmt.Sprintf("%d bytes %q...", len(p), p[:20])
	}
	return fmt.Sprintf("%q", p)
}

func payloadClass(p []byte) string {
	s := string(p)
	switch {
	case len(p) == 0:
		return "empty"
	case strings.TrimSpace(s) == "":
		return "whitespace-only"
	case len(p) > 100000:
		return "large"
	case strings.HasSuffix(s, "\n\n"):
		return "many-trailing-newlines"
	case strings.HasSuffix(s, "\n"):
		return "one-trailing-newline"
	case strings.TrimSpace(s) != s:
		return "surrounding-whitespace"
	}
	return "plain"
}

func writers(r *ev.Run) {
	g := rng.For(r.Seed, "c13/payloads", 0)
	type wcase struct {
		name string
		mk   func() (io.Writer, func())
	}
	cases := []wcase{
		{"zapio.Writer", func() (io.Writer, func()) {
			core, _ := observer.New(zapcore.DebugLevel)
			w := &zapio.Writer{Log: zap.New(core), Level: zapcore.InfoLevel}
			return w, func() { w.Close() }
		}},
		{"zapio.Writer(disabled)", func() (io.Writer, func()) {
			core, _ := observer.New(zapcore.ErrorLevel)
			w := &zapio.Writer{Log: zap.New(core), Level: zapcore.InfoLevel}
			return w, func() { w.Close() }
		}},
		{"stdlog-bridge(NewStdLog)", func() (io.Writer, func()) {
			core, _ := observer.New(zapcore.DebugLevel)
			return zap.NewStdLog(zap.New(core)).Writer(), func() {}
		}},
		{"stdlog-bridge(NewStdLogAt error)", func() (io.Writer, func()) {
			core, _ := observer.New(zapcore.DebugLevel)
			l, err := zap.NewStdLogAt(zap.New(core), zapcore.ErrorLevel)
			if err != nil {
				panic(err)
			}
			return l.Writer(), func() {}
		}},
		{"stdlog-bridge(disabled level)", func() (io.Writer, func()) {
			core, _ := observer.New(zapcore.ErrorLevel)
			l, _ := zap.NewStdLogAt(zap.New(core), zapcore.DebugLevel)
			return l.Writer(), func() {}
		}},
		{"zaptest.TestingWriter(test with Cleanup, written to after its cleanups ran)", func() (io.Writer, func()) {
			t := &cleanupT{}
			w := zaptest.NewTestingWriter(t)
			t.finish()
			return w, func() {}
		}},
		{"zaptest.TestingWriter(markFailed copy, test with Cleanup, after its cleanups ran)", func() (io.Writer, func()) {
			t := &cleanupT{}
			w := zaptest.NewTestingWriter(t).WithMarkFailed(true)
			t.finish()
			return w, func() {}
		}},
		{"zaptest.TestingWriter", func() (io.Writer, func()) {
			return zaptest.NewTestingWriter(&fakeT{}), func() {}
		}},
		{"zaptest.TestingWriter(markFailed)", func() (io.Writer, func()) {
			return zaptest.NewTestingWriter(&fakeT{}).WithMarkFailed(true), func() {}
		}},
		{"BufferedWriteSyncer(64)", func() (io.Writer, func()) {
			b := &zapcore.BufferedWriteSyncer{WS: &rec.Sink{}, Size: 64, FlushInterval: time.Hour}
			return b, func() { b.Stop() }
		}},
		{"BufferedWriteSyncer(default)", func() (io.Writer, func()) {
			b := &zapcore.BufferedWriteSyncer{WS: zapcore.AddSync(io.Discard), FlushInterval: time.Hour}
			return b, func() { b.Stop() }
		}},
	}
	for _, wc := range cases {
		w, done := wc.mk()
		for pi, p := range payloads(g) {
			id := fmt.Sprintf("c13/writer/%s/%d", wc.name, pi)
			if !r.Want(id) {
				continue
			}
			var n int
			var err error
			pn := ev.Guard(func() { n, err = w.Write(p) })
			r.Eval(1)
			r.SetAdd("writer_payload_classes", wc.name+":"+payloadClass(p))
			r.Distinct("w|" + wc.name + "|" + describe(p))
			if pn != "" {
				r.Violate(ev.Violation{Case: id, Class: "writer-panic", Msg: fmt.Sprintf("%s.Write(%s) panicked: %s", wc.name, describe(p), pn)})
				continue
			}
			if n != len(p) || err != nil {
				class := "writer-count:" + wc.name
				r.Violate(ev.Violation{Case: id, Class: class, Msg: fmt.Sprintf("%s.Write(%s) returned (%d, %v); it accepted everything, so it must return (%d, nil)", wc.name, describe(p), n, err, len(p))})
			}
		}
		done()
	}
}

// prog is a sink with programmed outcomes that records what it was given.
type prog struct {
	n       int // count to report (-1 = len(p))
	err     error
	syncErr error
	got     [][]byte
	syncs   int
}

func (p *prog) Write(b []byte) (int, error) {
	p.got = append(p.got, append([]byte(nil), b...))
	n := p.n
	if n < 0 {
		n = len(b)
	}
	return n, p.err
}

func (p *prog) Sync() error { p.syncs++; return p.syncErr }

func hasErr(err error, want error) bool {
	if err == nil {
		return false
	}
	if errors.Is(err, want) {
		return true
	}
	for _, e := range multierr.Errors(err) {
		if e == want {
			return true
		}
	}
	return strings.Contains(err.Error(), want.Error())
}

func multi(r *ev.Run) {
	maxK := r.N(4, 5)
	payload := []byte("0123456789")
	outcomes := []struct {
		name string
		n    func(i int) int
		err  bool
	}{
		{"full", func(int) int { return -1 }, false}, {"full+err", func(int) int { return -1 }, true},
		{"short", func(i int) int { return 2 + i }, false}, {"short+err", func(i int) int { return 2 + i }, true},
		{"zero", func(int) int { return 0 }, false}, {"zero+err", func(int) int { return 0 }, true},
	}
	total := 0
	for k := 2; k <= maxK; k++ {
		nvec := 1
		for i := 0; i < k; i++ {
			nvec *= len(outcomes)
		}
		for vec := 0; vec < nvec; vec++ {
			for _, shape := range []string{"flat", "combine", "nested-first", "nested-last", "nested-middle"} {
				if shape != "flat" && vec%7 != 0 { // other constructions of the same sink list: sampled
					continue
				}
				if shape == "nested-middle" && k < 4 {
					continue
				}
				id := fmt.Sprintf("c13/multi/%d/%d/%s", k, vec, shape)
				if !r.Want(id) {
					continue
				}
				sinks := make([]*prog, k)
				ws := make([]zapcore.WriteSyncer, k)
				names := make([]string, k)
				v := vec
				min := len(payload)
				minPos := 0
				for i := 0; i < k; i++ {
					o := outcomes[v%len(outcomes)]
					v /= len(outcomes)
					sinks[i] = &prog{n: o.n(i)}
					if o.err {
						sinks[i].err = fmt.Errorf("write-error-sink-%d", i)
					}
					if (vec+i)%3 == 0 {
						sinks[i].syncErr = fmt.Errorf("sync-error-sink-%d", i)
						if vec%2 == 0 { // an operating-system error underneath, as real files, pipes and terminals give
							sinks[i].syncErr = fmt.Errorf("sync-error-sink-%d: %w", i, []error{syscall.EINVAL, syscall.ENOTTY, syscall.EIO}[(vec/2+i)%3])
						}
					}
					ws[i] = sinks[i]
					names[i] = o.name
					n := sinks[i].n
					if n < 0 {
						n = len(payload)
					}
					if n < min {
						min, minPos = n, i
					}
				}
				var m zapcore.WriteSyncer
				switch shape {
				case "combine":
					m = zap.CombineWriteSyncers(ws...)
				case "nested-first": // a multi-syncer as a member of another one, in first position
					m = zapcore.NewMultiWriteSyncer(append([]zapcore.WriteSyncer{zapcore.NewMultiWriteSyncer(ws[0], ws[1])}, ws[2:]...)...)
				case "nested-last":
					m = zapcore.NewMultiWriteSyncer(append(append([]zapcore.WriteSyncer{}, ws[:k-2]...), zapcore.NewMultiWriteSyncer(ws[k-2], ws[k-1]))...)
				case "nested-middle":
					m = zapcore.NewMultiWriteSyncer(ws[0], zapcore.NewMultiWriteSyncer(ws[1], ws[2]), ws[3])
					if k > 4 {
						m = zapcore.NewMultiWriteSyncer(m, ws[4])
					}
				default:
					m = zapcore.NewMultiWriteSyncer(ws...)
				}
				r.SetAdd("multi_syncer_constructions", shape)
				n, err := m.Write(payload)
				serr := m.Sync()
				total++
				r.Eval(1)
				if total%500 == 1 {
					r.Sample(map[string]any{"multi_syncer_outcomes": names, "payload_len": len(payload), "returned_n": n, "returned_err": fmt.Sprint(err), "sync_err": fmt.Sprint(serr)})
				}
				r.Distinct(fmt.Sprintf("m|%d|%d|%s", k, vec, shape))
				r.SetAdd("min_position", fmt.Sprintf("k=%d,min@%d", k, minPos))
				if minPos != 0 {
					r.Count("vectors_first_sink_not_minimum", 1)
				}
				wit := map[string]any{"sinks": names, "payload_len": len(payload), "returned_n": n, "returned_err": fmt.Sprint(err), "construction": shape}
				bad := func(class, f string, a ...any) {
					r.Violate(ev.Violation{Case: id, Class: class, Msg: fmt.Sprintf("multi-syncer %v: ", names) + fmt.Sprintf(f, a...), Witness: wit})
				}
				for i, s := range sinks {
					if len(s.got) != 1 || string(s.got[0]) != string(payload) {
						bad("multi-bytes", "sink %d did not receive exactly the payload once (got %q)", i, s.got)
					}
					if s.syncs != 1 {
						bad("multi-sync", "sink %d was synced %d times, want 1", i, s.syncs)
					}
					if s.err != nil && !hasErr(err, s.err) {
						bad("multi-error", "error of sink %d (%v) missing from the returned error %v", i, s.err, err)
					}
					if s.syncErr != nil && !hasErr(serr, s.syncErr) {
						bad("multi-sync-error", "sync error of sink %d missing from %v", i, serr)
					}
				}
				if n != min {
					class := "multi-count"
					zeroSeen := false
					for _, s := range sinks {
						if s.n == 0 {
							zeroSeen = true
						}
					}
					if zeroSeen {
						class = "multi-count:zero-count-sink"
					}
					bad(class, "returned count %d, want the smallest count any sink reported (%d)", n, min)
				}
				anyErr := false
				for _, s := range sinks {
					if s.err != nil {
						anyErr = true
					}
				}
				if !anyErr && err != nil {
					bad("multi-error", "no sink failed but Write returned %v", err)
				}
			}
		}
	}
	r.Extra("multi_vectors_enumerated", total)
	r.Extra("multi_max_sinks", maxK)
	r.Exhaustive(true)
}

type plainWriter struct {
	n   int
	err error
	got int
}

func (w *plainWriter) Write(p []byte) (int, error) {
	w.got++
	n := w.n
	if n < 0 {
		n = len(p)
	}
	return n, w.err
}

type richSyncer struct {
	prog
	others int
}

func (w *richSyncer) Flush() error { w.others++; return nil }
func (w *richSyncer) Close() error { w.others++; return nil }
func (w *richSyncer) Stop() error  { w.others++; return nil }

func wrappers(r *ev.Run) {
	// multi-syncers over sinks that swallow everything: the count is still the smallest count a sink
	// reported, which is len(p)
	for k := 1; k <= 4; k++ {
		for real := 0; real <= 1; real++ {
			id := fmt.Sprintf("c13/discards/%d/%d", k, real)
			if !r.Want(id) {
				continue
			}
			var ws []zapcore.WriteSyncer
			for j := 0; j < k; j++ {
				ws = append(ws, zapcore.AddSync(io.Discard))
			}
			var rs *prog
			if real == 1 {
				rs = &prog{n: -1}
				ws = append(ws[:k/2:k/2], append([]zapcore.WriteSyncer{rs}, ws[k/2:]...)...)
			}
			for _, m := range []zapcore.WriteSyncer{zapcore.NewMultiWriteSyncer(ws...), zap.CombineWriteSyncers(ws...)} {
				p := []byte("0123456789")
				n, err := m.Write(p)
				r.Eval(1)
				r.Distinct(fmt.Sprintf("discards|%d|%d|%T", k, real, m))
				if n != len(p) || err != nil {
					r.Violate(ev.Violation{Case: id, Class: "multi-count", Msg: fmt.Sprintf("a multi-syncer over %d AddSync(io.Discard) sinks (+%d recording sink) returned (%d, %v) for a %d-byte write every sink accepted in full", k, real, n, err, len(p))})
				}
				if serr := m.Sync(); serr != nil {
					r.Violate(ev.Violation{Case: id, Class: "multi-sync", Msg: fmt.Sprintf("Sync over discarding sinks returned %v", serr)})
				}
			}
			if rs != nil && (len(rs.got) != 2 || rs.syncs != 2) {
				r.Violate(ev.Violation{Case: id, Class: "multi-bytes", Msg: fmt.Sprintf("the recording sink among discarding ones received %d writes and %d syncs, want 2 and 2", len(rs.got), rs.syncs)})
			}
		}
	}
	e1 := errors.New("boom")
	for i, c := range []struct {
		n   int
		err error
	}{{-1, nil}, {3, nil}, {0, nil}, {-1, e1}, {3, e1}, {0, e1}, {7, io.ErrShortWrite},
		// errors of the kind the operating system reports (for a Sync on a terminal or pipe, a full disk,
		// a closed file), bare and wrapped: results are relayed, not interpreted
		{-1, syscall.EINVAL}, {-1, syscall.ENOTTY}, {0, syscall.ENOSPC}, {-1, fmt.Errorf("sync /dev/stdout: %w", syscall.EINVAL)}, {-1, &os.PathError{Op: "sync", Path: "/dev/stdout", Err: syscall.ENOTTY}}, {0, os.ErrClosed}, {-1, io.EOF}} {
		id := fmt.Sprintf("c13/wrap/%d", i)
		if !r.Want(id) {
			continue
		}
		p := []byte("0123456789")
		want := c.n
		if want < 0 {
			want = len(p)
		}
		// AddSync over a plain writer
		pw := &plainWriter{n: c.n, err: c.err}
		ws := zapcore.AddSync(pw)
		n, err := ws.Write(p)
		r.Eval(1)
		r.Distinct(fmt.Sprintf("wrap|%d", i))
		if n != want || err != c.err || pw.got != 1 {
			r.Violate(ev.Violation{Case: id, Class: "addsync-relay", Msg: fmt.Sprintf("AddSync changed the result: wrapped returned (%d,%v), wrapper returned (%d,%v)", want, c.err, n, err)})
		}
		if err := ws.Sync(); err != nil {
			r.Violate(ev.Violation{Case: id, Class: "addsync-noop-sync", Msg: fmt.Sprintf("AddSync over a plain writer: Sync returned %v, want nil", err)})
		}
		// AddSync over something that already has Sync keeps it
		s := &prog{n: c.n, err: c.err, syncErr: c.err}
		ws2 := zapcore.AddSync(s)
		if ws2 != zapcore.WriteSyncer(s) {
			r.Violate(ev.Violation{Case: id, Class: "addsync-identity", Msg: "AddSync wrapped a value that already is a WriteSyncer"})
		}
		if err := ws2.Sync(); err != c.err || s.syncs != 1 {
			r.Violate(ev.Violation{Case: id, Class: "addsync-keeps-sync", Msg: fmt.Sprintf("AddSync did not keep the existing Sync (err=%v syncs=%d)", err, s.syncs)})
		}
		// ... also when the value has further methods of the flushing/closing kind: Sync is the one kept,
		// none of the others is called in its place
		rich := &richSyncer{prog: prog{n: c.n, err: c.err, syncErr: c.err}}
		ws4 := zapcore.AddSync(rich)
		n, err = ws4.Write(p)
		serr := ws4.Sync()
		if n != want || err != c.err || serr != c.err || rich.syncs != 1 || rich.others != 0 {
			r.Violate(ev.Violation{Case: id, Class: "addsync-keeps-sync", Msg: fmt.Sprintf("AddSync over a writer that has Sync and also Flush/Close/Stop: Write (%d,%v) want (%d,%v); Sync returned %v want %v; the writer's own Sync ran %d times (want 1), its other methods %d times (want 0)", n, err, want, c.err, serr, c.err, rich.syncs, rich.others)})
		}
		r.Count("addsync_over_sync_plus_flush_close_stop", 1)
		// Lock relays
		s3 := &prog{n: c.n, err: c.err, syncErr: c.err}
		l := zapcore.Lock(s3)
		n, err = l.Write(p)
		if n != want || err != c.err || len(s3.got) != 1 || string(s3.got[0]) != string(p) {
			r.Violate(ev.Violation{Case: id, Class: "lock-relay", Msg: fmt.Sprintf("Lock changed the result: wrapped (%d,%v), wrapper (%d,%v)", want, c.err, n, err)})
		}
		if err := l.Sync(); err != c.err || s3.syncs != 1 {
			r.Violate(ev.Violation{Case: id, Class: "lock-relay-sync", Msg: fmt.Sprintf("Lock changed the Sync result: %v", err)})
		}
		l2 := zapcore.Lock(l)
		if n2, err2 := l2.Write(p); n2 != want || err2 != c.err {
			r.Violate(ev.Violation{Case: id, Class: "lock-relay", Msg: "Lock(Lock(x)) changed the result"})
		}
	}
}

// exclSink asserts mutual exclusion with an unsynchronised in-flight counter.
type exclSink struct {
	inflight int
	maxSeen  int
	ops      int
}

func (s *exclSink) enter() {
	s.inflight++
	if s.inflight > s.maxSeen {
		s.maxSeen = s.inflight
	}
	for i := 0; i < 50; i++ {
		s.ops++
	}
	s.inflight--
}
func (s *exclSink) Write(p []byte) (int, error) { s.enter(); return len(p), nil }
func (s *exclSink) Sync() error                 { s.enter(); return nil }

// exclView is a second handle on one exclSink: several members of a multi-syncer that all end in
// the same unsynchronised state.
type exclView struct{ s *exclSink }

func (v exclView) Write(p []byte) (int, error) { v.s.enter(); return len(p), nil }
func (v exclView) Sync() error                 { v.s.enter(); return nil }

// Child runs the Lock mutual-exclusion workload (race build).
func Child(r *ev.Run, args []string) {
	runs := r.N(40, 600)
	for i := 0; i < runs; i++ {
		g := rng.For(r.Seed, "c13/lock", i)
		s := &exclSink{}
		var ws zapcore.WriteSyncer = zapcore.Lock(s)
		mult := 1 // how many times one call reaches the (shared) sink
		topo := "Lock(sink)"
		switch g.Intn(5) {
		case 0:
			ws = zap.CombineWriteSyncers(s, zapcore.AddSync(io.Discard))
			topo = "CombineWriteSyncers(sink, discard)"
		case 1:
			// the members are locked themselves: the outer Lock must still make the fan-out as a whole exclusive
			ws = zapcore.Lock(zapcore.NewMultiWriteSyncer(zapcore.Lock(exclView{s}), zapcore.Lock(exclView{s})))
			mult, topo = 2, "Lock(multi(Lock(view), Lock(view)))"
		case 2:
			ws = zap.CombineWriteSyncers(zapcore.Lock(exclView{s}), zapcore.Lock(exclView{s}), exclView{s})
			mult, topo = 3, "CombineWriteSyncers(Lock(view), Lock(view), view)"
		}
		r.SetAdd("lock_topologies", topo)
		ng := g.Range(2, 16)
		per := g.Range(20, 200)
		var wg sync.WaitGroup
		start := make(chan struct{})
		for k := 0; k < ng; k++ {
			wg.Add(1)
			seed := g.Uint64()
			go func() {
				defer wg.Done()
				<-start
				x := seed
				for j := 0; j < per; j++ {
					x = x*6364136223846793005 + 1442695040888963407
					if x>>60 < 3 {
						_ = ws.Sync()
					} else {
						_, _ = ws.Write([]byte("line\n"))
					}
				}
			}()
		}
		close(start)
		wg.Wait()
		r.Eval(1)
		r.Distinct(fmt.Sprintf("lock|%d|%d|%d", i, ng, per))
		r.Count("lock_ops", int64(ng*per))
		if s.maxSeen > 1 {
			r.Violate(ev.Violation{Case: fmt.Sprintf("c13/lock/%d", i), Class: "lock-overlap", Msg: fmt.Sprintf("%s: Write/Sync overlapped inside Lock: %d calls in flight at once", topo, s.maxSeen)})
		}
		if s.ops != ng*per*50*mult {
			r.Violate(ev.Violation{Case: fmt.Sprintf("c13/lock/%d", i), Class: "lock-overlap", Msg: fmt.Sprintf("%s: %d of %d sink operations took effect (overlapping calls lost updates, or a Write/Sync did not reach the sink)", topo, s.ops, ng*per*50*mult)})
		}
	}
}

// chunkSink accepts at most max bytes per call and reports that count with a nil error (a
// legal if unusual writer that always makes progress); failAt > 0 makes call number failAt
// return (0, error).
type chunkSink struct {
	max    int
	got    []byte
	calls  int
	failAt int
	syncs  int
}

func (c *chunkSink) Write(p []byte) (int, error) {
	c.calls++
	if c.failAt > 0 && c.calls == c.failAt {
		return 0, errors.New("chunk sink failure")
	}
	n := len(p)
	if n > c.max {
		n = c.max
	}
	c.got = append(c.got, p[:n]...)
	return n, nil
}
func (c *chunkSink) Sync() error { c.syncs++; return nil }

// bufferedOverPartialSink drives BufferedWriteSyncer over sinks that write short: whatever
// the sink does, each Write must return (len(p), nil) or a non-nil error - never a short
// count with a nil error - and bytes acknowledged while no error was ever returned must
// all have reached the sink after Sync.
func bufferedOverPartialSink(r *ev.Run) {
	n := r.N(3000, 500000)
	for i := 0; i < n; i++ {
		id := fmt.Sprintf("c13/buffered-partial/%d", i)
		if !r.Want(id) {
			continue
		}
		g := rng.For(r.Seed, "c13/bufpart", i)
		size := rng.Pick(g, []int{8, 16, 64, 300})
		cs := &chunkSink{max: rng.Pick(g, []int{1, 3, size - 1, size, size + 1, 4 * size, 1 << 20})}
		if g.P(1, 4) {
			cs.failAt = g.Range(1, 6)
		}
		b := &zapcore.BufferedWriteSyncer{WS: cs, Size: size, FlushInterval: time.Hour}
		var acked []byte
		sawErr := false
		var trace []string
		nops := g.Range(2, 12)
		for k := 0; k < nops; k++ {
			if g.P(1, 5) {
				err := b.Sync()
				trace = append(trace, fmt.Sprintf("Sync -> %v", err))
				if err != nil {
					sawErr = true
				} else if !sawErr && !bytes.Equal(cs.got, acked) {
					r.Violate(ev.Violation{Case: id, Class: "buffered-partial-lost", Msg: fmt.Sprintf("BufferedWriteSyncer(Size=%d) over a sink accepting %d bytes per call: every Write returned (len(p), nil) and Sync returned nil, but the sink received %d of the %d acknowledged bytes", size, cs.max, len(cs.got), len(acked)), Witness: trace})
					break
				}
				continue
			}
			ln := rng.Pick(g, []int{0, 1, size - 1, size, size + 1, 2*size + 3, 5 * size})
			p := make([]byte, ln)
			for j := range p {
				p[j] = byte('a' + (len(acked)+j)%26)
			}
			var wn int
			var err error
			pn := ev.Guard(func() { wn, err = b.Write(p) })
			trace = append(trace, fmt.Sprintf("Write(%d) -> (%d, %v)", ln, wn, err))
			r.SetAdd("buffered_partial_classes", fmt.Sprintf("size%d/max%s/len%s", size, rel(cs.max, size), rel(ln, size)))
			if pn != "" {
				r.Violate(ev.Violation{Case: id, Class: "writer-panic", Msg: "BufferedWriteSyncer.Write panicked: " + pn, Witness: trace})
				break
			}
			if err != nil {
				sawErr = true
				continue
			}
			if wn != len(p) {
				r.Violate(ev.Violation{Case: id, Class: "writer-count:BufferedWriteSyncer-over-partial-sink", Msg: fmt.Sprintf("BufferedWriteSyncer(Size=%d) over a sink accepting %d bytes per call: Write(%d bytes) returned (%d, nil): a count below len(p) without an error", size, cs.max, ln, wn), Witness: trace})
				break
			}
			acked = append(acked, p...)
		}
		_ = b.Stop()
		r.Eval(1)
		r.Distinct(fmt.Sprintf("bufpart|%d", i))
	}
}

func rel(a, size int) string {
	switch {
	case a == 0:
		return "=0"
	case a < size:
		return "<size"
	case a == size:
		return "=size"
	}
	return ">size"
}

// bufferedLateWrites (round 8): a BufferedWriteSyncer that reports (len(p), nil) has accepted p for *its*
// sink - also when the write comes after Stop and another syncer of the same size has been created and
// used in the meantime.  Each history: syncer A is used and stopped, syncer B is created and written to,
// A gets late writes; after A.Sync (nil) A's sink holds every byte A acknowledged and nothing else.
func bufferedLateWrites(r *ev.Run) {
	n := r.N(300, 6000)
	for i := 0; i < n; i++ {
		id := fmt.Sprintf("c13/buffered-late-write/%d", i)
		if !r.Want(id) {
			continue
		}
		g := rng.For(r.Seed, "c13/late", i)
		size := rng.Pick(g, []int{0, 0, 64, 1024})
		sa, sb := &rec.Sink{Name: "A"}, &rec.Sink{Name: "B"}
		a := &zapcore.BufferedWriteSyncer{WS: sa, Size: size, FlushInterval: time.Hour}
		var ackA, ackB []byte
		write := func(b *zapcore.BufferedWriteSyncer, who string, ack *[]byte, k int) bool {
			p := []byte(fmt.Sprintf("<%s %d %s>\n", who, k, strings.Repeat(who, g.Intn(30))))
			wn, err := b.Write(p)
			if wn != len(p) || err != nil {
				r.Violate(ev.Violation{Case: id, Class: "writer-count:BufferedWriteSyncer-late-write", Msg: fmt.Sprintf("syncer %s (Size=%d): Write(%d bytes) returned (%d, %v)", who, size, len(p), wn, err)})
				return false
			}
			*ack = append(*ack, p...)
			return true
		}
		ok := true
		for k := 0; k < 1+g.Intn(3) && ok; k++ {
			ok = write(a, "A", &ackA, k)
		}
		_ = a.Stop()
		b := &zapcore.BufferedWriteSyncer{WS: sb, Size: size, FlushInterval: time.Hour}
		for k := 0; k < 1+g.Intn(3) && ok; k++ {
			ok = write(b, "B", &ackB, k)
		}
		for k := 10; k < 11+g.Intn(3) && ok; k++ {
			ok = write(a, "A", &ackA, k)
			if ok && g.P(1, 2) {
				ok = write(b, "B", &ackB, k)
			}
		}
		errA := a.Sync()
		errB := b.Stop()
		r.Eval(1)
		r.Distinct(fmt.Sprintf("late|%d|%d", size, i))
		r.Count("late_write_histories", 1)
		if !ok {
			continue
		}
		if errA != nil || errB != nil {
			r.Violate(ev.Violation{Case: id, Class: "buffered-partial-lost", Msg: fmt.Sprintf("Size=%d: Sync of the stopped syncer returned %v, Stop of the second returned %v over sinks that never fail", size, errA, errB)})
			continue
		}
		if got := sa.All(); !bytes.Equal(got, ackA) {
			r.Violate(ev.Violation{Case: id, Class: "buffered-partial-lost", Msg: fmt.Sprintf("BufferedWriteSyncer(Size=%d) written to after Stop while a second syncer exists: every Write returned (len(p), nil) and Sync returned nil, but its sink holds %d bytes where %d were acknowledged (sink ends %q; the other sink holds %d bytes, its syncer acknowledged %d)", size, len(got), len(ackA), tailS(got), len(sb.All()), len(ackB))})
			continue
		}
		if got := sb.All(); !bytes.Equal(got, ackB) {
			r.Violate(ev.Violation{Case: id, Class: "buffered-partial-lost", Msg: fmt.Sprintf("BufferedWriteSyncer(Size=%d) created after another one was stopped: its sink holds %d bytes where %d were acknowledged (sink ends %q)", size, len(got), len(ackB), tailS(got))})
		}
	}
}

func tailS(b []byte) string {
	if len(b) > 60 {
		b = b[len(b)-60:]
	}
	return string(b)
}

// Run is the C13 monitor.
func Run(r *ev.Run) {
	r.Rule = "writers: every zap-provided writer x payload table (empty, whitespace-only, trailing newlines, 1 MiB, random); BufferedWriteSyncer over sinks that accept only part of each write (nil error) or fail once, with write lengths around and above Size; multi-syncer: every outcome vector over {full,short,zero}x{nil,error} for k sinks enumerated, on Write and Sync; wrappers: AddSync/Lock relay table; Lock exclusion: concurrent Write/Sync in a -race child with an unsynchronised in-flight counter; distinct = distinct (writer,payload) / vectors / runs; late writes: a syncer written to after Stop next to a fresh syncer of the same size, each sink compared with what its syncer acknowledged"
	// every part runs under a watchdog: a wrapper that keeps its mutex after an error would
	// otherwise hang the check itself; blocked-forever is decided by quiescence, not by time
	for _, part := range []struct {
		name string
		f    func(*ev.Run)
	}{{"writers", writers}, {"buffered-over-partial-sink", bufferedOverPartialSink}, {"buffered-late-writes", bufferedLateWrites}, {"multi", multi}, {"wrappers", wrappers}} {
		h := mon.Watch(45*time.Second, func() { part.f(r) }, "lockedWriteSyncer", "BufferedWriteSyncer", "props/c13")
		switch {
		case h.Panicked != "":
			r.Violate(ev.Violation{Case: "c13/" + part.name, Class: "writer-panic", Msg: "the " + part.name + " part panicked: " + h.Panicked})
		case h.Dead:
			r.Violate(ev.Violation{Case: "c13/" + part.name, Class: "writer-deadlock", Msg: "a Write or Sync through one of zap's writers never returned: every goroutine involved is blocked with an unchanged stack (a lock that is not released on some path?)", Witness: h.Dump})
			return
		case h.Hung:
			r.Inconclusive("c13/" + part.name + ": did not finish within the watchdog but goroutines are still moving")
			return
		}
	}
	if r.Only == "" {
		o := mon.ChildOpts{Race: true, Prop: "C13", Args: []string{"lock"}, Timeout: 15 * time.Minute}
		oc := mon.RunChild(r, o)
		mon.Judge(r, o, oc, "c13/lock")
	}
}
