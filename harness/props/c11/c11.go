// Package c11 monitors C11: the sampling core admits the first N then every
// Mth entry per level and message per tick.
package c11

import (
	"bytes"
	"fmt"
	"os"
	"path/filepath"
	"runtime"
	"sync"
	"sync/atomic"
	"time"

	"go.uber.org/zap"
	"go.uber.org/zap/internal/verifhook"
	"go.uber.org/zap/verif/internal/ev"
	"go.uber.org/zap/verif/internal/mon"
	"go.uber.org/zap/verif/internal/rng"
	"go.uber.org/zap/zapcore"
	"go.uber.org/zap/zaptest/observer"
)

func fnv32a(s string) uint32 {
	h := uint32(2166136261)
	for i := 0; i < len(s); i++ {
		h ^= uint32(s[i])
		h *= 16777619
	}
	return h
}

// colliding returns a message different from base that falls into the same bucket.
func colliding(base string) string {
	want := fnv32a(base) % 4096
	for i := 0; ; i++ {
		m := fmt.Sprintf("%s#%d", base, i)
		if fnv32a(m)%4096 == want {
			return m
		}
	}
}

type key struct {
	lvl    zapcore.Level
	bucket uint32
}

type window struct {
	end   int64
	count uint64
}

// model is the reference sampler.
type model struct {
	n, m  uint64
	tick  int64
	state map[key]*window
}

func (md *model) decide(lvl zapcore.Level, msg string, ts int64) (counted, admit bool) {
	if lvl < zapcore.DebugLevel || lvl > zapcore.FatalLevel {
		return false, true
	}
	k := key{lvl, fnv32a(msg) % 4096}
	w := md.state[k]
	if w == nil {
		w = &window{}
		md.state[k] = w
	}
	if ts >= w.end {
		w.count = 1
		w.end = ts + md.tick
	} else {
		w.count++
	}
	c := w.count
	return true, c <= md.n || (md.m > 0 && (c-md.n)%md.m == 0)
}

type hookRec struct {
	msg string
	lvl zapcore.Level
	ts  int64
	dec zapcore.SamplingDecision
}

type step struct {
	lvl  zapcore.Level
	msg  string
	ts   int64
	via  int // which of the derived cores issues it
	desc string
}

func seqProgram(r *ev.Run, id string, i int) {
	g := rng.For(r.Seed, "c11/seq", i)
	// counts far beyond anything a program reaches are still the counts that were asked for
	n := rng.Pick(g, []int{0, 1, 2, 3, 4, 5, 5, 10, 100, 0, 1, 2, 3, 4, 5, 5, 10, 100, 1 << 32, 1<<32 + 1, 1 << 40})
	m := rng.Pick(g, []int{0, 1, 2, 3, 4, 5, 7, 100, 0, 1, 2, 3, 4, 5, 7, 100, 1 << 32, 1<<32 + 2, 1<<33 + 3})
	tick := rng.Pick(g, []time.Duration{0, 1, 10, 10, 1000, time.Second, time.Second})
	thr := rng.Pick(g, []zapcore.Level{zapcore.DebugLevel, zapcore.DebugLevel, zapcore.InfoLevel, zapcore.WarnLevel})
	al := zap.NewAtomicLevelAt(thr) // the threshold moves during the program: budget must not be consumed while a level is disabled
	base, logs := observer.New(al)
	// one program in five samples a tee of two selective cores instead (one takes info only, the other
	// error and above): debug and warn fall into the gaps, where nothing is enabled
	selective := g.P(1, 5)
	var teeFwd []int
	if selective {
		base = zapcore.NewTee(&fwdCore{en: zap.LevelEnablerFunc(func(l zapcore.Level) bool { return l == zapcore.InfoLevel }), out: &teeFwd},
			&fwdCore{en: zap.LevelEnablerFunc(func(l zapcore.Level) bool { return l >= zapcore.ErrorLevel }), out: &teeFwd})
		r.Count("programs_over_a_tee_of_selective_cores", 1)
	}
	enabledModel := func(l zapcore.Level) bool {
		if selective {
			return l == zapcore.InfoLevel || l >= zapcore.ErrorLevel
		}
		return l >= thr
	}
	var hooks []hookRec
	s := zapcore.NewSamplerWithOptions(base, tick, n, m, zapcore.SamplerHook(func(e zapcore.Entry, d zapcore.SamplingDecision) {
		hooks = append(hooks, hookRec{e.Message, e.Level, e.Time.UnixNano(), d})
	}))
	cores := []zapcore.Core{s, s.With([]zapcore.Field{zap.Int("w", 1)}), s.With([]zapcore.Field{zap.Int("w", 2)}).With([]zapcore.Field{zap.Int("w", 3)})}
	md := &model{n: uint64(n), m: uint64(m), tick: int64(tick), state: map[key]*window{}}
	// message alphabets: ASCII, non-ASCII text, and binary / invalid UTF-8 (the bucket is the
	// byte-wise FNV-1a the source documents, whatever the bytes are)
	var msgs []string
	switch g.Intn(3) {
	case 0:
		msgs = []string{"alpha", "beta", colliding("alpha"), "gamma"}
		r.Count("programs_ascii_messages", 1)
	case 1:
		msgs = []string{"requête é", "日本語のメッセージ", colliding("requête é"), "réponse ü"}
		r.Count("programs_non_ascii_messages", 1)
	default:
		msgs = []string{"payload \x80", "\xff", colliding("payload \x80"), "\xfe", "payload \x81", "\xc3"}
		r.Count("programs_binary_messages", 1)
	}
	levels := []zapcore.Level{zapcore.DebugLevel, zapcore.InfoLevel, zapcore.ErrorLevel}
	if selective {
		levels = append(levels, zapcore.WarnLevel, zapcore.WarnLevel)
	}
	r.SetAdd("n_m_tick", fmt.Sprintf("%d/%d/%v", n, m, tick))
	steps := g.Range(40, 400)
	ts := int64(1_000_000_000 + g.Intn(1000))
	var trace []string
	var wantFwd []int
	var wantHooks []hookRec
	var lastEnd int64
	for k := 0; k < steps; k++ {
		// place the timestamp relative to the current window end of a random key: exactly at it, one
		// nanosecond either side, equal to the previous one, a step back inside the window, or a jump
		var place string
		switch g.Intn(10) {
		case 0:
			if lastEnd > 0 {
				ts, place = lastEnd, "at-window-end"
			}
		case 1:
			if lastEnd > 1 {
				ts, place = lastEnd-1, "end-minus-1ns"
			}
		case 2:
			if lastEnd > 0 {
				ts, place = lastEnd+1, "end-plus-1ns"
			}
		case 3:
			place = "equal-timestamp"
		case 4:
			if ts > 5 {
				ts -= int64(g.Intn(4))
				place = "backward-step"
			}
		case 5:
			ts += int64(tick) + int64(g.Intn(3))
			place = "jump-a-tick"
		default:
			ts += int64(g.Intn(4))
		}
		if place != "" {
			r.Count("placement:"+place, 1)
		}
		if g.P(1, 15) {
			thr = rng.Pick(g, []zapcore.Level{zapcore.DebugLevel, zapcore.InfoLevel, zapcore.WarnLevel, zapcore.ErrorLevel})
			al.SetLevel(thr)
			trace = append(trace, fmt.Sprintf("threshold -> %v", thr))
			r.Count("threshold_changes", 1)
		}
		lvl := rng.Pick(g, levels)
		if g.P(1, 12) {
			lvl = rng.Pick(g, []zapcore.Level{-2, 6, 100, -128}) // out of range: bypasses sampling
		}
		if g.P(1, 10) {
			lvl = zapcore.DebugLevel // often disabled by the threshold
		}
		msg := rng.Pick(g, msgs)
		via := g.Intn(len(cores))
		ent := zapcore.Entry{Level: lvl, Message: msg, Time: time.Unix(0, ts)}
		ets := ts
		if g.P(1, 25) {
			// an entry that carries no timestamp at all (the zero Time): still judged by what it carries,
			// which lies before every window, never by the wall clock
			ent.Time = time.Time{}
			ets = ent.Time.UnixNano()
			place += " zero-time"
			r.Count("placement:zero-time-entry", 1)
		}
		trace = append(trace, fmt.Sprintf("#%d lvl=%d msg=%q ts=%d via=%d %s", k, lvl, msg, ets, via, place))
		if enabledModel(lvl) { // the model: disabled levels are skipped before counting
			counted, admit := md.decide(lvl, msg, ets)
			if counted {
				d := zapcore.LogDropped
				if admit {
					d = zapcore.LogSampled
				}
				wantHooks = append(wantHooks, hookRec{msg, lvl, ets, d})
				if w := md.state[key{lvl, fnv32a(msg) % 4096}]; w != nil {
					lastEnd = w.end
				}
				if msg == msgs[2] || msg == msgs[0] {
					r.Count("bucket_collision_entries", 1)
				}
			} else {
				r.Count("out_of_range_level_entries", 1)
			}
			if admit {
				wantFwd = append(wantFwd, k)
			}
		} else {
			r.Count("disabled_level_entries", 1)
		}
		if ce := cores[via].Check(ent, nil); ce != nil {
			ce.Write(zap.Int("i", k))
		}
	}
	r.Count("sequential_entries", int64(steps))
	fail := func(class, f string, a ...any) {
		tr := trace
		if len(tr) > 60 {
			tr = tr[:60]
		}
		r.Violate(ev.Violation{Case: id, Class: class, Msg: fmt.Sprintf("N=%d M=%d tick=%v threshold=%v: ", n, m, tick, thr) + fmt.Sprintf(f, a...), Witness: map[string]any{"N": n, "M": m, "tick": tick.String(), "entries": tr}})
	}
	gotFwd := teeFwd
	for _, e := range logs.All() {
		for _, f := range e.Context {
			if f.Key == "i" {
				gotFwd = append(gotFwd, int(f.Integer))
			}
		}
	}
	if fmt.Sprint(gotFwd) != fmt.Sprint(wantFwd) {
		d := firstDiff(gotFwd, wantFwd)
		fail("sampler-admission", "entries reaching the wrapped core differ from 'first N then every Mth per level+message per tick': first difference at position %d (got entry %v, want %v); got %d entries, want %d", d, at(gotFwd, d), at(wantFwd, d), len(gotFwd), len(wantFwd))
		return
	}
	if len(hooks) != len(wantHooks) {
		fail("sampler-hook", "decision hook called %d times, want %d (once per decided entry)", len(hooks), len(wantHooks))
		return
	}
	for k := range hooks {
		if hooks[k] != wantHooks[k] {
			fail("sampler-hook", "hook call %d is %+v, want %+v", k, hooks[k], wantHooks[k])
			return
		}
	}
	if i < 2 {
		tr := trace
		if len(tr) > 12 {
			tr = tr[:12]
		}
		r.Sample(map[string]any{"N": n, "M": m, "tick": tick.String(), "entries": tr, "admitted": len(wantFwd)})
	}
}

// fwdCore records the "i" field of every entry written to it.
type fwdCore struct {
	en  zapcore.LevelEnabler
	out *[]int
	ctx []zapcore.Field
}

func (c *fwdCore) Enabled(l zapcore.Level) bool { return c.en.Enabled(l) }
func (c *fwdCore) With(fs []zapcore.Field) zapcore.Core {
	return &fwdCore{en: c.en, out: c.out, ctx: append(c.ctx[:len(c.ctx):len(c.ctx)], fs...)}
}
func (c *fwdCore) Check(e zapcore.Entry, ce *zapcore.CheckedEntry) *zapcore.CheckedEntry {
	if c.Enabled(e.Level) {
		return ce.AddCore(e, c)
	}
	return ce
}
func (c *fwdCore) Write(_ zapcore.Entry, fs []zapcore.Field) error {
	for _, f := range fs {
		if f.Key == "i" {
			*c.out = append(*c.out, int(f.Integer))
		}
	}
	return nil
}
func (c *fwdCore) Sync() error { return nil }

func firstDiff(a, b []int) int {
	for i := 0; i < len(a) && i < len(b); i++ {
		if a[i] != b[i] {
			return i
		}
	}
	if len(a) < len(b) {
		return len(a)
	}
	return len(b)
}

func at(a []int, i int) any {
	if i < len(a) {
		return a[i]
	}
	return "<none>"
}

type stepClock struct{ ts *int64 }

func (c stepClock) Now() time.Time                         { return time.Unix(0, *c.ts) }
func (c stepClock) NewTicker(d time.Duration) *time.Ticker { return time.NewTicker(d) }

// buildProgram drives the sampler that Config.Build installs (tick = 1s) through a real Logger.
func buildProgram(r *ev.Run, id string, i int) {
	g := rng.For(r.Seed, "c11/build", i)
	n, m := g.Intn(4), g.Intn(4)
	file := filepath.Join(ev.WorkDir(), fmt.Sprintf("c11-build-%d.log", i))
	defer os.Remove(file)
	var hooks []hookRec
	cfg := zap.NewProductionConfig()
	cfg.OutputPaths, cfg.ErrorOutputPaths = []string{file}, []string{file + ".err"}
	defer os.Remove(file + ".err")
	cfg.Sampling = &zap.SamplingConfig{Initial: n, Thereafter: m, Hook: func(e zapcore.Entry, d zapcore.SamplingDecision) {
		hooks = append(hooks, hookRec{e.Message, e.Level, e.Time.UnixNano(), d})
	}}
	ts := int64(2_000_000_000)
	lg, err := cfg.Build(zap.WithClock(stepClock{&ts}))
	if err != nil {
		r.Inconclusive(id + ": Build failed: " + err.Error())
		return
	}
	md := &model{n: uint64(n), m: uint64(m), tick: int64(time.Second), state: map[key]*window{}}
	want := 0
	steps := g.Range(20, 80)
	for k := 0; k < steps; k++ {
		switch g.Intn(6) {
		case 0:
			ts += int64(time.Second)
		case 1:
			ts += int64(time.Second) - 1
		default:
			ts += int64(g.Intn(1000))
		}
		lvl := rng.Pick(g, []zapcore.Level{zapcore.DebugLevel, zapcore.InfoLevel, zapcore.WarnLevel})
		msg := rng.Pick(g, []string{"a", "b"})
		child := lg
		if g.Bool() {
			child = lg.With(zap.Int("c", k))
		}
		child.Log(lvl, msg)
		if lvl >= zapcore.InfoLevel {
			if _, admit := md.decide(lvl, msg, ts); admit {
				want++
			}
		}
	}
	_ = lg.Sync()
	b, _ := os.ReadFile(file)
	got := bytes.Count(b, []byte("\n"))
	r.Count("config_build_entries", int64(steps))
	if got != want {
		r.Violate(ev.Violation{Case: id, Class: "sampler-config-build", Msg: fmt.Sprintf("Config.Build sampler Initial=%d Thereafter=%d: %d lines written, model says %d", n, m, got, want)})
	}
}

// ---- concurrent part (race build) ----------------------------------------------------------

type slotCore struct {
	zapcore.LevelEnabler
	fwd  []atomic.Int32
	base int64
}

func (c *slotCore) With([]zapcore.Field) zapcore.Core { return c }
func (c *slotCore) Check(e zapcore.Entry, ce *zapcore.CheckedEntry) *zapcore.CheckedEntry {
	return ce.AddCore(e, c)
}
func (c *slotCore) Write(e zapcore.Entry, _ []zapcore.Field) error {
	c.fwd[e.Time.UnixNano()-c.base].Add(1)
	return nil
}
func (c *slotCore) Sync() error { return nil }

// Child runs the concurrent sampler workload.
func Child(r *ev.Run, args []string) {
	var pointHits atomic.Int64
	verifhook.Set(func(name string) {
		if name == "sampler.reset.between" {
			pointHits.Add(1)
			runtime.Gosched()
		}
	})
	defer verifhook.Set(nil)
	runs := r.N(150, 6000)
	for i := 0; i < runs; i++ {
		g := rng.For(r.Seed, "c11/conc", i)
		n := rng.Pick(g, []int{0, 1, 2, 3, 5, 10, 50})
		m := rng.Pick(g, []int{0, 1, 2, 3, 7})
		ng := g.Range(2, 16)
		per := g.Range(5, 120)
		total := ng*per + 1
		storm := i%3 == 2 // rollover storm: timestamps cross many windows; only per-entry accounting is judged
		tick := time.Duration(total + 10)
		if storm {
			tick = time.Duration(g.Range(1, 8))
		}
		const base = int64(5_000_000_000)
		leaf := &slotCore{LevelEnabler: zapcore.DebugLevel, fwd: make([]atomic.Int32, total), base: base}
		hookSampled := make([]atomic.Int32, total)
		hookDropped := make([]atomic.Int32, total)
		s := zapcore.NewSamplerWithOptions(leaf, tick, n, m, zapcore.SamplerHook(func(e zapcore.Entry, d zapcore.SamplingDecision) {
			idx := e.Time.UnixNano() - base
			if d == zapcore.LogSampled {
				hookSampled[idx].Add(1)
			} else {
				hookDropped[idx].Add(1)
			}
		}))
		derived := s.With([]zapcore.Field{zap.Int("w", 1)})
		// open the window sequentially with entry 0
		if ce := s.Check(zapcore.Entry{Level: zapcore.InfoLevel, Message: "k", Time: time.Unix(0, base)}, nil); ce != nil {
			ce.Write()
		}
		var wg sync.WaitGroup
		start := make(chan struct{})
		for w := 0; w < ng; w++ {
			wg.Add(1)
			w := w
			go func() {
				defer wg.Done()
				<-start
				c := s
				if w%2 == 1 {
					c = derived
				}
				for k := 0; k < per; k++ {
					idx := 1 + w*per + k
					if ce := c.Check(zapcore.Entry{Level: zapcore.InfoLevel, Message: "k", Time: time.Unix(0, base+int64(idx))}, nil); ce != nil {
						ce.Write()
					}
				}
			}()
		}
		close(start)
		wg.Wait()
		r.Eval(1)
		r.Distinct(fmt.Sprintf("conc|%d|%d|%d|%d|%v", n, m, ng, per, storm))
		admitted := 0
		bad := ""
		for idx := 0; idx < total; idx++ {
			hs, hd, fw := hookSampled[idx].Load(), hookDropped[idx].Load(), leaf.fwd[idx].Load()
			if hs+hd != 1 {
				bad = fmt.Sprintf("entry %d got %d decision-hook calls (sampled=%d dropped=%d), want exactly 1", idx, hs+hd, hs, hd)
				break
			}
			if fw != hs {
				bad = fmt.Sprintf("entry %d: hook said sampled=%d but it was forwarded %d times", idx, hs, fw)
				break
			}
			admitted += int(fw)
		}
		cls := "sampler-concurrent-accounting"
		if bad == "" && !storm {
			c := total
			want := c
			if c > n {
				want = n
				if m > 0 {
					want += (c - n) / m
				}
			}
			if admitted != want {
				bad = fmt.Sprintf("all %d entries of one key fell into one open window: %d admitted, exact count is min(c,N)+floor((c-N)/M) = %d", c, admitted, want)
				cls = "sampler-concurrent-count"
			}
			r.Count("exact_count_verdicts", 1)
		} else if storm {
			r.Count("rollover_storm_runs", 1)
		}
		if bad != "" {
			r.Violate(ev.Violation{Case: fmt.Sprintf("c11/conc/%d", i), Class: cls, Msg: fmt.Sprintf("N=%d M=%d goroutines=%d x %d storm=%v: %s", n, m, ng, per, storm, bad)})
		}
	}
	r.Count("hook_point_hits:sampler.reset.between", pointHits.Load())
	disjointKeys(r)
}

// countCore forwards nothing; it counts per message index what reached it.
type countCore struct {
	zapcore.LevelEnabler
	got []atomic.Int32
}

func (c *countCore) With([]zapcore.Field) zapcore.Core { return c }
func (c *countCore) Check(e zapcore.Entry, ce *zapcore.CheckedEntry) *zapcore.CheckedEntry {
	return ce.AddCore(e, c)
}
func (c *countCore) Write(e zapcore.Entry, _ []zapcore.Field) error {
	c.got[int(e.Time.UnixNano()%1000)].Add(1)
	return nil
}
func (c *countCore) Sync() error { return nil }

// disjointKeys: on a brand-new sampler every goroutine logs its own message (its own bucket;
// all at one level or each at its own) strictly sequentially. Each key is then used by one
// goroutine only, so its admitted count is the sequential one, whatever the other goroutines
// do with their keys - including the very first use of the sampler and of a level.
func disjointKeys(r *ev.Run) {
	runs := r.N(1500, 40000)
	for i := 0; i < runs; i++ {
		g := rng.For(r.Seed, "c11/disjoint", i)
		ng := g.Range(2, 8)
		n := rng.Pick(g, []int{1, 1, 2, 3})
		m := rng.Pick(g, []int{0, 0, 2, 3})
		per := g.Range(2, 12)
		sameLevel := g.Bool()
		// messages with pairwise different buckets
		msgs := make([]string, ng)
		used := map[uint32]bool{}
		for k := range msgs {
			for j := 0; ; j++ {
				msg := fmt.Sprintf("disjoint-%d-%d-%d", i, k, j)
				if b := fnv32a(msg) % 4096; !used[b] {
					used[b] = true
					msgs[k] = msg
					break
				}
			}
		}
		leaf := &countCore{LevelEnabler: zapcore.DebugLevel, got: make([]atomic.Int32, ng)}
		s := zapcore.NewSamplerWithOptions(leaf, time.Hour, n, m)
		levels := []zapcore.Level{zapcore.DebugLevel, zapcore.InfoLevel, zapcore.WarnLevel, zapcore.ErrorLevel, zapcore.DPanicLevel, zapcore.PanicLevel, zapcore.FatalLevel}
		var wg sync.WaitGroup
		start := make(chan struct{})
		for k := 0; k < ng; k++ {
			wg.Add(1)
			go func(k int) {
				defer wg.Done()
				lvl := zapcore.InfoLevel
				if !sameLevel {
					lvl = levels[k%len(levels)]
				}
				<-start
				for j := 0; j < per; j++ {
					// the timestamp carries the key index (mod 1000) for the counting core; all inside one tick
					ts := time.Unix(1_700_000_000, int64(j*1000+k))
					if ce := s.Check(zapcore.Entry{Level: lvl, Message: msgs[k], Time: ts}, nil); ce != nil {
						ce.Write()
					}
				}
			}(k)
		}
		close(start)
		wg.Wait()
		r.Eval(1)
		r.Distinct(fmt.Sprintf("disjoint|%d|%d|%d|%d|%d|%v", i, n, m, ng, per, sameLevel))
		r.Count("disjoint_key_runs", 1)
		want := per
		if per > n {
			want = n
			if m > 0 {
				want += (per - n) / m
			}
		}
		for k := 0; k < ng; k++ {
			if got := int(leaf.got[k].Load()); got != want {
				r.Violate(ev.Violation{Case: fmt.Sprintf("c11/disjoint/%d", i), Class: "sampler-disjoint-keys", Msg: fmt.Sprintf("N=%d M=%d, %d goroutines each logging its own message %d times on a fresh sampler (same level=%v): message %q was admitted %d times, the sequential count for a key used by one goroutine is %d", n, m, ng, per, sameLevel, msgs[k], got, want)})
				break
			}
		}
	}
}

// Run is the C11 monitor.
func Run(r *ev.Run) {
	r.Rule = "sequential: case i = f(seed,i): (N, M, tick) x 40-400 entries over 3 levels x {two messages, a constructed FNV collision, a third} with timestamps placed exactly on window ends, one nanosecond either side, equal, stepping back inside a window or jumping a tick, disabled and out-of-range levels mixed in, issued alternately through the sampler and With-derived cores; forwarded entries and (entry, decision) hook calls compared in order with a 12-line model; plus Config.Build samplers through a real Logger with a stepping clock; concurrent (race build): a window opened sequentially, then 2-16 goroutines x k entries of one key inside it, exact admitted count and one-decision/one-hook/forwarded-iff-sampled per entry; rollover storms judge the per-entry accounting only; disjoint keys: on a fresh sampler 2-8 goroutines each log their own (non-colliding) message sequentially, per-key admitted count must be the sequential one (covers concurrent first use of the sampler and of a level); distinct = distinct programs"
	n := r.N(3000, 150000)
	for i := 0; i < n; i++ {
		id := fmt.Sprintf("c11/seq/%d", i)
		if !r.Want(id) {
			continue
		}
		r.Eval(1)
		r.Distinct(fmt.Sprintf("seq|%d", i))
		seqProgram(r, id, i)
	}
	nb := r.N(150, 3000)
	for i := 0; i < nb; i++ {
		id := fmt.Sprintf("c11/build/%d", i)
		if !r.Want(id) {
			continue
		}
		r.Eval(1)
		r.Distinct(fmt.Sprintf("build|%d", i))
		buildProgram(r, id, i)
	}
	if r.Only == "" {
		o := mon.ChildOpts{Race: true, Prop: "C11", Args: []string{"conc"}, Timeout: 20 * time.Minute}
		oc := mon.RunChild(r, o)
		mon.Judge(r, o, oc, "c11/conc")
		if r.Counter("hook_point_hits:sampler.reset.between") == 0 {
			r.Incomplete("perturbation point sampler.reset.between was never reached")
		}
	}
}
