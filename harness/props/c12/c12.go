// Package c12 monitors C12: BufferedWriteSyncer delivers every byte once, in
// order, in whole writes; Sync/Stop/tick flush and sync; no deadlock, no leak;
// after abrupt termination the file is a whole-write-aligned prefix holding
// everything acknowledged.
package c12

import (
	"bytes"
	"errors"
	"fmt"
	"io"
	"os"
	"path/filepath"
	"runtime"
	"strconv"
	"strings"
	"sync"
	"sync/atomic"
	"syscall"
	"time"

	"go.uber.org/zap/internal/verifhook"
	"go.uber.org/zap/verif/internal/ev"
	"go.uber.org/zap/verif/internal/mon"
	"go.uber.org/zap/verif/internal/rec"
	"go.uber.org/zap/verif/internal/rng"
	"go.uber.org/zap/zapcore"
)

// hclock hands out harness-controlled tickers: a tick is a harness action.
type hclock struct {
	mu      sync.Mutex
	tickers []chan time.Time
}

func (c *hclock) Now() time.Time { return time.Unix(1, 0) }
func (c *hclock) NewTicker(time.Duration) *time.Ticker {
	ch := make(chan time.Time)
	c.mu.Lock()
	c.tickers = append(c.tickers, ch)
	c.mu.Unlock()
	return &time.Ticker{C: ch}
}

func (c *hclock) last() chan time.Time {
	c.mu.Lock()
	defer c.mu.Unlock()
	if len(c.tickers) == 0 {
		return nil
	}
	return c.tickers[len(c.tickers)-1]
}

var stackBuf = make([]byte, 1<<20)
var stackMu sync.Mutex

// flushLoops counts the goroutines running a flush loop and how many of them wait in select.
func flushLoops() (total, inSelect int) {
	stackMu.Lock()
	defer stackMu.Unlock()
	n := runtime.Stack(stackBuf, true)
	for _, g := range bytes.Split(stackBuf[:n], []byte("\n\n")) {
		if bytes.Contains(g, []byte("BufferedWriteSyncer).flushLoop")) {
			total++
			if bytes.Contains(g[:bytes.IndexByte(append(g, '\n'), '\n')], []byte("[select")) {
				inSelect++
			}
		}
	}
	return
}

// waitNoFlushLoop reports whether the number of flush goroutines falls back to the
// baseline taken before this syncer was created (the goroutine may still be returning
// for a moment after Stop came back; goroutines of abandoned histories are not counted).
func waitNoFlushLoop(baseline int) bool {
	for i := 0; i < 200; i++ {
		if n, _ := flushLoops(); n <= baseline {
			return true
		}
		runtime.Gosched()
		time.Sleep(time.Duration(i) * 50 * time.Microsecond)
	}
	return false
}

var errSyncRefused = errors.New("c12 sink sync refused")

type seqState struct {
	accepted []byte
	bounds   map[int]bool // cumulative offsets of client write boundaries
	size     int
	// incremental view of the sink
	nEvents  int
	sinkOff  int
	lastKind byte
}

// invariants checks the always-true part after any client operation returned. Only
// events that arrived since the last call are examined.
func (st *seqState) invariants(sink *rec.Sink) string {
	evs := sink.Events
	for ; st.nEvents < len(evs); st.nEvents++ {
		e := evs[st.nEvents]
		st.lastKind = e.Kind
		if e.Kind != 'W' {
			continue
		}
		end := st.sinkOff + len(e.Bytes)
		if end > len(st.accepted) || !bytes.Equal(st.accepted[st.sinkOff:end], e.Bytes) {
			return fmt.Sprintf("the sink stream diverges from the accepted stream at offset %d: a byte was lost, duplicated or reordered", st.sinkOff)
		}
		st.sinkOff = end
		if !st.bounds[end] {
			return fmt.Sprintf("a sink write ends at stream offset %d, which is not a boundary between caller writes (a caller write was split)", end)
		}
	}
	if held := len(st.accepted) - st.sinkOff; held > st.size {
		return fmt.Sprintf("%d bytes are held back, more than the configured size %d", held, st.size)
	}
	return ""
}

// flushed checks the after-Sync/Stop/tick part.
func (st *seqState) flushed(sink *rec.Sink, what string) string {
	if m := st.invariants(sink); m != "" {
		return m
	}
	if st.sinkOff != len(st.accepted) {
		return fmt.Sprintf("after %s the sink holds %d of %d accepted bytes", what, st.sinkOff, len(st.accepted))
	}
	if st.lastKind != 'S' {
		return fmt.Sprintf("after %s the sink was not synced after its last write (events ...%s)", what, tail(sink.Snapshot(), 8))
	}
	return ""
}

func tail(s string, n int) string {
	if len(s) > n {
		return s[len(s)-n:]
	}
	return s
}

func seqHistory(r *ev.Run, id string, i int) {
	g := rng.For(r.Seed, "c12/seq", i)
	size := rng.Pick(g, []int{1, 2, 7, 64, 64, 4096, 0})
	eff := size
	if eff == 0 {
		eff = 256 * 1024
	}
	sink := &rec.Sink{}
	clk := &hclock{}
	baseline, _ := flushLoops()
	b := &zapcore.BufferedWriteSyncer{WS: sink, Size: size, FlushInterval: time.Hour, Clock: clk}
	st := &seqState{bounds: map[int]bool{0: true}, size: eff}
	var trace []string
	stopped, inited := false, false
	// one history in six runs over a sink that accepts every write but whose Sync always reports an
	// error: the errors are the caller's to see, flushing and ticking go on as before
	syncFails := g.P(1, 6)
	if syncFails {
		for k := 0; k < 4000; k++ {
			sink.SyncErrs = append(sink.SyncErrs, errSyncRefused)
		}
		trace = append(trace, "(the sink's Sync always fails)")
		r.Count("histories_over_a_sink_whose_sync_fails", 1)
	} else if g.P(1, 6) {
		// ... or fails a few times and then works again: later syncs must reach the sink as before
		for k := g.Range(1, 2); k > 0; k-- {
			sink.SyncErrs = append(sink.SyncErrs, errSyncRefused)
		}
		trace = append(trace, fmt.Sprintf("(the sink's first %d Syncs fail)", len(sink.SyncErrs)))
		r.Count("histories_over_a_sink_whose_sync_fails_transiently", 1)
	}
	nops := g.Range(5, 60)
	fail := func(class, msg string) {
		r.Violate(ev.Violation{Case: id, Class: class, Msg: fmt.Sprintf("Size=%d: %s", size, msg), Witness: map[string]any{"size": size, "ops": trace}})
	}
	defer func() {
		if inited && !stopped {
			_ = b.Stop()
		}
	}()
	for k := 0; k < nops; k++ {
		switch op := g.Intn(10); {
		case op <= 5: // Write
			_ = st.invariants(sink)
			free := eff - (len(st.accepted) - st.sinkOff)
			var n int
			class := ""
			switch g.Intn(9) {
			case 0:
				n, class = 0, "len=0"
			case 1:
				n, class = 1, "len=1"
			case 2:
				n, class = free, "len=free"
			case 3:
				n, class = free+1, "len=free+1"
			case 4:
				n, class = eff-1, "len=size-1"
			case 5:
				n, class = eff, "len=size"
			case 6:
				n, class = eff+1, "len=size+1"
			case 7:
				n, class = 3*eff, "len=3*size"
			default:
				n, class = g.Intn(eff+2), "len=random"
			}
			if n < 0 {
				n = 0
			}
			if n > 1<<20 {
				n = 1 << 20
			}
			r.SetAdd("write_length_classes", class)
			p := make([]byte, n)
			for j := range p {
				p[j] = byte('a' + (len(st.accepted)+j)%26)
			}
			trace = append(trace, fmt.Sprintf("Write(%d bytes, %s)", n, class))
			var wn int
			var err error
			if g.P(1, 4) {
				// the same bytes as a string, the way io.WriteString / fmt.Fprint hand them over
				trace[len(trace)-1] = "io.WriteString: " + trace[len(trace)-1]
				wn, err = io.WriteString(b, string(p))
				r.Count("ops:write-through-io.WriteString", 1)
			} else {
				wn, err = b.Write(p)
			}
			if wn != n || err != nil {
				fail("bws-write-result", fmt.Sprintf("Write(%d bytes) returned (%d, %v)", n, wn, err))
				return
			}
			inited = true
			st.accepted = append(st.accepted, p...)
			st.bounds[len(st.accepted)] = true
			r.Count("ops:write", 1)
		case op == 6 || op == 7: // Sync
			trace = append(trace, "Sync")
			pending := len(sink.SyncErrs)
			err := b.Sync()
			if refused := pending > len(sink.SyncErrs); (err != nil) != refused {
				fail("bws-sync-result", fmt.Sprintf("Sync returned %v (the sink's Sync refused during this call: %v)", err, refused))
				return
			}
			if m := st.flushed(sink, "Sync"); m != "" {
				fail("bws-not-flushed", m)
				return
			}
			r.Count("ops:sync", 1)
		case op == 8: // tick
			ch := clk.last()
			if ch == nil || stopped {
				continue
			}
			trace = append(trace, "tick")
			before := sink.Syncs()
			taken := false
			for w := 0; w < 2000 && !taken; w++ {
				select {
				case ch <- time.Unix(2, 0):
					taken = true
				case <-time.After(10 * time.Millisecond):
					if tot, _ := flushLoops(); tot <= baseline {
						fail("bws-flush-loop-gone", "the syncer was not stopped but its flush goroutine no longer exists: ticks are no longer processed")
						return
					}
				}
			}
			if !taken {
				r.Inconclusive(id + ": the flush loop did not take a tick within 20s")
				return
			}
			// the tick is processed when the sink saw a sync, or when the loop is back in its
			// select without having synced (which the check below then reports)
			ok := false
			for w := 0; w < 400000 && !ok; w++ {
				if sink.Syncs() > before {
					ok = true
					break
				}
				runtime.Gosched()
				if w > 1000 {
					time.Sleep(50 * time.Microsecond)
					if w%200 == 0 {
						if tot, sel := flushLoops(); tot == sel {
							ok = true
						}
					}
				}
			}
			if !ok {
				r.Inconclusive(id + ": tick taken but its processing was not observed")
				return
			}
			if m := st.flushed(sink, "a flush tick"); m != "" {
				fail("bws-not-flushed", m)
				return
			}
			r.Count("ops:tick", 1)
		default: // Stop (possibly repeated)
			trace = append(trace, "Stop")
			pending := len(sink.SyncErrs)
			err := b.Stop()
			if err != nil && !(pending > len(sink.SyncErrs) && strings.Contains(err.Error(), errSyncRefused.Error())) {
				fail("bws-stop-result", fmt.Sprintf("Stop returned %v", err))
				return
			}
			if inited {
				if !stopped {
					if m := st.flushed(sink, "Stop"); m != "" {
						fail("bws-not-flushed", m)
						return
					}
				}
				stopped = true
				if !waitNoFlushLoop(baseline) {
					fail("bws-goroutine-leak", "the flush goroutine is still running after Stop returned")
					return
				}
			}
			r.Count("ops:stop", 1)
		}
		if m := st.invariants(sink); m != "" {
			fail("bws-stream", m)
			return
		}
	}
	if i < 2 {
		r.Sample(map[string]any{"size": size, "ops": trace})
	}
}

// ---- a sink that refuses one write and then works again -------------------------------------------

type faultSink struct {
	got    []byte
	writes int
	failAt int
	syncs  int
	// unsyncable: every Sync of the sink reports EINVAL
	unsyncable bool
}

func (s *faultSink) Write(p []byte) (int, error) {
	s.writes++
	if s.writes == s.failAt {
		return 0, errors.New("c12 sink refuses this write")
	}
	s.got = append(s.got, p...)
	return len(p), nil
}
func (s *faultSink) Sync() error {
	s.syncs++
	if s.unsyncable {
		return fmt.Errorf("sync: %w", syscall.EINVAL) // what a pipe or a terminal answers
	}
	return nil
}

// writeFault: the sink takes nothing of its failAt-th write and reports an error, every other write
// succeeds. Whatever the syncer reports from then on, the sink never skips accepted bytes: what it
// holds is always a prefix of the accepted stream (accepted = writes that returned len(p), nil), and
// whenever Sync or Stop returns nil it holds all of it.
func writeFault(r *ev.Run, id string, i int) {
	g := rng.For(r.Seed, "c12/writefault", i)
	size := rng.Pick(g, []int{4, 16, 64, 512})
	sink := &faultSink{failAt: g.Range(1, 4), unsyncable: g.P(1, 3)}
	b := &zapcore.BufferedWriteSyncer{WS: sink, Size: size, FlushInterval: time.Hour, Clock: &hclock{}}
	defer b.Stop()
	var accepted []byte
	var trace []string
	stopped := false
	fail := func(msg string) {
		if sink.unsyncable {
			msg += " (the sink's own Sync always reports EINVAL)"
		}
		r.Violate(ev.Violation{Case: id, Class: "bws-hole-after-sink-fault", Msg: fmt.Sprintf("Size=%d, the sink refuses its write number %d: %s", size, sink.failAt, msg), Witness: map[string]any{"ops": trace, "sink": string(tailB(sink.got, 200)), "accepted": string(tailB(accepted, 200))}})
	}
	for step, nops := 0, g.Range(6, 40); step < nops; step++ {
		switch g.Intn(5) {
		case 0, 1, 2:
			p := []byte(fmt.Sprintf("<w%d:%s>", step, strings.Repeat("x", g.Intn(size+size/2+1))))
			n, err := b.Write(p)
			trace = append(trace, fmt.Sprintf("Write(%d bytes) = (%d, %v)", len(p), n, err))
			if err == nil && n == len(p) {
				accepted = append(accepted, p...)
			}
		case 3:
			err := b.Sync()
			trace = append(trace, fmt.Sprintf("Sync = %v", err))
			if err == nil && !bytes.Equal(sink.got, accepted) {
				fail(fmt.Sprintf("Sync returned nil but the sink holds %d of %d accepted bytes", len(sink.got), len(accepted)))
				return
			}
		default:
			err := b.Stop()
			trace = append(trace, fmt.Sprintf("Stop = %v", err))
			first := !stopped && sink.writes+len(accepted) > 0
			if first {
				stopped = true
			}
			// only the Stop that actually stops reports the final flush; a repeated Stop has nothing to report
			if first && err == nil && !bytes.Equal(sink.got, accepted) {
				fail(fmt.Sprintf("Stop returned nil but the sink holds %d of %d accepted bytes", len(sink.got), len(accepted)))
				return
			}
		}
		if len(sink.got) > len(accepted) || !bytes.Equal(sink.got, accepted[:len(sink.got)]) {
			fail("the sink's stream is not a prefix of the accepted stream: accepted bytes were skipped (or others invented)")
			return
		}
		r.Count("write_fault_ops", 1)
	}
	if sink.writes >= sink.failAt {
		r.Count("write_fault_histories_that_reached_the_fault", 1)
	}
}

// ---- several syncers side by side ---------------------------------------------------------------

// sideBySide runs 2-3 syncers of equal size (the default size among them) in one interleaved history of
// Write, Sync and Stop, writes after Stop included: each sink must receive exactly its own syncer's
// accepted bytes, whatever the others do and whichever of them was stopped or created in between.
func sideBySide(r *ev.Run, id string, i int) {
	g := rng.For(r.Seed, "c12/side", i)
	size := rng.Pick(g, []int{0, 0, 64, 4096})
	k := g.Range(2, 3)
	type one struct {
		b       *zapcore.BufferedWriteSyncer
		sink    *rec.Sink
		want    []byte
		created bool
	}
	all := make([]*one, k)
	clk := &hclock{}
	for j := range all {
		all[j] = &one{sink: &rec.Sink{Name: fmt.Sprint(j)}}
	}
	var trace []string
	defer func() {
		for _, o := range all {
			if o.created {
				_ = o.b.Stop()
			}
		}
	}()
	fail := func(msg string) {
		r.Violate(ev.Violation{Case: id, Class: "bws-cross-talk", Msg: fmt.Sprintf("Size=%d, %d syncers side by side: %s", size, k, msg), Witness: map[string]any{"size": size, "ops": trace}})
	}
	for step, nops := 0, g.Range(6, 40); step < nops; step++ {
		j := g.Intn(k)
		o := all[j]
		if !o.created {
			// syncers come into being at different moments of the history
			o.b = &zapcore.BufferedWriteSyncer{WS: o.sink, Size: size, FlushInterval: time.Hour, Clock: clk}
			o.created = true
		}
		switch g.Intn(6) {
		case 0, 1, 2:
			p := []byte(fmt.Sprintf("<syncer %d step %d %s>\n", j, step, strings.Repeat(string(rune('a'+j)), g.Intn(40))))
			trace = append(trace, fmt.Sprintf("syncer%d.Write(%d bytes)", j, len(p)))
			if n, err := o.b.Write(p); n != len(p) || err != nil {
				fail(fmt.Sprintf("syncer %d: Write returned (%d, %v)", j, n, err))
				return
			}
			o.want = append(o.want, p...)
		case 3, 4:
			trace = append(trace, fmt.Sprintf("syncer%d.Sync", j))
			if err := o.b.Sync(); err != nil {
				fail(fmt.Sprintf("syncer %d: Sync returned %v", j, err))
				return
			}
			if got := o.sink.All(); !bytes.Equal(got, o.want) {
				fail(fmt.Sprintf("after Sync the sink of syncer %d holds %d bytes, want its own %d accepted bytes; sink ends %q", j, len(got), len(o.want), tailB(got, 80)))
				return
			}
		default:
			trace = append(trace, fmt.Sprintf("syncer%d.Stop", j))
			if err := o.b.Stop(); err != nil {
				fail(fmt.Sprintf("syncer %d: Stop returned %v", j, err))
				return
			}
		}
		r.Count("side_by_side_ops", 1)
	}
	for j, o := range all {
		if !o.created {
			continue
		}
		_ = o.b.Sync()
		if got := o.sink.All(); !bytes.Equal(got, o.want) {
			fail(fmt.Sprintf("at the end (after Sync) the sink of syncer %d holds %d bytes, want its own %d accepted bytes; sink ends %q", j, len(got), len(o.want), tailB(got, 80)))
			return
		}
	}
}

// ---- several syncers over one locked sink (round 8) ---------------------------------------------

// exclSink is a sink that is not safe for concurrent use and says so: it counts the calls that arrive
// while another call is still inside it.  zapcore.Lock(exclSink) is what makes it shareable.
type exclSink struct {
	busy     atomic.Bool
	overlaps atomic.Int64
	mu       sync.Mutex
	writes   [][]byte
}

func (s *exclSink) enter() {
	if !s.busy.CompareAndSwap(false, true) {
		s.overlaps.Add(1)
	}
	runtime.Gosched()
}
func (s *exclSink) Write(p []byte) (int, error) {
	s.enter()
	s.mu.Lock()
	s.writes = append(s.writes, append([]byte(nil), p...))
	s.mu.Unlock()
	s.busy.Store(false)
	return len(p), nil
}
func (s *exclSink) Sync() error { s.enter(); s.busy.Store(false); return nil }

// sharedLocked: 2-3 BufferedWriteSyncers and one unbuffered writer share one zapcore.Lock(sink) and are
// written to by goroutines of their own.  The lock wrapper is the sink's only protection, so every call
// into the sink must go through it: no call may overlap another, every sink write consists of whole
// lines of one writer, and every accepted line arrives exactly once, in its writer's order.
func sharedLocked(r *ev.Run, id string, i int) {
	g := rng.For(r.Seed, "c12/shared-locked", i)
	sink := &exclSink{}
	locked := zapcore.Lock(sink)
	nb := g.Range(2, 3)
	size := rng.Pick(g, []int{64, 128, 0})
	per := g.Range(20, 120)
	var bs []*zapcore.BufferedWriteSyncer
	for j := 0; j < nb; j++ {
		bs = append(bs, &zapcore.BufferedWriteSyncer{WS: locked, Size: size, FlushInterval: time.Hour, Clock: &hclock{}})
	}
	var wg sync.WaitGroup
	var start sync.WaitGroup
	start.Add(1)
	bad := atomic.Int64{}
	for j := 0; j <= nb; j++ {
		var w zapcore.WriteSyncer = locked
		if j < nb {
			w = bs[j]
		}
		wg.Add(1)
		go func(j int, w zapcore.WriteSyncer) {
			defer wg.Done()
			start.Wait()
			for n := 0; n < per; n++ {
				p := []byte(fmt.Sprintf("<w%d line %05d %s>\n", j, n, strings.Repeat(string(rune('a'+j)), (n*7)%23)))
				if k, err := w.Write(p); k != len(p) || err != nil {
					bad.Add(1)
				}
				if n%17 == 16 {
					_ = w.Sync()
				}
			}
		}(j, w)
	}
	start.Done()
	wg.Wait()
	for _, b := range bs {
		_ = b.Stop()
	}
	r.Count("shared_locked_sink_lines", int64((nb+1)*per))
	fail := func(msg string) {
		r.Violate(ev.Violation{Case: id, Class: "bws-shared-sink", Msg: fmt.Sprintf("%d buffered syncers (Size=%d) and one direct writer over one zapcore.Lock(sink), %d lines each: %s", nb, size, per, msg)})
	}
	if n := bad.Load(); n != 0 {
		fail(fmt.Sprintf("%d writes were not fully accepted", n))
		return
	}
	if n := sink.overlaps.Load(); n != 0 {
		fail(fmt.Sprintf("%d calls entered the sink while another call was inside it (a call that bypassed the lock wrapper)", n))
		return
	}
	nextLine := make([]int, nb+1)
	sink.mu.Lock()
	defer sink.mu.Unlock()
	for _, wr := range sink.writes {
		owner := -1
		for _, ln := range bytes.SplitAfter(wr, []byte("\n")) {
			if len(ln) == 0 {
				continue
			}
			var j, n int
			if c, err := fmt.Sscanf(string(ln), "<w%d line %05d", &j, &n); c != 2 || err != nil || ln[len(ln)-1] != '\n' || j < 0 || j > nb ||
				string(ln) != fmt.Sprintf("<w%d line %05d %s>\n", j, n, strings.Repeat(string(rune('a'+j)), (n*7)%23)) {
				fail(fmt.Sprintf("a sink write holds something that is not a whole line: %q", tailB(ln, 80)))
				return
			}
			if owner >= 0 && owner != j {
				fail(fmt.Sprintf("one sink write mixes lines of writers %d and %d", owner, j))
				return
			}
			owner = j
			if n != nextLine[j] {
				fail(fmt.Sprintf("writer %d: line %d arrived where line %d was due (lost, duplicated or reordered)", j, n, nextLine[j]))
				return
			}
			nextLine[j]++
		}
	}
	for j, n := range nextLine {
		if n != per {
			fail(fmt.Sprintf("writer %d: %d of %d accepted lines reached the sink after Stop", j, n, per))
			return
		}
	}
}

// ---- a tick that arrives while a write is in progress ------------------------------------------

type gateSink struct {
	mu      sync.Mutex
	events  []rec.Event
	armed   bool
	entered chan struct{}
	open    chan struct{}
}

func (s *gateSink) Write(p []byte) (int, error) {
	s.mu.Lock()
	armed := s.armed
	s.armed = false
	s.mu.Unlock()
	if armed {
		s.entered <- struct{}{}
		<-s.open
	}
	s.mu.Lock()
	s.events = append(s.events, rec.Event{Kind: 'W', Bytes: append([]byte(nil), p...)})
	s.mu.Unlock()
	return len(p), nil
}

func (s *gateSink) Sync() error {
	s.mu.Lock()
	s.events = append(s.events, rec.Event{Kind: 'S'})
	s.mu.Unlock()
	return nil
}

// loopStates returns the scheduler state of every flush-loop goroutine ("select", "sync.Mutex.Lock", ...).
func loopStates() []string {
	stackMu.Lock()
	defer stackMu.Unlock()
	n := runtime.Stack(stackBuf, true)
	var out []string
	for _, g := range bytes.Split(stackBuf[:n], []byte("\n\n")) {
		if bytes.Contains(g, []byte("BufferedWriteSyncer).flushLoop")) {
			h := g[:bytes.IndexByte(append(g, '\n'), '\n')]
			if a, b := bytes.IndexByte(h, '['), bytes.LastIndexByte(h, ']'); a >= 0 && b > a {
				out = append(out, string(h[a+1:b]))
			}
		}
	}
	return out
}

// contendedTick holds a caller's Write inside the sink (so the syncer is in the middle of an
// operation), delivers a tick, lets the Write finish and waits until the flush loop is idle again:
// the tick has then been processed, and everything accepted before it must be in the sink, synced.
func contendedTick(r *ev.Run, id string, i int) {
	g := rng.For(r.Seed, "c12/contended", i)
	size := rng.Pick(g, []int{4, 8, 64, 512})
	sink := &gateSink{entered: make(chan struct{}, 1), open: make(chan struct{})}
	clk := &hclock{}
	b := &zapcore.BufferedWriteSyncer{WS: sink, Size: size, FlushInterval: time.Hour, Clock: clk}
	first := bytes.Repeat([]byte{'a'}, g.Range(1, size-1))
	second := bytes.Repeat([]byte{'b'}, g.Range(size-len(first)+1, 2*size))
	wit := map[string]any{"size": size, "first_write": len(first), "second_write": len(second)}
	if _, err := b.Write(first); err != nil {
		r.Violate(ev.Violation{Case: id, Class: "bws-write-result", Msg: fmt.Sprintf("Write returned %v", err), Witness: wit})
		return
	}
	defer b.Stop()
	sink.mu.Lock()
	sink.armed = true
	sink.mu.Unlock()
	done := make(chan struct{})
	go func() { _, _ = b.Write(second); close(done) }()
	guard := func(what string, cond func() bool) bool {
		for w := 0; w < 400000; w++ {
			if cond() {
				return true
			}
			if w > 200 {
				time.Sleep(50 * time.Microsecond)
			} else {
				runtime.Gosched()
			}
		}
		r.Inconclusive(id + ": " + what + " was not observed within the guard time")
		return false
	}
	select {
	case <-sink.entered:
	case <-time.After(20 * time.Second):
		r.Inconclusive(id + ": the second write never reached the sink")
		return
	}
	select {
	case clk.last() <- time.Unix(2, 0):
	case <-time.After(20 * time.Second):
		r.Inconclusive(id + ": the flush loop did not take the tick")
		close(sink.open)
		return
	}
	// the loop has reacted to the tick when it waits for the lock held by the write, or is idle again
	reacted := ""
	ok := guard("the flush loop's reaction to the tick", func() bool {
		for _, st := range loopStates() {
			if strings.Contains(st, "select") || strings.Contains(st, "Mutex") || strings.Contains(st, "semacquire") {
				reacted = st
				return true
			}
		}
		return false
	})
	close(sink.open)
	<-done
	if !ok {
		return
	}
	if !guard("the flush loop going idle", func() bool { tot, sel := flushLoops(); return tot == sel }) {
		return
	}
	r.SetAdd("contended_tick_loop_reaction", strings.Fields(reacted + " -")[0])
	r.Count("contended_ticks", 1)
	sink.mu.Lock()
	defer sink.mu.Unlock()
	var all []byte
	kinds := ""
	for _, e := range sink.events {
		all = append(all, e.Bytes...)
		kinds += string(e.Kind)
	}
	wit["sink_events"] = kinds
	wit["loop_state_after_tick"] = reacted
	want := append(append([]byte{}, first...), second...)
	switch {
	case !bytes.Equal(all, want):
		r.Violate(ev.Violation{Case: id, Class: "bws-tick-under-contention", Msg: fmt.Sprintf("Size=%d: a tick was delivered while a Write was in progress; after that Write returned and the flush loop went idle the sink holds %d of the %d bytes accepted before the tick was processed", size, len(all), len(want)), Witness: wit})
	case !strings.HasSuffix(kinds, "S"):
		r.Violate(ev.Violation{Case: id, Class: "bws-tick-under-contention", Msg: fmt.Sprintf("Size=%d: a tick was delivered while a Write was in progress; after the flush loop went idle the sink was not synced after its last write (events %s)", size, kinds), Witness: wit})
	}
}

// ---- concurrent histories (race child) -----------------------------------------------------

type syncMark struct {
	acked map[string]bool // records whose Write returned before this Sync was invoked
	seen  int             // sink stream length when Sync returned
}

func concHistory(r *ev.Run, id string, i int, hits *[2]atomic.Int64) bool {
	g := rng.For(r.Seed, "c12/conc", i)
	size := rng.Pick(g, []int{1, 7, 64, 256, 4096})
	sink := &rec.Sink{}
	clk := &hclock{}
	baseline, _ := flushLoops()
	b := &zapcore.BufferedWriteSyncer{WS: sink, Size: size, FlushInterval: time.Hour, Clock: clk}
	ng := g.Range(2, 8)
	per := g.Range(10, 80)
	stopAt := -1
	if g.P(1, 2) {
		stopAt = g.Intn(per)
	}
	multiStop := g.Bool()
	_, _ = b.Write(nil) // initialise so that a ticker exists
	var wg sync.WaitGroup
	var done atomic.Bool
	start := make(chan struct{})
	marks := make([][]syncMark, ng)
	issued := make([][]string, ng)
	var stopReturned atomic.Bool
	for w := 0; w < ng; w++ {
		wg.Add(1)
		w := w
		seed := g.Uint64()
		go func() {
			defer wg.Done()
			<-start
			x := seed
			for k := 0; k < per; k++ {
				x = x*6364136223846793005 + 1442695040888963407
				switch {
				case w == 0 && k == stopAt:
					_ = b.Stop()
					stopReturned.Store(true)
					_ = b.Stop()
				case w == 1 && stopAt >= 0 && multiStop && (k == stopAt || k == stopAt+1):
					// a second goroutine stops at about the same moment (with ticks in flight)
					_ = b.Stop()
				case x>>60 < 3:
					acked := map[string]bool{}
					for _, id := range issued[w] {
						acked[id] = true
					}
					_ = b.Sync()
					marks[w] = append(marks[w], syncMark{acked, len(sink.All())})
				default:
					n := int(x>>32) % (2*size + 3)
					rid := fmt.Sprintf("<%d.%d>", w, k)
					p := []byte(rid + strings.Repeat("x", n) + "\n")
					if wn, err := b.Write(p); wn == len(p) && err == nil {
						issued[w] = append(issued[w], rid)
					}
				}
			}
		}()
	}
	// ticker goroutine: harness ticks race with everything else, including Stop
	tickDone := make(chan struct{})
	go func() {
		defer close(tickDone)
		ch := clk.last()
		for !done.Load() {
			select {
			case ch <- time.Unix(3, 0):
			default:
				runtime.Gosched()
			}
		}
	}()
	finished := make(chan struct{})
	go func() { wg.Wait(); close(finished) }()
	close(start)
	select {
	case <-finished:
	case <-time.After(45 * time.Second):
		// stop producing ticks first: after that no harness event is pending
		done.Store(true)
		<-tickDone
		time.Sleep(500 * time.Millisecond)
		d1 := mon.Stacks()
		time.Sleep(1500 * time.Millisecond)
		d2 := mon.Stacks()
		if mon.Quiescent(d1, d2, "BufferedWriteSyncer", "c12.concHistory.func1") {
			if len(d2) > 6000 {
				d2 = d2[:6000]
			}
			r.Violate(ev.Violation{Case: id, Class: "bws-deadlock", Msg: "concurrent Write/Sync/Stop/tick deadlocked: with ticks stopped, every goroutine inside the syncer and every worker is blocked with an unchanged stack", Witness: d2})
		} else {
			r.Inconclusive(id + ": concurrent history did not finish in 45s but goroutines are still moving")
		}
		return false
	}
	done.Store(true)
	<-tickDone
	_ = b.Sync()
	if stopAt < 0 {
		_ = b.Stop()
	}
	r.Eval(1)
	r.Distinct(fmt.Sprintf("conc|%d|%d|%d|%d|%d", i, size, ng, per, stopAt))
	fail := func(class, msg string) {
		r.Violate(ev.Violation{Case: id, Class: class, Msg: fmt.Sprintf("Size=%d goroutines=%d x %d stopAt=%d: %s", size, ng, per, stopAt, msg)})
	}
	if !waitNoFlushLoop(baseline) {
		fail("bws-goroutine-leak", "the flush goroutine is still running after Stop returned")
		return true
	}
	// parse the sink stream back into records
	stream := sink.All()
	pos := map[string]int{}
	order := make([][]int, ng)
	off := 0
	for off < len(stream) {
		nl := bytes.IndexByte(stream[off:], '\n')
		if nl < 0 || stream[off] != '<' {
			fail("bws-conc-stream", fmt.Sprintf("sink stream is corrupt at offset %d: %q", off, clip(stream[off:])))
			return true
		}
		line := stream[off : off+nl]
		end := bytes.IndexByte(line, '>')
		if end < 0 {
			fail("bws-conc-stream", fmt.Sprintf("torn record at offset %d: %q", off, clip(line)))
			return true
		}
		rid := string(line[:end+1])
		if strings.Trim(string(line[end+1:]), "x") != "" {
			fail("bws-conc-stream", fmt.Sprintf("record %s is interleaved with other bytes: %q", rid, clip(line)))
			return true
		}
		if _, dup := pos[rid]; dup {
			fail("bws-conc-stream", "record "+rid+" appears twice in the sink")
			return true
		}
		pos[rid] = off
		var w, k int
		fmt.Sscanf(rid, "<%d.%d>", &w, &k)
		if w < 0 || w >= ng {
			fail("bws-conc-stream", "unknown record "+rid)
			return true
		}
		order[w] = append(order[w], k)
		off += nl + 1
	}
	total := 0
	for w := range issued {
		total += len(issued[w])
		for _, rid := range issued[w] {
			if _, ok := pos[rid]; !ok {
				fail("bws-conc-lost", "accepted record "+rid+" never reached the sink although Sync and Stop completed")
				return true
			}
		}
		for k := 1; k < len(order[w]); k++ {
			if order[w][k] <= order[w][k-1] {
				fail("bws-conc-order", fmt.Sprintf("records of goroutine %d are out of order in the sink", w))
				return true
			}
		}
		for _, m := range marks[w] {
			for rid := range m.acked {
				if p, ok := pos[rid]; !ok || p >= m.seen {
					fail("bws-sync-guarantee", fmt.Sprintf("record %s was accepted before a Sync was invoked but was not in the sink when that Sync returned", rid))
					return true
				}
			}
		}
	}
	if len(pos) != total {
		fail("bws-conc-stream", fmt.Sprintf("sink holds %d records, %d were accepted", len(pos), total))
		return true
	}
	// every sink write consists of whole records
	for _, wv := range sink.Writes() {
		if len(wv) > 0 && (wv[0] != '<' || wv[len(wv)-1] != '\n') {
			fail("bws-conc-split", fmt.Sprintf("a sink write does not consist of whole caller writes: %q", clip(wv)))
			return true
		}
	}
	r.Count("conc_records", int64(total))
	if stopAt >= 0 {
		r.Count("conc_runs_with_racing_stop", 1)
	}
	return true
}

func clip(b []byte) []byte {
	if len(b) > 60 {
		return b[:60]
	}
	return b
}

// ---- crash points ------------------------------------------------------------------------------

type crashSink struct {
	f      *os.File
	count  *int
	killAt int
}

func boundary(count *int, killAt int) {
	if *count == killAt {
		_ = syscall.Kill(syscall.Getpid(), syscall.SIGKILL)
		select {}
	}
	*count++
}

func (s *crashSink) Write(p []byte) (int, error) {
	boundary(s.count, s.killAt)
	n, err := s.f.Write(p)
	boundary(s.count, s.killAt)
	return n, err
}

func (s *crashSink) Sync() error {
	boundary(s.count, s.killAt)
	err := s.f.Sync()
	boundary(s.count, s.killAt)
	return err
}

type crashOp struct {
	kind byte // 'W', 'S', 'T' (stop)
	n    int
}

func crashHistory(seed int64, h int) (size int, ops []crashOp) {
	g := rng.For(seed, "c12/crash", h)
	size = rng.Pick(g, []int{16, 64, 200})
	for k := g.Range(10, 24); k > 0; k-- {
		switch g.Intn(6) {
		case 0:
			ops = append(ops, crashOp{kind: 'S'})
		default:
			ops = append(ops, crashOp{'W', rng.Pick(g, []int{1, 5, size - 1, size, size + 1, 2*size + 3, g.Intn(size) + 1})})
		}
	}
	if g.P(1, 2) {
		ops = append(ops, crashOp{kind: 'T'})
	}
	return
}

func crashRecord(idx, n int) []byte {
	p := []byte(fmt.Sprintf("[%d:", idx))
	for len(p) < n {
		p = append(p, 'y')
	}
	return append(p, ']', '\n')
}

// crashChild runs history h, killing itself at boundary killAt (-1: never; prints the boundary count).
func crashChild(args []string) {
	seed, _ := strconv.ParseInt(args[1], 10, 64)
	h, _ := strconv.Atoi(args[2])
	killAt, _ := strconv.Atoi(args[3])
	dir := args[4]
	size, ops := crashHistory(seed, h)
	f, err := os.OpenFile(filepath.Join(dir, "data"), os.O_CREATE|os.O_WRONLY|os.O_TRUNC, 0o644)
	if err != nil {
		os.Exit(3)
	}
	ack, err := os.OpenFile(filepath.Join(dir, "ack"), os.O_CREATE|os.O_WRONLY|os.O_TRUNC|os.O_APPEND, 0o644)
	if err != nil {
		os.Exit(3)
	}
	count := 0
	b := &zapcore.BufferedWriteSyncer{WS: &crashSink{f, &count, killAt}, Size: size, FlushInterval: time.Hour, Clock: &hclock{}}
	accepted := 0
	for _, op := range ops {
		boundary(&count, killAt) // client-operation boundary
		switch op.kind {
		case 'W':
			if n, err := b.Write(crashRecord(accepted, op.n)); err == nil && n > 0 {
				accepted++
			}
		case 'S':
			if b.Sync() == nil {
				fmt.Fprintf(ack, "%d\n", accepted)
			}
		case 'T':
			if b.Stop() == nil {
				fmt.Fprintf(ack, "%d\n", accepted)
			}
		}
	}
	boundary(&count, killAt)
	_ = os.WriteFile(filepath.Join(dir, "boundaries"), []byte(strconv.Itoa(count)), 0o644)
	os.Exit(0)
}

func crashPoints(r *ev.Run) {
	bin := os.Getenv("ZVERIFY_BIN")
	if bin == "" {
		bin, _ = os.Executable()
	}
	budget := r.N(250, 6000)
	spawned := 0
	for h := 0; spawned < budget; h++ {
		dir := filepath.Join(ev.WorkDir(), fmt.Sprintf("c12-crash-%d", h))
		_ = os.MkdirAll(dir, 0o755)
		run := func(k int) (exit int, signaled bool) {
			oc := mon.RunRaw(bin, []string{"child", "C12", "crash", fmt.Sprint(r.Seed), fmt.Sprint(h), fmt.Sprint(k), dir, "-"}, 60*time.Second)
			return oc.ExitCode, oc.Signaled
		}
		if code, _ := run(-1); code != 0 {
			r.Inconclusive(fmt.Sprintf("c12/crash/%d: reference child exited with %d", h, code))
			os.RemoveAll(dir)
			continue
		}
		bb, _ := os.ReadFile(filepath.Join(dir, "boundaries"))
		nb, _ := strconv.Atoi(string(bb))
		full, _ := os.ReadFile(filepath.Join(dir, "data"))
		size, ops := crashHistory(r.Seed, h)
		r.Count("crash_histories", 1)
		for k := 0; k < nb; k++ {
			id := fmt.Sprintf("c12/crash/%d/%d", h, k)
			spawned++
			_, signaled := run(k)
			r.Eval(1)
			r.Distinct(fmt.Sprintf("crash|%d|%d", h, k))
			if !signaled {
				r.Inconclusive(id + ": child was not killed at the boundary")
				continue
			}
			data, _ := os.ReadFile(filepath.Join(dir, "data"))
			ackb, _ := os.ReadFile(filepath.Join(dir, "ack"))
			acked := 0
			for _, l := range strings.Fields(string(ackb)) {
				if v, err := strconv.Atoi(l); err == nil && v > acked {
					acked = v
				}
			}
			fail := func(class, msg string) {
				r.Violate(ev.Violation{Case: id, Class: class, Msg: fmt.Sprintf("Size=%d, killed at boundary %d of %d: %s", size, k, nb, msg), Witness: map[string]any{"size": size, "ops": fmt.Sprint(ops), "file_len": len(data), "acknowledged_records": acked}})
			}
			if !bytes.HasPrefix(full, data) {
				fail("crash-not-prefix", "the file is not a prefix of the stream")
				continue
			}
			if len(data) > 0 && data[len(data)-1] != '\n' {
				fail("crash-torn", fmt.Sprintf("the file ends inside a caller write: ...%q", tailB(data, 30)))
				continue
			}
			have := bytes.Count(data, []byte("\n"))
			if have < acked {
				fail("crash-ack-lost", fmt.Sprintf("%d records were acknowledged by a completed Sync/Stop but the file holds only %d", acked, have))
				continue
			}
			r.Count("crash_points_checked", 1)
		}
		os.RemoveAll(dir)
	}
}

func tailB(b []byte, n int) []byte {
	if len(b) > n {
		return b[len(b)-n:]
	}
	return b
}

// Child dispatches the race-build concurrent workload and the crash child.
func Child(r *ev.Run, args []string) {
	if len(args) > 0 && args[0] == "crash" {
		crashChild(args)
		return
	}
	var hits [2]atomic.Int64
	verifhook.Set(func(name string) {
		switch name {
		case "bws.loop.tick_received":
			hits[0].Add(1)
			runtime.Gosched()
		case "bws.stop.signalled":
			hits[1].Add(1)
			for i := 0; i < 3; i++ {
				runtime.Gosched()
			}
		}
	})
	defer verifhook.Set(nil)
	lo, hi := 0, r.N(200, 4000)
	if len(args) >= 3 {
		lo, _ = strconv.Atoi(args[1])
		hi, _ = strconv.Atoi(args[2])
	}
	for i := lo; i < hi; i++ {
		if !concHistory(r, fmt.Sprintf("c12/conc/%d", i), i, &hits) {
			break // a hung history leaks blocked goroutines; stop here
		}
	}
	r.Count("hook_hits:bws.loop.tick_received", hits[0].Load())
	r.Count("hook_hits:bws.stop.signalled", hits[1].Load())
}

// Run is the C12 monitor.
func Run(r *ev.Run) {
	r.Rule = "sequential: case i = f(seed,i): Size in {1,2,7,64,4096,default} x 5-60 operations (Write with lengths 0, 1, exactly the free space, free+1, size-1, size, size+1, 3*size; Sync; harness-driven tick; Stop incl. repeated, Write-after-Stop, Sync/Stop before the first Write) with stream/alignment/held-back/flushed-and-synced invariants evaluated after every operation; concurrent (race build): 2-8 goroutines mixing Write (unique records), Sync, Stop and harness ticks, records parsed back out of the sink; crash: for each history a child process is killed (SIGKILL to self) at every client-operation and sink-event boundary and the parent judges the file; distinct = distinct histories / (history, boundary); shared locked sink: 2-3 buffered syncers and a direct writer over one zapcore.Lock(sink) from their own goroutines, overlapping sink calls counted, whole lines of one writer per sink write, every line once in writer order"
	t0 := time.Now()
	hung := 0
	n := r.N(2500, 60000)
	for i := 0; i < n; i++ {
		id := fmt.Sprintf("c12/seq/%d", i)
		if !r.Want(id) {
			continue
		}
		r.Eval(1)
		r.Distinct(fmt.Sprintf("seq|%d", i))
		h := mon.Watch(60*time.Second, func() { seqHistory(r, id, i) }, "BufferedWriteSyncer")
		switch {
		case h.Panicked != "":
			r.Violate(ev.Violation{Case: id, Class: "bws-panic", Msg: "a sequential history of Write/Sync/tick/Stop panicked: " + h.Panicked})
		case h.Dead:
			r.Violate(ev.Violation{Case: id, Class: "bws-deadlock", Msg: "an operation of the buffered syncer never returned: every goroutine inside it is blocked with an unchanged stack and the harness, which alone could send a tick, is waiting for that operation", Witness: h.Dump})
			hung++
		case h.Hung:
			r.Inconclusive(id + ": sequential history exceeded the watchdog but goroutines are still moving")
			hung++
		}
		if hung >= 3 {
			break // each abandoned history leaks its goroutines; three are enough
		}
	}
	for i, n := 0, r.N(400, 8000); i < n; i++ {
		id := fmt.Sprintf("c12/write-fault/%d", i)
		if !r.Want(id) {
			continue
		}
		r.Eval(1)
		r.Distinct(fmt.Sprintf("wfault|%d", i))
		h := mon.Watch(60*time.Second, func() { writeFault(r, id, i) }, "BufferedWriteSyncer")
		if h.Panicked != "" {
			r.Violate(ev.Violation{Case: id, Class: "bws-panic", Msg: "panicked: " + h.Panicked})
		} else if h.Dead {
			r.Violate(ev.Violation{Case: id, Class: "bws-deadlock", Msg: "an operation after a sink fault never returned", Witness: h.Dump})
			break
		} else if h.Hung {
			r.Inconclusive(id + ": exceeded the watchdog")
			break
		}
	}
	for i, n := 0, r.N(400, 8000); i < n; i++ {
		id := fmt.Sprintf("c12/side-by-side/%d", i)
		if !r.Want(id) {
			continue
		}
		r.Eval(1)
		r.Distinct(fmt.Sprintf("side|%d", i))
		h := mon.Watch(60*time.Second, func() { sideBySide(r, id, i) }, "BufferedWriteSyncer")
		if h.Panicked != "" {
			r.Violate(ev.Violation{Case: id, Class: "bws-panic", Msg: "panicked: " + h.Panicked})
		} else if h.Dead {
			r.Violate(ev.Violation{Case: id, Class: "bws-deadlock", Msg: "an operation on one of several syncers side by side never returned", Witness: h.Dump})
			break
		} else if h.Hung {
			r.Inconclusive(id + ": exceeded the watchdog")
			break
		}
	}
	for i, n := 0, r.N(150, 3000); i < n; i++ {
		id := fmt.Sprintf("c12/shared-locked/%d", i)
		if !r.Want(id) {
			continue
		}
		r.Eval(1)
		r.Distinct(fmt.Sprintf("shared-locked|%d", i))
		h := mon.Watch(60*time.Second, func() { sharedLocked(r, id, i) }, "BufferedWriteSyncer")
		if h.Panicked != "" {
			r.Violate(ev.Violation{Case: id, Class: "bws-panic", Msg: "panicked: " + h.Panicked})
		} else if h.Dead {
			r.Violate(ev.Violation{Case: id, Class: "bws-deadlock", Msg: "an operation on one of several syncers over one locked sink never returned", Witness: h.Dump})
			break
		} else if h.Hung {
			r.Inconclusive(id + ": exceeded the watchdog")
			break
		}
	}
	for i, n := 0, r.N(60, 1500); i < n; i++ {
		id := fmt.Sprintf("c12/contended-tick/%d", i)
		if !r.Want(id) {
			continue
		}
		r.Eval(1)
		r.Distinct(fmt.Sprintf("ctick|%d", i))
		h := mon.Watch(90*time.Second, func() { contendedTick(r, id, i) }, "BufferedWriteSyncer")
		if h.Panicked != "" {
			r.Violate(ev.Violation{Case: id, Class: "bws-panic", Msg: "panicked: " + h.Panicked})
		} else if h.Dead {
			r.Violate(ev.Violation{Case: id, Class: "bws-deadlock", Msg: "a tick delivered during a Write left the syncer blocked for good", Witness: h.Dump})
			break
		} else if h.Hung {
			r.Inconclusive(id + ": exceeded the watchdog")
			break
		}
	}
	r.Extra("seconds_sequential", time.Since(t0).Seconds())
	if r.Only == "" {
		t1 := time.Now()
		defer func() { r.Extra("seconds_concurrent_and_crash", time.Since(t1).Seconds()) }()
		// concurrent histories: batches in parallel race-build children
		total, batch := r.N(240, 4000), r.N(60, 250)
		type job struct{ lo, hi int }
		jobs := make(chan job)
		var wg sync.WaitGroup
		for p := 0; p < 4; p++ {
			wg.Add(1)
			go func() {
				defer wg.Done()
				for j := range jobs {
					o := mon.ChildOpts{Race: true, Prop: "C12", Args: []string{"conc", fmt.Sprint(j.lo), fmt.Sprint(j.hi)}, Timeout: 25 * time.Minute, CrashIsViolation: true, Env: []string{"GOMAXPROCS=8"}}
					oc := mon.RunChild(r, o)
					mon.Judge(r, o, oc, fmt.Sprintf("c12/conc-batch/%d-%d", j.lo, j.hi))
				}
			}()
		}
		for lo := 0; lo < total; lo += batch {
			hi := lo + batch
			if hi > total {
				hi = total
			}
			jobs <- job{lo, hi}
		}
		close(jobs)
		wg.Wait()
		r.Extra("seconds_concurrent", time.Since(t1).Seconds())
		if r.Violations() == 0 && (r.Counter("hook_hits:bws.loop.tick_received") == 0 || r.Counter("hook_hits:bws.stop.signalled") == 0) {
			r.Incomplete("a perturbation point of the buffered syncer was never reached")
		}
		crashPoints(r)
	}
}
