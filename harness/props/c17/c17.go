// Package c17 monitors C17: zapio.Writer logs exactly the lines of the byte
// stream, however it is chunked.
package c17

import (
	"errors"
	"fmt"
	"go.uber.org/zap/zaptest"
	"io"
	"strings"
	"sync"
	"time"

	"go.uber.org/zap"
	"go.uber.org/zap/verif/internal/ev"
	"go.uber.org/zap/verif/internal/rng"
	"go.uber.org/zap/zapcore"
	"go.uber.org/zap/zapio"
	"go.uber.org/zap/zaptest/observer"
)

// op is one step of a program: a Write of a chunk, a Sync, or a level toggle.
type op struct {
	Kind  byte // 'W', 'S', 'D' (disable level), 'E' (enable level)
	Chunk []byte
}

// model is the reference: chunking-independent line splitter.
type model struct {
	cur []byte
	out []string
}

func (m *model) write(p []byte) {
	for _, c := range p {
		if c == '\n' {
			m.out = append(m.out, string(m.cur))
			m.cur = m.cur[:0]
			continue
		}
		m.cur = append(m.cur, c)
	}
}

func (m *model) sync() {
	if len(m.cur) > 0 {
		m.out = append(m.out, string(m.cur))
		m.cur = m.cur[:0]
	}
}

func render(ops []op) []string {
	var s []string
	for _, o := range ops {
		switch o.Kind {
		case 'W':
			c := o.Chunk
			if len(c) > 40 {
				s = append(s, fmt.Sprintf("W(%d bytes %q...)", len(c), c[:40]))
			} else {
				s = append(s, fmt.Sprintf("W(%q)", c))
			}
		default:
			s = append(s, string(o.Kind))
		}
	}
	return s
}

// pickyCore accepts entries like the core it stands beside and fails to write every other one.
type pickyCore struct {
	en zapcore.LevelEnabler
	n  int
}

func (c *pickyCore) Enabled(l zapcore.Level) bool      { return c.en.Enabled(l) }
func (c *pickyCore) With([]zapcore.Field) zapcore.Core { return c }
func (c *pickyCore) Check(e zapcore.Entry, ce *zapcore.CheckedEntry) *zapcore.CheckedEntry {
	if c.Enabled(e.Level) {
		return ce.AddCore(e, c)
	}
	return ce
}
func (c *pickyCore) Write(zapcore.Entry, []zapcore.Field) error {
	c.n++
	if c.n%2 == 0 {
		return errors.New("c17 destination refuses this line")
	}
	return nil
}
func (c *pickyCore) Sync() error { return nil }

// runProgram executes ops against a real zapio.Writer; it returns a violation message or "".
// onlyCore narrows a core to the levels ok admits, the way zapcore.NewCore's LevelEnabler would.
type onlyCore struct {
	zapcore.Core
	ok func(zapcore.Level) bool
}

func (c *onlyCore) Enabled(l zapcore.Level) bool { return c.ok(l) && c.Core.Enabled(l) }
func (c *onlyCore) With(fs []zapcore.Field) zapcore.Core {
	return &onlyCore{Core: c.Core.With(fs), ok: c.ok}
}
func (c *onlyCore) Check(e zapcore.Entry, ce *zapcore.CheckedEntry) *zapcore.CheckedEntry {
	if c.Enabled(e.Level) {
		return ce.AddCore(e, c)
	}
	return ce
}

func runProgram(ops []op, level zapcore.Level, toggles bool) string {
	al := zap.NewAtomicLevelAt(zapcore.DebugLevel)
	// the core enables every level (also custom ones below debug or above fatal) unless the
	// program has switched it off
	core, logs := observer.New(zap.LevelEnablerFunc(func(l zapcore.Level) bool { return al.Level() <= zapcore.DebugLevel }))
	var logCore zapcore.Core = core
	if len(ops)%3 == 1 {
		// the logger fans out: ahead of the recording core sits a destination that refuses every other
		// line; what the recording core receives must not depend on that
		logCore = zapcore.NewTee(&pickyCore{en: core}, core)
	}
	// one program in forty logs through a sampled logger (first two per level and message, nothing
	// thereafter, within the hour): which lines arrive is then a matter of each line's own text
	nbytes := 0
	for _, o := range ops {
		nbytes += len(o.Chunk)
	}
	sampled := len(ops)%5 == 2 && nbytes%8 == 3 && !toggles // (a sampler's counter table is half a megabyte)
	if sampled {
		logCore = zapcore.NewSamplerWithOptions(logCore, time.Hour, 2, 0)
	}
	if len(ops)%3 == 2 && nbytes%2 == 0 && !sampled {
		// the documented "split by priority" arrangement with an entry hook on top: a tee of one branch
		// for error and above and one for everything below, both feeding the recording core; each line
		// belongs to exactly one branch (round 8)
		logCore = zapcore.RegisterHooks(zapcore.NewTee(
			&onlyCore{Core: logCore, ok: func(l zapcore.Level) bool { return l >= zapcore.ErrorLevel }},
			&onlyCore{Core: logCore, ok: func(l zapcore.Level) bool { return l < zapcore.ErrorLevel }},
		), func(zapcore.Entry) error { return nil })
	}
	w := &zapio.Writer{Log: zap.New(logCore, zap.ErrorOutput(zapcore.AddSync(io.Discard))), Level: level}
	// in every second program the recorded messages are collected in batches, one at every Sync
	batched := len(ops)%2 == 1 && !toggles
	var batches [][]observer.LoggedEntry
	// other users of the shared buffer pool: a second writer with a pending partial line and loggers
	// over encoder-backed cores
	other := &zapio.Writer{Log: zap.NewNop(), Level: zapcore.InfoLevel}
	poolUsers := []*zap.Logger{
		zap.New(zapcore.NewCore(zapcore.NewJSONEncoder(zap.NewProductionEncoderConfig()), zapcore.AddSync(io.Discard), zapcore.DebugLevel)),
		zap.New(zapcore.NewCore(zapcore.NewConsoleEncoder(zap.NewDevelopmentEncoderConfig()), zapcore.AddSync(io.Discard), zapcore.DebugLevel)),
	}
	m := &model{}
	enabled := true
	sawDisabled := false
	before := 0
	seg := 0
	scratch := make([]byte, 0, 256)
	for i, o := range ops {
		switch o.Kind {
		case 'W':
			if toggles {
				// programs with disabled phases: every byte that is not a newline names the segment
				// (number of Syncs so far) it was written in, so a message mixing two letters shows
				// that a Sync did not act as a split point
				for k := range o.Chunk {
					if o.Chunk[k] != '\n' {
						o.Chunk[k] = byte('a' + seg%26)
						if !enabled {
							// written while the level is disabled: must never show up in any message
							o.Chunk[k] = byte('A' + seg%26)
						}
					}
				}
			}
			// the caller's buffer is reused and overwritten as soon as Write returns (io.Writer
			// forbids retaining it): what is logged later must not change
			scratch = append(scratch[:0], o.Chunk...)
			n, err := w.Write(scratch)
			for k := range scratch {
				scratch[k] = 0xEE
			}
			if n != len(o.Chunk) || err != nil {
				return fmt.Sprintf("op %d: Write(%d bytes) returned (%d, %v), want (%d, nil)", i, len(o.Chunk), n, err, len(o.Chunk))
			}
			if enabled {
				m.write(o.Chunk)
			}
		case 'S':
			if err := w.Sync(); err != nil {
				return fmt.Sprintf("op %d: Sync returned %v", i, err)
			}
			if enabled {
				m.sync()
			}
			if batched {
				batches = append(batches, logs.TakeAll())
			}
			seg++
		case 'L':
			_, _ = other.Write([]byte("pending partial of another writer"))
			for _, pl := range poolUsers {
				pl.Info("pool user", zap.String("k", "0123456789abcdef0123456789abcdef"), zap.Reflect("r", []int{1, 2, 3}), zap.Int("n", i))
			}
			_ = other.Sync()
		case 'D':
			al.SetLevel(zapcore.FatalLevel + 1)
			enabled, sawDisabled = false, true
		case 'E':
			al.SetLevel(zapcore.DebugLevel)
			enabled = true
		}
		if !enabled && logs.Len() != before {
			return fmt.Sprintf("op %d: an entry was logged while the level is disabled", i)
		}
		before = logs.Len()
	}
	if err := w.Close(); err != nil {
		return fmt.Sprintf("Close returned %v", err)
	}
	if enabled {
		m.sync()
	} else if logs.Len() != before {
		return "Close logged an entry while the level is disabled"
	}
	got := logs.All()
	if batched {
		var all []observer.LoggedEntry
		for _, b := range batches {
			all = append(all, b...)
		}
		got = append(all, got...)
	}
	if toggles && sawDisabled {
		// with disabled phases "nothing while disabled", the return values and the split-point role
		// of Sync are judged
		for i := range got {
			m := got[i].Message
			for k := 0; k < len(m); k++ {
				if m[k] >= 'A' && m[k] <= 'Z' {
					return fmt.Sprintf("message %d %q contains bytes that were written while the level was disabled", i, clip(m))
				}
			}
			for k := 1; k < len(m); k++ {
				if m[k] != m[0] {
					return fmt.Sprintf("message %d %q joins bytes written before and after a Sync: an explicit Sync must act as a split point (also while the level is disabled)", i, clip(m))
				}
			}
		}
		return ""
	}
	if sampled && level >= zapcore.DebugLevel && level <= zapcore.FatalLevel {
		// the reference sampler: per 4096-bucket FNV-1a hash of the line's text, the first two pass
		seen := map[uint32]int{}
		var kept []string
		for _, line := range m.out {
			h := uint32(2166136261)
			for k := 0; k < len(line); k++ {
				h ^= uint32(line[k])
				h *= 16777619
			}
			if seen[h%4096]++; seen[h%4096] <= 2 {
				kept = append(kept, line)
			}
		}
		m.out = kept
	}
	if len(got) != len(m.out) {
		return fmt.Sprintf("logged %d messages, want %d: got %q want %q", len(got), len(m.out), msgs(got), clipS(m.out))
	}
	for i := range got {
		if got[i].Message != m.out[i] {
			return fmt.Sprintf("message %d: got %q want %q", i, clip(got[i].Message), clip(m.out[i]))
		}
		if got[i].Level != level {
			return fmt.Sprintf("message %d logged at %v, want %v", i, got[i].Level, level)
		}
	}
	return ""
}

// recT is a recording test handle for zaptest loggers.
type recT struct {
	mu   sync.Mutex
	logs []string
}

func (t *recT) Logf(f string, a ...interface{}) {
	t.mu.Lock()
	t.logs = append(t.logs, fmt.Sprintf(f, a...))
	t.mu.Unlock()
}
func (t *recT) Errorf(f string, a ...interface{}) { t.Logf(f, a...) }
func (t *recT) Fail()                             {}
func (t *recT) Failed() bool                      { return false }
func (t *recT) Name() string                      { return "rec" }
func (t *recT) FailNow()                          {}

// throughTestLogger: the stream is logged through a zaptest logger (console lines handed to the test's
// log): every line of the stream is the tail of one logged line, blanks, tabs and carriage returns at
// its end included.
func throughTestLogger(r *ev.Run) {
	table := []string{"compiling package a ", "\t", "  2 warnings  ", "", "carriage return\r", " ", "plain", "tab at the end\t", "\t \t", "tail without newline  "}
	n := r.N(200, 5000)
	for i := 0; i < n; i++ {
		id := fmt.Sprintf("c17/zaptest/%d", i)
		if !r.Want(id) {
			continue
		}
		g := rng.For(r.Seed, "c17/zaptest", i)
		var lines []string
		for k := g.Range(1, 8); k > 0; k-- {
			lines = append(lines, rng.Pick(g, table))
		}
		stream := strings.Join(lines, "\n")
		closed := g.Bool()
		if closed {
			stream += "\n"
		}
		t := &recT{}
		w := &zapio.Writer{Log: zaptest.NewLogger(t, zaptest.Level(zapcore.DebugLevel)), Level: zapcore.InfoLevel}
		for off := 0; off < len(stream); {
			c := g.Range(1, 9)
			if off+c > len(stream) {
				c = len(stream) - off
			}
			if nw, err := w.Write([]byte(stream[off : off+c])); nw != c || err != nil {
				r.Violate(ev.Violation{Case: id, Class: "zapio-through-test-logger", Msg: fmt.Sprintf("Write returned (%d, %v)", nw, err)})
			}
			off += c
		}
		_ = w.Close()
		r.Eval(1)
		r.Count("streams_through_a_zaptest_logger", 1)
		r.Distinct(fmt.Sprintf("zaptest|%q", stream))
		want := lines
		if !closed && lines[len(lines)-1] == "" {
			want = lines[:len(lines)-1] // nothing pending at Close
		}
		bad := ""
		if len(t.logs) != len(want) {
			bad = fmt.Sprintf("%d lines reached the test log, want %d", len(t.logs), len(want))
		} else {
			for k := range want {
				if !strings.HasSuffix(t.logs[k], "\t"+want[k]) {
					bad = fmt.Sprintf("line %d in the test log is %q, which does not end with the stream's line %q", k, t.logs[k], want[k])
					break
				}
			}
		}
		if bad != "" {
			r.Violate(ev.Violation{Case: id, Class: "zapio-through-test-logger", Msg: fmt.Sprintf("stream %q written in chunks through zapio.Writer over a zaptest logger: %s", stream, bad), Witness: t.logs})
		}
	}
}

func clip(s string) string {
	if len(s) > 60 {
		return s[:60] + "..."
	}
	return s
}

func clipS(ss []string) []string {
	out := []string{}
	for i, s := range ss {
		if i > 12 {
			out = append(out, "...")
			break
		}
		out = append(out, clip(s))
	}
	return out
}

func msgs(es []observer.LoggedEntry) []string {
	var s []string
	for _, e := range es {
		s = append(s, e.Message)
	}
	return clipS(s)
}

func feature(r *ev.Run, ops []op) {
	prevEndsNL := false
	for _, o := range ops {
		if o.Kind != 'W' {
			continue
		}
		c := o.Chunk
		switch {
		case len(c) == 0:
			r.Count("empty_writes", 1)
		case len(c) == 1 && c[0] == '\n':
			r.Count("newline_alone", 1)
		}
		if len(c) > 0 && c[0] == '\n' {
			r.Count("newline_at_chunk_start", 1)
			if prevEndsNL {
				r.Count("consecutive_newlines_straddling", 1)
			}
		}
		if len(c) > 0 {
			prevEndsNL = c[len(c)-1] == '\n'
		}
	}
}

// Run is the C17 monitor.
func Run(r *ev.Run) {
	r.Rule = "exhaustive part: every stream over {a,\\n} up to length L x every partition into Write calls (2^(n-1)), plus the same with a Sync inserted at one cut; random part: case i = f(seed,i): stream over a newline-rich alphabet / arbitrary bytes / 100 KiB lines, random partition with empty writes, Syncs and level toggles; distinct = distinct (stream, partition) programs; non-trivial = stream contains a newline or is split"
	maxLen := r.N(9, 12)
	nexh := 0
	for n := 0; n <= maxLen; n++ {
		for bits := 0; bits < 1<<n; bits++ {
			stream := make([]byte, n)
			for i := range stream {
				if bits>>i&1 == 1 {
					stream[i] = '\n'
				} else {
					stream[i] = 'a'
				}
			}
			cuts := 1
			if n > 1 {
				cuts = 1 << (n - 1)
			}
			for part := 0; part < cuts; part++ {
				id := fmt.Sprintf("c17/exh/%d/%d/%d", n, bits, part)
				if !r.Want(id) {
					continue
				}
				var ops []op
				st := 0
				for i := 1; i < n; i++ {
					if part>>(i-1)&1 == 1 {
						ops = append(ops, op{'W', stream[st:i]})
						st = i
					}
				}
				ops = append(ops, op{'W', stream[st:]})
				nexh++
				r.Eval(1)
				if bits != 0 || part != 0 {
					r.Distinct(fmt.Sprintf("e%d/%d/%d", n, bits, part))
				}
				if nexh%1000 == 1 {
					feature(r, ops)
				}
				if msg := runProgram(ops, zapcore.InfoLevel, false); msg != "" {
					r.Violate(ev.Violation{Case: id, Class: "lines", Msg: msg, Witness: render(ops)})
				}
				// one Sync at a cut chosen by the partition index
				if len(ops) > 1 {
					k := part % len(ops)
					ops2 := append(append(append([]op{}, ops[:k+1]...), op{Kind: 'S'}), ops[k+1:]...)
					r.Eval(1)
					if msg := runProgram(ops2, zapcore.WarnLevel, false); msg != "" {
						r.Violate(ev.Violation{Case: id + "/sync", Class: "lines-with-sync", Msg: msg, Witness: render(ops2)})
					}
				}
			}
		}
	}
	r.Extra("exhaustive_programs", nexh)
	r.Extra("exhaustive_max_stream_len", maxLen)
	r.Exhaustive(false) // only the bounded sub-space above is exhaustive; the random part is sampled
	nrand := r.N(100000, 1500000)
	for i := 0; i < nrand; i++ {
		id := fmt.Sprintf("c17/rnd/%d", i)
		if !r.Want(id) {
			continue
		}
		g := rng.For(r.Seed, "c17", i)
		var stream []byte
		switch g.Intn(10) {
		case 0:
			n := g.Intn(64)
			stream = make([]byte, n)
			for j := range stream {
				stream[j] = byte(g.Intn(256))
			}
		case 1:
			if i%200 == 1 {
				stream = make([]byte, 100*1024+g.Intn(10))
				for j := range stream {
					stream[j] = 'x'
				}
				stream[g.Intn(len(stream))] = '\n'
			}
			fallthrough
		default:
			if stream == nil {
				n := g.Intn(40)
				stream = make([]byte, n)
				for j := range stream {
					stream[j] = "ab\n\n\r "[g.Intn(6)]
				}
			}
		}
		toggles := g.P(1, 6)
		var ops []op
		st := 0
		for st < len(stream) {
			n := g.Intn(8)
			if g.P(1, 10) {
				n = g.Intn(len(stream) - st + 1)
			}
			if st+n > len(stream) {
				n = len(stream) - st
			}
			ops = append(ops, op{'W', stream[st : st+n]})
			st += n
			if g.P(1, 6) {
				ops = append(ops, op{Kind: 'S'})
			}
			if g.P(1, 8) {
				ops = append(ops, op{Kind: 'L'}) // other users of zap's shared buffer pool in between
			}
			if toggles && g.P(1, 5) {
				ops = append(ops, op{Kind: rng.Pick(g, []byte{'D', 'E'})})
			}
		}
		if g.P(1, 4) {
			ops = append(ops, op{'W', nil})
		}
		r.Eval(1)
		r.Distinct(fmt.Sprintf("r%d", i))
		if i < 2 {
			r.Sample(map[string]any{"program": render(ops)})
		}
		if i%50 == 0 {
			feature(r, ops)
		}
		lvl := rng.Pick(g, []zapcore.Level{zapcore.DebugLevel, zapcore.InfoLevel, zapcore.ErrorLevel, zapcore.Level(-2), zapcore.Level(-128), zapcore.Level(7), zapcore.WarnLevel})
		if msg := runProgram(ops, lvl, toggles); msg != "" {
			r.Violate(ev.Violation{Case: id, Class: "lines-random", Msg: msg, Witness: render(ops)})
		}
	}
	throughTestLogger(r)
}
