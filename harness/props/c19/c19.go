// Package c19 monitors C19: Open, Config.Build and std-log redirection are
// all-or-nothing, file URLs are validated, registries reject bad names.
package c19

import (
	"errors"
	"fmt"
	"go.uber.org/zap/verif/internal/mon"
	"log"
	"net/url"
	"os"
	"path/filepath"
	"runtime"
	"runtime/debug"
	"runtime/pprof"
	"sort"
	"strings"
	"sync"
	"sync/atomic"
	"time"

	"go.uber.org/zap"
	"go.uber.org/zap/verif/internal/ev"
	"go.uber.org/zap/verif/internal/rng"
	"go.uber.org/zap/zapcore"
	"go.uber.org/zap/zaptest/observer"
)

// inst is one opened custom sink.
type inst struct {
	url    string
	writes [][]byte
	syncs  int
	closes int
}

func (i *inst) Write(p []byte) (int, error) {
	i.writes = append(i.writes, append([]byte(nil), p...))
	return len(p), nil
}
func (i *inst) Sync() error  { i.syncs++; return nil }
func (i *inst) Close() error { i.closes++; return nil }

var (
	regMu     sync.Mutex
	instances []*inst
	schemeA   string
	schemeB   string
	factoryN  int
)

func factory(u *url.URL) (zap.Sink, error) {
	regMu.Lock()
	defer regMu.Unlock()
	factoryN++
	if u.Host == "fail" {
		return nil, fmt.Errorf("custom sink %s refused to open", u)
	}
	i := &inst{url: u.String()}
	instances = append(instances, i)
	return i, nil
}

func resetInstances() { regMu.Lock(); instances = nil; regMu.Unlock() }

func openInstances() []*inst {
	regMu.Lock()
	defer regMu.Unlock()
	return append([]*inst(nil), instances...)
}

// fdsInto lists open descriptors whose target lies under dir.
func fdsInto(dir string) []string {
	es, err := os.ReadDir("/proc/self/fd")
	if err != nil {
		return nil
	}
	var out []string
	for _, e := range es {
		t, err := os.Readlink("/proc/self/fd/" + e.Name())
		if err == nil && strings.HasPrefix(t, dir) {
			out = append(out, e.Name()+"->"+t)
		}
	}
	sort.Strings(out)
	return out
}

func listFiles(dir string) []string {
	var out []string
	_ = filepath.Walk(dir, func(p string, info os.FileInfo, err error) error {
		if err == nil && !info.IsDir() {
			out = append(out, p)
		}
		return nil
	})
	sort.Strings(out)
	return out
}

type pathCase struct {
	path     string
	fails    bool
	kind     string
	file     string // file that must receive the bytes ("" = none)
	instance bool   // a custom sink instance is opened
}

type env struct {
	dir string
	n   int
}

func (e *env) genPath(g *rng.R, forceFail, forceOK bool) pathCase {
	e.n++
	id := fmt.Sprintf("%d", e.n)
	for {
		k := g.Intn(14)
		var pc pathCase
		switch k {
		case 10:
			// exactly the path given is opened, dot segments and all: "<link>/../f" names a file beside
			// the directory the symbolic link points into, not beside the link
			real := filepath.Join(e.dir, "real")
			if _, err := os.Lstat(filepath.Join(e.dir, "link")); err != nil {
				_ = os.MkdirAll(filepath.Join(real, "sub"), 0o755)
				_ = os.Symlink(filepath.Join(real, "sub"), filepath.Join(e.dir, "link"))
			}
			pc = pathCase{path: "file://" + e.dir + "/link/../via-" + id + ".log", kind: "file-url-dotdot-through-symlink", file: filepath.Join(real, "via-"+id+".log")}
		case 11:
			pc = pathCase{path: rng.Pick(g, []string{"file://", "file://localhost", ""}) + e.dir + "/missing-" + id + "/../m-" + id + ".log", kind: "unopenable-dotdot-through-missing-dir", fails: true}
		case 12:
			pc = pathCase{path: "file://" + e.dir + "/t-" + id + ".log/", kind: "unopenable-trailing-slash", fails: true}
		case 13:
			w := rng.Pick(g, []string{"stderr", "stdout"})
			pc = pathCase{path: "./" + w, kind: "relative-file-named-like-a-standard-stream", file: filepath.Join(e.dir, w)}
		case 0, 1:
			pc = pathCase{path: fmt.Sprintf("%s://ok/%s", rng.Pick(g, []string{schemeA, schemeB, strings.ToUpper(schemeA)}), id), kind: "custom-ok", instance: true}
		case 2:
			pc = pathCase{path: fmt.Sprintf("%s://fail/%s", schemeA, id), kind: "custom-fail", fails: true}
		case 3:
			f := filepath.Join(e.dir, "abs-"+id+".log")
			pc = pathCase{path: f, kind: "abs-file", file: f}
		case 4:
			f := filepath.Join(e.dir, "url-"+id+".log")
			pc = pathCase{path: "file://" + f, kind: "file-url", file: f}
		case 5:
			pc = pathCase{path: filepath.Join(e.dir, "no-such-dir-"+id, "x.log"), kind: "unopenable-file", fails: true}
		case 6:
			pc = pathCase{path: "nosuchscheme" + id + "://x", kind: "unknown-scheme", fails: true}
		case 7:
			pc = pathCase{path: rng.Pick(g, []string{"%zz://bad", "file://[::1", "http://a b/"}), kind: "unparsable", fails: true}
		case 8:
			pc = pathCase{path: e.dir, kind: "directory", fails: true}
		default:
			f := filepath.Join(e.dir, "rel-"+id+".log")
			pc = pathCase{path: "rel-" + id + ".log", kind: "relative-file", file: f}
		}
		if forceFail && !pc.fails {
			continue
		}
		if forceOK && pc.fails {
			continue
		}
		return pc
	}
}

// judgeOpenResult checks the all-or-nothing contract after a call that opened paths.
func judgeAfterError(e *env, fdsBefore []string, what string) string {
	for _, i := range openInstances() {
		if i.closes != 1 {
			return fmt.Sprintf("%s returned an error but the custom sink %s it opened was closed %d times (want 1)", what, i.url, i.closes)
		}
	}
	if leaked := diff(fdsInto(e.dir), fdsBefore); len(leaked) > 0 {
		return fmt.Sprintf("%s returned an error but left file descriptors open: %v", what, leaked)
	}
	return ""
}

// gcOff disables the collector while a case runs: a finalizer would close, and so
// hide, a leaked *os.File before the descriptor table is inspected.
var gcOffCalls int

func gcOff() func() {
	// The collector never gets a chance to start in the short gaps between cases, so garbage
	// would pile up (10 GB per 20 000 cases): collect explicitly before a case starts, when
	// nothing of that case exists yet that a finalizer could close.
	if gcOffCalls++; gcOffCalls%50 == 0 {
		runtime.GC()
	}
	old := debug.SetGCPercent(-1)
	return func() { debug.SetGCPercent(old) }
}

func openCases(r *ev.Run, e *env) {
	n := r.N(1500, 60000)
	for i := 0; i < n; i++ {
		openCase(r, e, i)
	}
}

// cleanup removes the regular files a case created (descriptors stay valid).
func cleanup(e *env) {
	es, _ := os.ReadDir(e.dir)
	for _, x := range es {
		if !x.IsDir() {
			_ = os.Remove(filepath.Join(e.dir, x.Name()))
			continue
		}
		// files that cases created below the sandbox's few fixed sub-directories (reached through dot
		// segments) go as well: the directory walk of later cases must not grow with the run
		sub, _ := os.ReadDir(filepath.Join(e.dir, x.Name()))
		for _, y := range sub {
			if !y.IsDir() {
				_ = os.Remove(filepath.Join(e.dir, x.Name(), y.Name()))
			}
		}
	}
}

func openCase(r *ev.Run, e *env, i int) {
	defer gcOff()()
	defer cleanup(e)
	for once := true; once; once = false {
		id := fmt.Sprintf("c19/open/%d", i)
		if !r.Want(id) {
			continue
		}
		g := rng.For(r.Seed, "c19/open", i)
		k := g.Intn(6)
		failMask := g.Intn(1 << k)
		if g.P(1, 3) {
			failMask = 0
		}
		var pcs []pathCase
		var paths, kinds []string
		anyFail := false
		for j := 0; j < k; j++ {
			pc := e.genPath(g, failMask>>j&1 == 1, failMask>>j&1 == 0)
			pcs = append(pcs, pc)
			paths = append(paths, pc.path)
			kinds = append(kinds, pc.kind)
			anyFail = anyFail || pc.fails
		}
		resetInstances()
		before := fdsInto(e.dir)
		var ws zapcore.WriteSyncer
		var closeAll func()
		var err error
		pn := ev.Guard(func() { ws, closeAll, err = zap.Open(paths...) })
		r.Eval(1)
		r.SetAdd("open_fail_patterns", fmt.Sprintf("k=%d,mask=%b", k, failMask))
		r.Distinct(fmt.Sprintf("open|%v", kinds))
		if i < 2 {
			r.Sample(map[string]any{"Open": paths, "kinds": kinds})
		}
		bad := func(class, f string, a ...any) {
			r.Violate(ev.Violation{Case: id, Class: class, Msg: fmt.Sprintf("Open(%v): ", kinds) + fmt.Sprintf(f, a...), Witness: map[string]any{"paths": paths, "kinds": kinds}})
		}
		if pn != "" {
			bad("open-panic", "panicked: %s", pn)
			continue
		}
		if anyFail {
			if err == nil {
				bad("open-no-error", "a path cannot be opened but no error was returned")
				if closeAll != nil {
					closeAll()
				}
				continue
			}
			if m := judgeAfterError(e, before, "Open"); m != "" {
				bad("open-leak", "%s", m)
			}
			continue
		}
		if err != nil {
			bad("open-spurious-error", "all paths are openable but Open returned %v", err)
			continue
		}
		payload := []byte(fmt.Sprintf("payload-%d\n", i))
		if n, werr := ws.Write(payload); n != len(payload) || werr != nil {
			bad("open-write", "Write returned (%d,%v)", n, werr)
		}
		_ = ws.Sync()
		for _, in := range openInstances() {
			if in.closes != 0 {
				bad("open-closed-on-success", "custom sink %s was closed although Open succeeded", in.url)
			}
			if len(in.writes) != 1 || string(in.writes[0]) != string(payload) {
				bad("open-destination-missed", "custom sink %s did not receive the write", in.url)
			}
		}
		for _, pc := range pcs {
			if pc.file != "" {
				b, _ := os.ReadFile(pc.file)
				if !strings.HasSuffix(string(b), string(payload)) {
					bad("open-destination-missed", "file %s did not receive the write", pc.file)
				}
			}
		}
		closeAll()
		for _, in := range openInstances() {
			if in.closes != 1 {
				bad("open-close", "after the close function, custom sink %s was closed %d times", in.url, in.closes)
			}
		}
		if leaked := diff(fdsInto(e.dir), before); len(leaked) > 0 {
			bad("open-close", "the close function left descriptors open: %v", leaked)
		}
	}
}

func buildCases(r *ev.Run, e *env) {
	n := r.N(1500, 60000)
	for i := 0; i < n; i++ {
		buildCase(r, e, i)
	}
}

func buildCase(r *ev.Run, e *env, i int) {
	defer gcOff()()
	defer cleanup(e)
	for once := true; once; once = false {
		id := fmt.Sprintf("c19/build/%d", i)
		if !r.Want(id) {
			continue
		}
		g := rng.For(r.Seed, "c19/build", i)
		cfg := zap.NewProductionConfig()
		cfg.Sampling = nil
		cfg.Level = zap.NewAtomicLevelAt(zapcore.InfoLevel)
		mkList := func(failing bool) ([]string, []pathCase) {
			k := g.Range(1, 4)
			var ps []string
			var pcs []pathCase
			failAt := -1
			if failing {
				failAt = g.Intn(k)
			}
			for j := 0; j < k; j++ {
				pc := e.genPath(g, j == failAt, j != failAt)
				ps = append(ps, pc.path)
				pcs = append(pcs, pc)
			}
			return ps, pcs
		}
		fault := rng.Pick(g, []string{"none", "none", "bad-output", "bad-error-output", "unknown-encoding", "empty-encoding", "missing-time-encoder", "missing-level", "missing-level"})
		var outPCs, errPCs []pathCase
		cfg.OutputPaths, outPCs = mkList(fault == "bad-output")
		cfg.ErrorOutputPaths, errPCs = mkList(fault == "bad-error-output")
		// one valid configuration in three takes its output paths from the front of a longer list that a
		// second configuration uses in full afterwards (a shared list of destinations)
		var fullPaths []string
		var fullPCs []pathCase
		if fault == "none" && g.P(1, 3) {
			fullPaths, fullPCs = append([]string{}, cfg.OutputPaths...), append([]pathCase{}, outPCs...)
			for n := g.Range(1, 3); n > 0; n-- {
				pc := e.genPath(g, false, true)
				fullPaths, fullPCs = append(fullPaths, pc.path), append(fullPCs, pc)
			}
			cfg.OutputPaths = fullPaths[:len(outPCs)]
		}
		switch fault {
		case "unknown-encoding":
			cfg.Encoding = "no-such-encoding"
		case "empty-encoding":
			cfg.Encoding = ""
		case "missing-time-encoder":
			cfg.EncoderConfig.EncodeTime = nil
		case "missing-level":
			cfg.Level = zap.AtomicLevel{}
		}
		resetInstances()
		before := fdsInto(e.dir)
		var lg *zap.Logger
		var err error
		pn := ev.Guard(func() { lg, err = cfg.Build(zap.IncreaseLevel(zapcore.DebugLevel)) })
		r.Eval(1)
		r.SetAdd("build_error_paths", fmt.Sprintf("%s|out=%d|err=%d", fault, len(cfg.OutputPaths), len(cfg.ErrorOutputPaths)))
		r.Distinct(fmt.Sprintf("build|%s|%v|%v", fault, kindsOf(outPCs), kindsOf(errPCs)))
		wit := map[string]any{"fault": fault, "outputPaths": cfg.OutputPaths, "errorOutputPaths": cfg.ErrorOutputPaths}
		bad := func(class, f string, a ...any) {
			r.Violate(ev.Violation{Case: id, Class: class, Msg: fmt.Sprintf("Config.Build(fault=%s, out=%v, err=%v): ", fault, kindsOf(outPCs), kindsOf(errPCs)) + fmt.Sprintf(f, a...), Witness: wit})
		}
		if pn != "" {
			bad("build-panic", "panicked: %s", pn)
			continue
		}
		if fault != "none" {
			if err == nil {
				bad("build-no-error", "no error returned")
				continue
			}
			if m := judgeAfterError(e, before, "Build"); m != "" {
				class := "build-leak"
				if fault == "missing-level" {
					class = "build-leak:missing-level"
				}
				bad(class, "%s", m)
			}
			continue
		}
		if err != nil {
			bad("build-spurious-error", "valid configuration but Build returned %v", err)
			continue
		}
		msg := fmt.Sprintf("built-%d", i)
		lg.Info(msg)
		_ = lg.Sync()
		for _, in := range openInstances() {
			if in.closes != 0 {
				bad("build-closed-on-success", "sink %s closed although Build succeeded", in.url)
			}
		}
		check := func(pcs []pathCase, needle string, what string) {
			for _, pc := range pcs {
				switch {
				case pc.file != "":
					b, _ := os.ReadFile(pc.file)
					if !strings.Contains(string(b), needle) {
						bad("build-destination-missed", "%s file %s did not receive %q", what, pc.file, needle)
					}
				case pc.instance:
					found := false
					for _, in := range openInstances() {
						if in.url == strings.ToLower(pc.path[:strings.Index(pc.path, ":")])+pc.path[strings.Index(pc.path, ":"):] {
							for _, w := range in.writes {
								if strings.Contains(string(w), needle) {
									found = true
								}
							}
						}
					}
					if !found {
						bad("build-destination-missed", "%s sink %s did not receive %q", what, pc.path, needle)
					}
				}
			}
		}
		check(outPCs, msg, "output")
		// the IncreaseLevel(Debug) option cannot be honoured on an Info core: zap reports that on the error output
		check(errPCs, "failed to IncreaseLevel", "error-output")
		if fullPaths != nil {
			cfg2 := cfg
			cfg2.OutputPaths = fullPaths
			lg2, err2 := cfg2.Build()
			if err2 != nil {
				bad("build-spurious-error", "a second configuration using the whole shared path list %v failed: %v", fullPaths, err2)
				continue
			}
			msg2 := fmt.Sprintf("built-again-%d", i)
			lg2.Info(msg2)
			_ = lg2.Sync()
			wit["shared_path_list"] = fullPaths
			check(fullPCs, msg2, "output (second configuration, whole shared list)")
			r.Count("builds_from_a_shared_path_list", 1)
		}
	}
}

func kindsOf(pcs []pathCase) []string {
	var ks []string
	for _, p := range pcs {
		ks = append(ks, p.kind)
	}
	return ks
}

func contains(xs []string, x string) bool {
	for _, y := range xs {
		if x == y {
			return true
		}
	}
	return false
}

type nopWriter struct{ id int }

func (nopWriter) Write(p []byte) (int, error) { return len(p), nil }

func redirectCases(r *ev.Run) {
	origFlags, origPrefix, origWriter := log.Flags(), log.Prefix(), log.Writer()
	defer func() { log.SetFlags(origFlags); log.SetPrefix(origPrefix); log.SetOutput(origWriter) }()
	for v := -128; v <= 127; v++ {
		id := fmt.Sprintf("c19/redirect/%d", v)
		if !r.Want(id) {
			continue
		}
		g := rng.For(r.Seed, "c19/redirect", v)
		flags := g.Intn(128)
		prefix := rng.Pick(g, []string{"", "pfx: ", "[x] "})
		w := &nopWriter{v}
		log.SetFlags(flags)
		log.SetPrefix(prefix)
		log.SetOutput(w)
		core, logs := observer.New(zapcore.DebugLevel)
		lg := zap.New(core, zap.WithPanicHook(hook{}), zap.WithFatalHook(hook{}))
		lvl := zapcore.Level(v)
		valid := v >= -1 && v <= 5
		var undo func()
		var err error
		pn := ev.Guard(func() { undo, err = zap.RedirectStdLogAt(lg, lvl) })
		r.Eval(1)
		r.Distinct(fmt.Sprintf("redirect|%d|%d|%q", v, flags, prefix))
		bad := func(class, f string, a ...any) {
			r.Violate(ev.Violation{Case: id, Class: class, Msg: fmt.Sprintf("RedirectStdLogAt(level %d) with prior flags=%d prefix=%q: ", v, flags, prefix) + fmt.Sprintf(f, a...)})
		}
		if pn != "" {
			bad("redirect-panic", "panicked: %s", pn)
			continue
		}
		if !valid {
			if err == nil {
				bad("redirect-no-error", "invalid level accepted")
				undo()
				continue
			}
			if log.Flags() != flags || log.Prefix() != prefix || log.Writer() != w {
				bad("redirect-not-undone", "returned an error but the standard logger now has flags=%d prefix=%q writer-changed=%v", log.Flags(), log.Prefix(), log.Writer() != w)
			}
			if _, e2 := zap.NewStdLogAt(lg, lvl); e2 == nil {
				bad("redirect-no-error", "NewStdLogAt accepted an invalid level")
			}
			continue
		}
		if err != nil {
			bad("redirect-spurious-error", "valid level rejected: %v", err)
			continue
		}
		func() {
			defer func() { _ = recover() }()
			log.Print("redirected")
		}()
		es := logs.All()
		if len(es) != 1 || es[0].Level != lvl || es[0].Message != "redirected" {
			bad("redirect-destination", "log.Print did not arrive at the logger at level %v (got %d entries)", lvl, len(es))
		}
		// every write handed to the bridge arrives, whatever its text: blank and whitespace-only
		// messages are writes like any other (round 8)
		msgs := []string{"", " ", "\t", "\n", "x", " y ", "\n\n", "two\nlines", "   \t"}
		std, e3 := zap.NewStdLogAt(lg, lvl)
		if e3 != nil {
			bad("redirect-spurious-error", "NewStdLogAt rejected a valid level: %v", e3)
			continue
		}
		sent := 0
		for k := 0; k < 6; k++ {
			m := rng.Pick(g, msgs)
			via := g.Intn(4)
			func() {
				defer func() { _ = recover() }()
				switch via {
				case 0:
					log.Print(m)
				case 1:
					log.Println(m)
				case 2:
					std.Print(m)
				default:
					_ = std.Output(1, m)
				}
			}()
			sent++
			r.Count("bridge_writes", 1)
			es = logs.All()
			if len(es) != 1+sent {
				bad("redirect-destination", "write %d through the std-log bridge (message %q, route %d) was acknowledged but %d of %d entries arrived at the logger", sent, m, via, len(es)-1, sent)
				break
			}
			if got, want := es[len(es)-1].Message, strings.TrimSpace(m); got != want || es[len(es)-1].Level != lvl {
				bad("redirect-destination", "message %q through the std-log bridge arrived as %q at level %v (want %q at %v)", m, got, es[len(es)-1].Level, want, lvl)
				break
			}
		}
		undo()
		if log.Flags() != flags || log.Prefix() != prefix {
			bad("redirect-restore", "the restore function left flags=%d prefix=%q", log.Flags(), log.Prefix())
		}
	}
}

type hook struct{}

func (hook) OnWrite(*zapcore.CheckedEntry, []zapcore.Field) {}

// urlCase assembles a file URL from components, so its classification does not need net/url.
func urlCases(r *ev.Run, e *env) {
	n := r.N(2500, 80000)
	for i := 0; i < n; i++ {
		urlCase(r, e, i)
	}
}

func urlCase(r *ev.Run, e *env, i int) {
	defer gcOff()()
	defer cleanup(e)
	for once := true; once; once = false {
		id := fmt.Sprintf("c19/url/%d", i)
		if !r.Want(id) {
			continue
		}
		g := rng.For(r.Seed, "c19/url", i)
		scheme := rng.Pick(g, []string{"file", "FILE", "File", "fIlE"})
		host := rng.Pick(g, []string{"", "", "localhost", "localhost", "LOCALHOST", "example.com", "localhost.", "127.0.0.1", "local", "localhostx"})
		// user info: none; a name; a name and a password; a password without a name; the bare marker
		user := rng.Pick(g, []string{"", "", "", "u@", "u:p@", "@", ":secret@", ":p%40ss@"})
		port := rng.Pick(g, []string{"", "", "", ":80", ":0", ":"})
		query := rng.Pick(g, []string{"", "", "", "?a=1", "?x", "?"})
		frag := rng.Pick(g, []string{"", "", "", "#f", "#"})
		name := fmt.Sprintf("u%d%s.log", i, rng.Pick(g, []string{"", " sp", "%", "+p", "é", "q?m", "h#f"}))
		wantFile := filepath.Join(e.dir, name)
		esc := strings.NewReplacer("%", "%25", " ", "%20", "?", "%3F", "#", "%23", "é", "%C3%A9").Replace(wantFile)
		raw := scheme + "://" + user + host + port + esc + query + frag
		if g.P(1, 5) {
			// no scheme at all: a relative path (the working directory is the sandbox) is a file URL too,
			// so a query or fragment must still be refused
			scheme, host, user, port = "", "", "", ""
			raw = strings.NewReplacer("%", "%25", " ", "%20", "?", "%3F", "#", "%23", "é", "%C3%A9").Replace(name) + query + frag
		}
		dontCare := query == "?" || frag == "#" || port == ":" || host == "LOCALHOST" || user == "@"
		allowed := user == "" && port == "" && query == "" && frag == "" && (host == "" || host == "localhost")
		before := listFiles(e.dir)
		fdsBefore := fdsInto(e.dir)
		ws, closeAll, err := zap.Open(raw)
		r.Eval(1)
		r.SetAdd("url_component_classes", fmt.Sprintf("host=%q user=%t port=%t query=%t frag=%t", host, user != "", port != "", query != "", frag != ""))
		r.Distinct("url|" + scheme + "|" + host + "|" + user + "|" + port + "|" + query + "|" + frag + "|" + rng.Pick(g, []string{""}))
		if i < 2 {
			r.Sample(map[string]any{"url": raw, "must_open": allowed, "path": wantFile})
		}
		bad := func(class, f string, a ...any) {
			r.Violate(ev.Violation{Case: id, Class: class, Msg: fmt.Sprintf("Open(%q): ", raw) + fmt.Sprintf(f, a...), Witness: map[string]any{"url": raw}})
		}
		created := diff(listFiles(e.dir), before)
		if err != nil {
			if allowed && !dontCare {
				bad("url-rejected", "a plain file URL was rejected: %v", err)
			}
			if len(created) > 0 {
				bad("url-file-created-on-error", "Open failed but created %v", created)
			}
			if leaked := diff(fdsInto(e.dir), fdsBefore); len(leaked) > 0 {
				bad("url-leak", "Open failed but left descriptors %v", leaked)
			}
			continue
		}
		payload := fmt.Sprintf("url-payload-%d", i)
		_, _ = ws.Write([]byte(payload))
		closeAll()
		if !allowed && !dontCare {
			bad("url-accepted", "a file URL with user info, port, query, fragment or a foreign host was opened (created %v)", created)
			continue
		}
		if len(created) != 1 || created[0] != wantFile {
			bad("url-wrong-path", "opened %v, the URL's path is %q", created, wantFile)
			continue
		}
		if b, _ := os.ReadFile(wantFile); !strings.Contains(string(b), payload) {
			bad("url-wrong-path", "the bytes did not land in %q", wantFile)
		}
	}
}

func diff(after, before []string) []string {
	m := map[string]bool{}
	for _, b := range before {
		m[b] = true
	}
	var out []string
	for _, a := range after {
		if !m[a] {
			out = append(out, a)
		}
	}
	return out
}

func registryCases(r *ev.Run, e *env) {
	called := 0
	badFactory := func(*url.URL) (zap.Sink, error) { called++; return nil, errors.New("must never be called") }
	badCtor := func(zapcore.EncoderConfig) (zapcore.Encoder, error) {
		called++
		return nil, errors.New("must never be called")
	}
	names := []struct {
		name     string
		mustFail bool
		probe    string // URL to open afterwards
	}{
		{"", true, ""}, {"1abc", true, "1abc://x"}, {"-x", true, "-x://x"}, {"a b", true, "a b://x"}, {"a_b", true, "a_b://x"}, {"é", true, "é://x"}, {"a/b", true, "a/b://x"}, {"a:b", true, ""},
		{"file", true, "file://" + filepath.Join(e.dir, "reg-file.log")}, {"FILE", true, "FILE://" + filepath.Join(e.dir, "reg-file2.log")}, {"File", true, ""},
		{schemeA, true, schemeA + "://ok/reg"}, {strings.ToUpper(schemeA), true, strings.ToUpper(schemeB) + "://ok/reg2"},
		{"a.b+c-d1", false, ""},
	}
	for i, nc := range names {
		id := fmt.Sprintf("c19/regsink/%d", i)
		if !r.Want(id) {
			continue
		}
		var err error
		pn := ev.Guard(func() { err = zap.RegisterSink(nc.name, badFactory) })
		r.Eval(1)
		r.Distinct("regsink|" + nc.name)
		r.SetAdd("registry_names", "sink:"+nc.name)
		bad := func(class, f string, a ...any) {
			r.Violate(ev.Violation{Case: id, Class: class, Msg: fmt.Sprintf("RegisterSink(%q): ", nc.name) + fmt.Sprintf(f, a...)})
		}
		if pn != "" {
			bad("register-panic", "panicked: %s", pn)
			continue
		}
		if nc.mustFail && err == nil {
			bad("register-accepted", "an empty, malformed or already registered scheme was accepted")
		}
		if !nc.mustFail && err != nil {
			bad("register-rejected", "a well-formed new scheme was rejected: %v", err)
		}
		if nc.mustFail && nc.probe != "" {
			resetInstances()
			before := called
			ws, closeAll, oerr := zap.Open(nc.probe)
			if called != before {
				bad("registry-changed", "after the rejected registration the rejected factory is used for %q", nc.probe)
			}
			wantOpen := strings.HasPrefix(strings.ToLower(nc.probe), "file://") || strings.HasPrefix(strings.ToLower(nc.probe), schemeA) || strings.HasPrefix(strings.ToLower(nc.probe), schemeB)
			if wantOpen && oerr != nil {
				bad("registry-changed", "after the rejected registration %q no longer opens: %v", nc.probe, oerr)
			}
			if !wantOpen && oerr == nil {
				bad("registry-changed", "after the rejected registration %q opens", nc.probe)
			}
			if oerr == nil {
				_, _ = ws.Write([]byte("x"))
				closeAll()
			}
		}
	}
	// every byte value in first and in inner position of a scheme name, classified by RFC 3986
	// section 3.1 (ALPHA *( ALPHA / DIGIT / "+" / "-" / "." )), which zap's documentation cites
	alpha := func(c int) bool { return (c >= 'a' && c <= 'z') || (c >= 'A' && c <= 'Z') }
	for c := 0; c < 256; c++ {
		for pos := 0; pos < 2; pos++ {
			id := fmt.Sprintf("c19/regsink-byte/%d/%d", c, pos)
			if !r.Want(id) {
				continue
			}
			var name string
			wellFormed := false
			if pos == 0 {
				name = string([]byte{byte(c)}) + fmt.Sprintf("vq%dx%d", c, os.Getpid())
				wellFormed = alpha(c)
			} else {
				name = fmt.Sprintf("vr%d", c) + string([]byte{byte(c)}) + fmt.Sprintf("x%d", os.Getpid())
				wellFormed = alpha(c) || (c >= '0' && c <= '9') || c == '+' || c == '-' || c == '.'
			}
			var err error
			pn := ev.Guard(func() { err = zap.RegisterSink(name, badFactory) })
			r.Eval(1)
			r.Distinct("regsink-byte|" + id)
			r.Count("scheme_name_bytes_classified", 1)
			switch {
			case pn != "":
				r.Violate(ev.Violation{Case: id, Class: "register-panic", Msg: fmt.Sprintf("RegisterSink(%q) panicked: %s", name, pn)})
			case !wellFormed && err == nil:
				r.Violate(ev.Violation{Case: id, Class: "register-accepted", Msg: fmt.Sprintf("RegisterSink(%q): a malformed scheme (byte 0x%02x in position %d is not allowed by RFC 3986 section 3.1) was accepted and the registry changed", name, c, pos)})
			case wellFormed && err != nil:
				r.Violate(ev.Violation{Case: id, Class: "register-rejected", Msg: fmt.Sprintf("RegisterSink(%q): a well-formed new scheme was rejected: %v", name, err)})
			}
		}
	}
	// the same fresh scheme registered by several goroutines at once: the registry is guarded by a
	// lock, so exactly one registration wins and the others find the scheme already registered
	rounds := r.N(8000, 60000)
	for k := 0; k < rounds; k++ {
		id := fmt.Sprintf("c19/regsink-concurrent/%d", k)
		if !r.Want(id) {
			continue
		}
		name := fmt.Sprintf("vc%dx%d", k, os.Getpid())
		const ng = 8
		var ok, arrived atomic.Int32
		var wg sync.WaitGroup
		for gi := 0; gi < ng; gi++ {
			wg.Add(1)
			go func() {
				defer wg.Done()
				// spin barrier: all goroutines enter RegisterSink within a few instructions of each other
				arrived.Add(1)
				for spins := 0; arrived.Load() < ng && spins < 1<<22; spins++ {
				}
				if zap.RegisterSink(name, badFactory) == nil {
					ok.Add(1)
				}
			}()
		}
		wg.Wait()
		r.Eval(1)
		r.Distinct("regsink-conc|" + id)
		r.Count("concurrent_registration_rounds", 1)
		if n := ok.Load(); n != 1 {
			r.Violate(ev.Violation{Case: id, Class: "register-accepted", Msg: fmt.Sprintf("%d goroutines registered the new scheme %q at the same time and %d registrations succeeded (want exactly 1: the later ones find it already registered)", ng, name, n)})
			break
		}
	}
	for i, nc := range []struct {
		name     string
		mustFail bool
	}{{"", true}, {"json", true}, {"console", true}, {"verif-enc", false}, {"verif-enc", true}} {
		id := fmt.Sprintf("c19/regenc/%d", i)
		if !r.Want(id) {
			continue
		}
		ctor := badCtor
		if !nc.mustFail {
			ctor = func(c zapcore.EncoderConfig) (zapcore.Encoder, error) { return zapcore.NewJSONEncoder(c), nil }
		}
		err := zap.RegisterEncoder(nc.name, ctor)
		r.Eval(1)
		r.Distinct(fmt.Sprintf("regenc|%s|%d", nc.name, i))
		r.SetAdd("registry_names", "encoder:"+nc.name)
		if nc.mustFail != (err != nil) {
			r.Violate(ev.Violation{Case: id, Class: "register-encoder", Msg: fmt.Sprintf("RegisterEncoder(%q) returned %v, mustFail=%v", nc.name, err, nc.mustFail)})
		}
		if nc.mustFail && nc.name != "" {
			cfg := zap.NewProductionConfig()
			cfg.Encoding = nc.name
			cfg.OutputPaths = []string{schemeA + "://ok/enc"}
			cfg.ErrorOutputPaths = nil
			before := called
			_, berr := cfg.Build()
			if called != before || berr != nil {
				r.Violate(ev.Violation{Case: id, Class: "registry-changed", Msg: fmt.Sprintf("after the rejected RegisterEncoder(%q) building with that encoding uses the rejected constructor or fails: %v", nc.name, berr)})
			}
		}
	}
}

// Run is the C19 monitor.
func Run(r *ev.Run) {
	r.Rule = "Open: path lists of 0-5 entries over {custom sink ok/failing, absolute/relative file, file URL, unopenable file, directory, unknown scheme, unparsable URL} with every failing subset drawn by mask; Config.Build: every error path (bad output/error-output path, unknown/empty encoding, missing time encoder, missing level) over otherwise valid sink lists; RedirectStdLogAt at all 256 levels under random prior flags/prefix/writer; file URLs assembled from components (scheme case, host, user info, port, query, fragment, escapes); registry names; observed through counting custom sinks, the /proc/self/fd table, the sandbox directory and the std logger's settings; distinct = distinct kind lists / component tuples; after each successful redirection six blank/padded/multi-line messages through log.Print/Println/NewStdLogAt, one entry per acknowledged write"
	dir := filepath.Join(ev.WorkDir(), "c19")
	_ = os.MkdirAll(dir, 0o755)
	old, _ := os.Getwd()
	_ = os.Chdir(dir)
	defer os.Chdir(old)
	defer os.RemoveAll(dir)
	schemeA = fmt.Sprintf("vsa%d", os.Getpid())
	schemeB = fmt.Sprintf("vsb%d", os.Getpid())
	if err := zap.RegisterSink(schemeA, factory); err != nil {
		r.Inconclusive("cannot register the observation sink: " + err.Error())
		return
	}
	_ = zap.RegisterSink(schemeB, factory)
	e := &env{dir: dir}
	openCases(r, e)
	buildCases(r, e)
	redirectCases(r)
	urlCases(r, e)
	registryCases(r, e)
	reentrantFactories(r, e)
	if f := os.Getenv("VERIF_HEAPPROF"); f != "" {
		runtime.GC()
		if fh, err := os.Create(f); err == nil {
			_ = pprof.WriteHeapProfile(fh)
			fh.Close()
		}
	}
}

// ---- sink factories that use zap themselves ---------------------------------------------------------

type valueSink struct {
	tags []string
	i    *inst
}

func (v valueSink) Write(p []byte) (int, error) { return v.i.Write(p) }
func (v valueSink) Sync() error                 { return v.i.Sync() }
func (v valueSink) Close() error                { return v.i.Close() }

type composite struct {
	zapcore.WriteSyncer
	closeFn func()
}

func (c composite) Close() error { c.closeFn(); return nil }

// reentrantFactories: a registered factory is user code and may use zap's own entry points - a
// fan-out sink that opens its parts with zap.Open, a factory that registers a helper scheme the first
// time it runs. Open either succeeds (and the write arrives) or returns an error; it does not hang.
func reentrantFactories(r *ev.Run, e *env) {
	fan := fmt.Sprintf("vsfan%d", os.Getpid())
	lazy := fmt.Sprintf("vslazy%d", os.Getpid())
	_ = zap.RegisterSink(fan, func(u *url.URL) (zap.Sink, error) {
		w, closeFn, err := zap.Open(filepath.Join(e.dir, "fan-"+u.Host+"-a.log"), "file://"+filepath.Join(e.dir, "fan-"+u.Host+"-b.log"))
		if err != nil {
			return nil, err
		}
		return composite{w, closeFn}, nil
	})
	helperN := 0
	_ = zap.RegisterSink(lazy, func(u *url.URL) (zap.Sink, error) {
		helperN++
		helper := fmt.Sprintf("vshelper%d-%d", os.Getpid(), helperN)
		if err := zap.RegisterSink(helper, factory); err != nil {
			return nil, err
		}
		w, closeFn, err := zap.Open(filepath.Join(e.dir, "lazy-"+u.Host+".log"))
		if err != nil {
			return nil, err
		}
		return composite{w, closeFn}, nil
	})
	// sinks handed out by value: a struct with a slice field is a perfectly good Sink
	val := fmt.Sprintf("vsval%d", os.Getpid())
	_ = zap.RegisterSink(val, func(u *url.URL) (zap.Sink, error) {
		s, err := factory(u)
		if err != nil {
			return nil, err
		}
		return valueSink{tags: []string{u.Host}, i: s.(*inst)}, nil
	})
	for i, nv := 0, r.N(20, 300); i < nv; i++ {
		id := fmt.Sprintf("c19/value-sinks/%d", i)
		if !r.Want(id) {
			continue
		}
		k := 1 + i%4
		var paths []string
		for j := 0; j < k; j++ {
			paths = append(paths, fmt.Sprintf("%s://ok/value-%d-%d", val, i, j))
		}
		if i%5 == 4 {
			paths = append(paths, paths[0]) // the same destination listed twice: it is opened, and written, twice
		}
		resetInstances()
		var w zapcore.WriteSyncer
		var closeFn func()
		var err error
		pn := ev.Guard(func() { w, closeFn, err = zap.Open(paths...) })
		r.Eval(1)
		r.Count("opens_of_sinks_returned_by_value", 1)
		r.Distinct(fmt.Sprintf("valuesinks|%d|%d", k, len(paths)))
		bad := func(class, f string, a ...any) {
			r.Violate(ev.Violation{Case: id, Class: class, Msg: fmt.Sprintf("Open(%d custom sinks returned by value as a struct with a slice field): ", len(paths)) + fmt.Sprintf(f, a...), Witness: paths})
		}
		if pn != "" {
			bad("open-panic", "panicked: %s", pn)
			continue
		}
		if err != nil {
			bad("open-spurious-error", "Open returned %v", err)
			continue
		}
		msg := fmt.Sprintf("to-value-sinks-%d\n", i)
		if p2 := ev.Guard(func() { _, _ = w.Write([]byte(msg)); _ = w.Sync() }); p2 != "" {
			bad("open-panic", "writing to the opened sinks panicked: %s", p2)
			continue
		}
		ins := openInstances()
		if len(ins) != len(paths) {
			bad("destination-missed", "%d sinks were opened for %d paths", len(ins), len(paths))
		}
		for _, in := range ins {
			got := 0
			for _, wr := range in.writes {
				if string(wr) == msg {
					got++
				}
			}
			if got != 1 {
				bad("destination-missed", "sink %s received the write %d times, want 1", in.url, got)
			}
		}
		closeFn()
	}
	n := r.N(12, 200)
	for i := 0; i < n; i++ {
		id := fmt.Sprintf("c19/reentrant/%d", i)
		if !r.Want(id) {
			continue
		}
		name := fmt.Sprintf("n%d", i)
		scheme, files := fan, []string{"fan-" + name + "-a.log", "fan-" + name + "-b.log"}
		if i%2 == 1 {
			scheme, files = lazy, []string{"lazy-" + name + ".log"}
		}
		var w zapcore.WriteSyncer
		var closeFn func()
		var err error
		h := mon.Watch(20*time.Second, func() { w, closeFn, err = zap.Open(scheme + "://" + name) }, "go.uber.org/zap.")
		r.Eval(1)
		r.Count("reentrant_factory_opens", 1)
		r.Distinct(fmt.Sprintf("reentrant|%s|%d", scheme[:5], i))
		bad := func(class, f string, a ...any) {
			r.Violate(ev.Violation{Case: id, Class: class, Msg: fmt.Sprintf("Open(%s://%s), a sink whose factory itself calls zap.Open/RegisterSink: ", scheme, name) + fmt.Sprintf(f, a...)})
		}
		switch {
		case h.Panicked != "":
			bad("open-panic", "panicked: %s", h.Panicked)
			continue
		case h.Dead:
			bad("open-deadlock", "Open neither succeeds nor returns an error: it is blocked for good (goroutines: %s)", h.Dump)
			return // the registry is unusable from here on
		case h.Hung:
			r.Inconclusive(id + ": Open did not return within the guard time but goroutines still move")
			return
		}
		if err != nil {
			bad("open-spurious-error", "valid sink but Open returned %v", err)
			continue
		}
		msg := fmt.Sprintf("through-a-composite-sink-%d\n", i)
		_, _ = w.Write([]byte(msg))
		_ = w.Sync()
		for _, f := range files {
			if b, _ := os.ReadFile(filepath.Join(e.dir, f)); !strings.Contains(string(b), msg) {
				bad("destination-missed", "file %s did not receive the write", f)
			}
		}
		closeFn()
	}
}
