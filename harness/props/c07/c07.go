// Package c07 monitors C07: logger context is exact and isolated across
// derived loggers.
package c07

import (
	"encoding/json"
	"fmt"
	"runtime"
	"strings"
	"sync"
	"sync/atomic"
	"time"

	"go.uber.org/zap"
	"go.uber.org/zap/internal/verifhook"
	"go.uber.org/zap/verif/internal/ev"
	"go.uber.org/zap/verif/internal/gen"
	"go.uber.org/zap/verif/internal/jsonv"
	"go.uber.org/zap/verif/internal/rec"
	"go.uber.org/zap/verif/internal/ref"
	"go.uber.org/zap/verif/internal/rng"
	"go.uber.org/zap/zapcore"
	"go.uber.org/zap/zaptest/observer"
)

// cell is the evaluation moment of one With/WithLazy segment.
type cell struct {
	done    bool
	version int
}

type segment struct {
	fields []gen.FieldCase
	cell   *cell
	probe  string // key of the version probe object in this segment ("" = none)
}

type node struct {
	id     int
	name   string
	segs   []segment
	log    *zap.Logger
	sug    *zap.SugaredLogger
	how    string
	parent int
	uses   int
}

type prog struct {
	version int
	nodes   []*node
	trace   []string
}

// force evaluates every pending segment of n at the current version.
func (p *prog) force(n *node) {
	for _, s := range n.segs {
		if !s.cell.done {
			s.cell.done = true
			s.cell.version = p.version
		}
	}
}

func (n *node) expected(callSite []gen.FieldCase) *ref.Node {
	b := ref.NewBuilder()
	for _, s := range n.segs {
		if s.probe != "" {
			sub := ref.NewBuilder()
			sub.Add("v", ref.Int(int64(s.cell.version)))
			b.Add(s.probe, sub.Root())
		}
		for _, f := range s.fields {
			f.Apply(b)
		}
	}
	for _, f := range callSite {
		f.Apply(b)
	}
	return b.Root()
}

func (n *node) zapFieldsExpected(callSite []gen.FieldCase, probes map[string]zapcore.Field) []zapcore.Field {
	var out []zapcore.Field
	for _, s := range n.segs {
		if s.probe != "" {
			out = append(out, probes[s.probe])
		}
		out = append(out, gen.ZapFields(s.fields)...)
	}
	return append(out, gen.ZapFields(callSite)...)
}

func joinName(a, b string) string {
	if b == "" {
		return a
	}
	if a == "" {
		return b
	}
	return a + "." + b
}

var encCfg = zapcore.EncoderConfig{MessageKey: "msg", LevelKey: "level", NameKey: "logger", EncodeLevel: zapcore.CapitalLevelEncoder,
	EncodeTime: zapcore.EpochNanosTimeEncoder, EncodeDuration: zapcore.NanosDurationEncoder}

var bareCfg = zapcore.EncoderConfig{EncodeTime: zapcore.EpochNanosTimeEncoder, EncodeDuration: zapcore.NanosDurationEncoder}

var cfgRepr = ref.Repr{Time: ref.TEpochNanos, Dur: ref.DNanos, Ordered: true}

// scribble overwrites a field slice after it was handed to With / Fields: the logger derived from it
// keeps the fields it was given.
func scribble(fs []zapcore.Field) {
	for i := range fs {
		fs[i] = zap.String("scribbled-over-after-the-call", "x")
	}
}

// userWrap is the kind of decorator users write: it registers itself for enabled entries and forwards
// Write and With to the core it wraps.
type userWrap struct{ zapcore.Core }

func (w userWrap) With(fs []zapcore.Field) zapcore.Core { return userWrap{w.Core.With(fs)} }
func (w userWrap) Check(e zapcore.Entry, ce *zapcore.CheckedEntry) *zapcore.CheckedEntry {
	if w.Enabled(e.Level) {
		return ce.AddCore(e, w)
	}
	return ce
}
func (w userWrap) Write(e zapcore.Entry, fs []zapcore.Field) error { return w.Core.Write(e, fs) }

func runProgram(r *ev.Run, id string, i int) {
	g := gen.New(rng.For(r.Seed, "c07", i), gen.Opts{Hostile: i%4 == 0, UniqueKeys: i%2 == 0, MaxDepth: 2, MaxFields: 4, NoFaults: true, NoReflect: false})
	rr := g.R
	sinkJ, sinkC, sinkB := &rec.Sink{}, &rec.Sink{}, &rec.Sink{}
	// every destination sits behind one switch: some derivations happen while everything is switched
	// off (what a logger is derived with does not depend on what is enabled at that moment)
	gate := zap.NewAtomicLevelAt(zapcore.DebugLevel)
	obsCore, logs := observer.New(gate)
	var core zapcore.Core = zapcore.NewTee(
		zapcore.NewCore(zapcore.NewJSONEncoder(encCfg), sinkJ, gate),
		// an encoder without any entry key: its line is the node's context and call-site fields alone
		zapcore.NewCore(zapcore.NewJSONEncoder(bareCfg), sinkB, gate),
		zapcore.NewCore(zapcore.NewConsoleEncoder(encCfg), sinkC, gate),
		obsCore,
	)
	comp := "tee(json,console,observer)"
	hookCalls := 0
	for k := rr.Intn(3); k > 0; k-- {
		switch rr.Intn(4) {
		case 0:
			core = zapcore.NewSamplerWithOptions(core, time.Second, 1<<30, 0)
			comp = "sampler(" + comp + ")"
		case 1:
			core = zapcore.RegisterHooks(core, func(zapcore.Entry) error { hookCalls++; return nil })
			comp = "hooks(" + comp + ")"
		case 2:
			if c2, err := zapcore.NewIncreaseLevelCore(core, zapcore.DebugLevel); err == nil {
				core = c2
				comp = "increase(" + comp + ")"
			}
		default:
			core = zapcore.NewTee(core, zapcore.NewNopCore())
			comp = "tee(" + comp + ",nop)"
		}
	}
	r.SetAdd("core_compositions", comp)
	p := &prog{}
	counter := 0 // the live value the version probes read
	probes := map[string]zapcore.Field{}
	root := &node{id: 0, log: zap.New(core), how: "root", parent: -1}
	p.nodes = append(p.nodes, root)

	newSeg := func(lazy bool) segment {
		n := rng.Pick(rr, []int{1, 1, 2, 3, 4, 5, 8, 9, 16, 20})
		s := segment{cell: &cell{}}
		if rr.P(1, 2) {
			s.probe = fmt.Sprintf("probe%d", len(probes))
			probes[s.probe] = zap.Object(s.probe, &gen.ObjM{FailAfter: -1, Version: &counter})
			n--
		}
		s.fields = g.Fields(n, 1)
		if !lazy {
			s.cell.done, s.cell.version = true, p.version
		}
		return s
	}
	segZap := func(s segment) []zapcore.Field {
		var fs []zapcore.Field
		if s.probe != "" {
			fs = append(fs, probes[s.probe])
		}
		return append(fs, gen.ZapFields(s.fields)...)
	}
	bump := func() { p.version++; counter = p.version }

	violated := false
	fail := func(class, f string, a ...any) {
		if violated {
			return
		}
		violated = true
		tr := p.trace
		if len(tr) > 40 {
			tr = tr[len(tr)-40:]
		}
		r.Violate(ev.Violation{Case: id, Class: class, Msg: fmt.Sprintf(f, a...), Witness: map[string]any{"core": comp, "steps": tr}})
	}

	derive := func() {
		par := p.nodes[rr.Intn(len(p.nodes))]
		n := &node{id: len(p.nodes), name: par.name, segs: append([]segment(nil), par.segs...), parent: par.id}
		base := par.log
		fromSugar := par.sug != nil
		muted := rr.P(1, 5)
		if muted {
			gate.SetLevel(zapcore.FatalLevel + 1)
			defer gate.SetLevel(zapcore.DebugLevel)
			r.Count("derivations_while_everything_is_switched_off", 1)
		}
		kinds := 8
		if !strings.Contains(comp, "hooks(") {
			kinds = 9 // a forwarding decorator needs cores whose Write does all the work
		}
		switch k := rr.Intn(kinds); {
		case k == 8:
			// an ordinary user-defined core decorator (registers itself, forwards Write) put on afterwards
			n.how = "WithOptions(WrapCore(user decorator))"
			wrap := zap.WrapCore(func(c zapcore.Core) zapcore.Core { return userWrap{c} })
			if fromSugar {
				n.sug = par.sug.WithOptions(wrap)
			} else {
				n.log = base.WithOptions(wrap)
			}
			r.Count("derivations_adding_a_user_decorator", 1)
		case k == 0 && fromSugar: // Desugar
			n.log, n.how = par.sug.Desugar(), "Desugar"
		case k == 0:
			n.sug, n.how = base.Sugar(), "Sugar"
		case k == 1: // Named
			nm := rng.Pick(rr, []string{"a", "b", "svc", "", "x.y", "n" + fmt.Sprint(n.id)})
			n.name = joinName(par.name, nm)
			n.how = fmt.Sprintf("Named(%q)", nm)
			if fromSugar {
				n.sug = par.sug.Named(nm)
			} else {
				n.log = base.Named(nm)
			}
		case k == 2: // WithOptions(Fields)
			p.force(par) // core.With on a lazy core initialises it
			s := newSeg(false)
			n.segs = append(n.segs, s)
			n.how = fmt.Sprintf("WithOptions(Fields(%d))", len(segZap(s)))
			if fromSugar {
				n.sug = par.sug.WithOptions(zap.Fields(segZap(s)...))
			} else {
				fs := segZap(s)
				n.log = base.WithOptions(zap.Fields(fs...))
				scribble(fs) // the slice was the caller's and is reused for something else
			}
		case k == 3 || k == 4: // WithLazy
			s := newSeg(true)
			n.segs = append(n.segs, s)
			n.how = fmt.Sprintf("WithLazy(%d)", len(segZap(s)))
			if fromSugar {
				args := make([]interface{}, 0)
				for _, f := range segZap(s) {
					args = append(args, f)
				}
				n.sug = par.sug.WithLazy(args...)
			} else {
				n.log = base.WithLazy(segZap(s)...)
			}
		default: // With
			p.force(par)
			s := newSeg(false)
			n.segs = append(n.segs, s)
			n.how = fmt.Sprintf("With(%d)", len(segZap(s)))
			if fromSugar {
				args := make([]interface{}, 0)
				for _, f := range segZap(s) {
					args = append(args, f)
				}
				n.sug = par.sug.With(args...)
			} else {
				fs := segZap(s)
				n.log = base.With(fs...)
				scribble(fs)
			}
		}
		if muted {
			n.how += " [derived while every destination was switched off]"
		}
		p.trace = append(p.trace, fmt.Sprintf("v%d: n%d = n%d.%s", p.version, n.id, par.id, n.how))
		p.nodes = append(p.nodes, n)
		bump()
	}

	use := func() {
		n := p.nodes[rr.Intn(len(p.nodes))]
		callSite := g.Fields(rr.Intn(3), 1)
		msg := fmt.Sprintf("m%d-%d", i, len(p.trace))
		lvl := rng.Pick(rr, []zapcore.Level{zapcore.DebugLevel, zapcore.InfoLevel, zapcore.WarnLevel, zapcore.ErrorLevel})
		p.force(n)
		sinkJ.Reset()
		sinkC.Reset()
		sinkB.Reset()
		logs.TakeAll()
		p.trace = append(p.trace, fmt.Sprintf("v%d: n%d.log(%q, %v)", p.version, n.id, msg, gen.Descs(callSite)))
		pn := ev.Guard(func() {
			if n.sug != nil {
				args := make([]interface{}, 0)
				for _, f := range callSite {
					args = append(args, f.F)
				}
				n.sug.Logw(lvl, msg, args...)
			} else {
				n.log.Log(lvl, msg, gen.ZapFields(callSite)...)
			}
		})
		n.uses++
		bump()
		if pn != "" {
			fail("panic", "logging through n%d panicked: %s", n.id, pn)
			return
		}
		r.Count("entries_compared", 1)
		// JSON
		js := sinkJ.Writes()
		if len(js) != 1 {
			fail("json-lines", "n%d: JSON sink got %d writes for one entry", n.id, len(js))
			return
		}
		v, err, inc := jsonv.CheckLine(js[0], "\n")
		if inc {
			r.Inconclusive(id + ": " + err.Error())
			return
		}
		if err != nil {
			fail("json-invalid", "n%d: invalid JSON line: %v", n.id, err)
			return
		}
		exp := ref.Obj()
		exp.Members = append(exp.Members, ref.Member{Key: "level", Val: ref.Str(gen.LevelCapital(lvl))})
		if n.name != "" {
			exp.Members = append(exp.Members, ref.Member{Key: "logger", Val: ref.Str(n.name)})
		}
		exp.Members = append(exp.Members, ref.Member{Key: "msg", Val: ref.Str(msg)})
		body := n.expected(callSite)
		exp.Members = append(exp.Members, body.Members...)
		if err := ref.Compare(exp, v, cfgRepr, "$"); err != nil {
			fail("json-context", "n%d (%s): JSON entry differs from the node's own derivation path: %v; line=%s", n.id, n.how, err, clip(js[0]))
			return
		}
		// fields-only JSON
		bs := sinkB.Writes()
		if len(bs) != 1 {
			fail("json-lines", "n%d: the key-less JSON sink got %d writes for one entry", n.id, len(bs))
			return
		}
		bv, berr, _ := jsonv.CheckLine(bs[0], "\n")
		if berr != nil {
			fail("json-invalid", "n%d (%s): invalid JSON line from the encoder without entry keys: %v; line=%s", n.id, n.how, berr, clip(bs[0]))
			return
		}
		if err := ref.Compare(body, bv, cfgRepr, "$bare"); err != nil {
			fail("json-context", "n%d (%s): key-less JSON entry differs from the node's own derivation path: %v; line=%s", n.id, n.how, err, clip(bs[0]))
			return
		}
		// console: known prefix, then the context object
		cs := sinkC.Writes()
		if len(cs) != 1 {
			fail("console-lines", "n%d: console sink got %d writes", n.id, len(cs))
			return
		}
		prefix := gen.LevelCapital(lvl) + "\t"
		if n.name != "" {
			prefix += n.name + "\t"
		}
		prefix += msg
		line := string(cs[0])
		if !strings.HasPrefix(line, prefix) || !strings.HasSuffix(line, "\n") {
			fail("console-prefix", "n%d: console line %q does not start with %q", n.id, clip(cs[0]), prefix)
			return
		}
		rest := strings.TrimSuffix(line[len(prefix):], "\n")
		if len(body.Members) == 0 {
			if rest != "" {
				fail("console-context", "n%d: console line has context %q but the node has no fields", n.id, rest)
				return
			}
		} else {
			if !strings.HasPrefix(rest, "\t{") {
				fail("console-context", "n%d: console line lacks its context object: %q", n.id, clip(cs[0]))
				return
			}
			cv, err := jsonv.Parse([]byte(rest[1:]))
			if err != nil {
				fail("console-context", "n%d: console context is not valid JSON: %v: %q", n.id, err, clip(cs[0]))
				return
			}
			if err := ref.Compare(body, cv, cfgRepr, "$console"); err != nil {
				fail("console-context", "n%d (%s): console context differs from the node's own derivation path: %v; line=%s", n.id, n.how, err, clip(cs[0]))
				return
			}
		}
		// observer: order and identity
		es := logs.All()
		if len(es) != 1 || es[0].Message != msg || es[0].LoggerName != n.name {
			fail("observer-entry", "n%d: observer recorded %d entries / wrong name", n.id, len(es))
			return
		}
		want := n.zapFieldsExpected(callSite, probes)
		got := es[0].Context
		if len(got) != len(want) {
			fail("observer-context", "n%d (%s): observer context has %d fields, own path has %d", n.id, n.how, len(got), len(want))
			return
		}
		for k := range want {
			same := false
			if pn := ev.Guard(func() { same = got[k].Equals(want[k]) }); pn != "" {
				fail("panic", "Equals panicked: %s", pn)
				return
			}
			if !same {
				fail("observer-context", "n%d (%s): observer field %d is %q/%v, own path says %q/%v", n.id, n.how, k, got[k].Key, got[k].Type, want[k].Key, want[k].Type)
				return
			}
		}
	}

	steps := rr.Range(10, r.N(60, 140))
	for s := 0; s < steps && !violated; s++ {
		if len(p.nodes) < 3 || rr.P(2, 5) {
			derive()
		} else {
			use()
		}
	}
	// every node is used at least once at the end, in random order: parents after children
	order := rr.Perm(len(p.nodes))
	for _, k := range order {
		if violated {
			break
		}
		n := p.nodes[k]
		_ = n
		// use() picks randomly; force this node by temporarily narrowing the choice
		saved := p.nodes
		p.nodes = []*node{saved[k]}
		use()
		p.nodes = saved
	}
	maxFan, fan := 0, map[int]int{}
	for _, n := range p.nodes {
		if n.parent >= 0 {
			fan[n.parent]++
			if fan[n.parent] > maxFan {
				maxFan = fan[n.parent]
			}
		}
		r.SetAdd("derivation_steps", strings.SplitN(n.how, "(", 2)[0])
	}
	r.Count("nodes", int64(len(p.nodes)))
	r.SetAdd("max_fanout", fmt.Sprint(maxFan))
	r.Distinct(fmt.Sprintf("prog|%d|%d|%d", i, len(p.nodes), maxFan))
	if i < 2 {
		tr := p.trace
		if len(tr) > 25 {
			tr = tr[:25]
		}
		r.Sample(map[string]any{"core": comp, "steps": tr})
	}
}

func clip(b []byte) string {
	if len(b) > 400 {
		return string(b[:400]) + "..."
	}
	return string(b)
}

// ---- concurrent first use of a WithLazy logger ---------------------------------------------------

// evalM emits which evaluation of itself produced the output.
type evalM struct{ evals *atomic.Int32 }

func (m evalM) MarshalLogObject(enc zapcore.ObjectEncoder) error {
	n := m.evals.Add(1)
	runtime.Gosched()
	enc.AddInt("eval", int(n))
	return nil
}

type lockedBuf struct {
	mu  sync.Mutex
	buf []byte
}

func (b *lockedBuf) Write(p []byte) (int, error) {
	b.mu.Lock()
	b.buf = append(b.buf, p...)
	b.mu.Unlock()
	return len(p), nil
}
func (b *lockedBuf) Sync() error { return nil }

// concurrentFirstUse: several goroutines make the first use of one WithLazy logger at the same
// moment. Its lazy fields are evaluated at first use - once - so every entry logged through
// that logger (and through children derived from it) must carry the same snapshot.
func concurrentFirstUse(r *ev.Run) {
	verifhook.Set(func(name string) {
		if name == "lazy.init.inside" {
			time.Sleep(50 * time.Microsecond)
		}
	})
	defer verifhook.Set(nil)
	n := r.N(400, 12000)
	for i := 0; i < n; i++ {
		id := fmt.Sprintf("c07/concurrent-first-use/%d", i)
		if !r.Want(id) {
			continue
		}
		g := rng.For(r.Seed, "c07/cfu", i)
		sink := &lockedBuf{}
		base := zap.New(zapcore.NewCore(zapcore.NewJSONEncoder(zapcore.EncoderConfig{MessageKey: "msg"}), sink, zapcore.DebugLevel))
		var evals atomic.Int32
		var lazy *zap.Logger
		shape := g.Intn(4)
		switch shape {
		case 0:
			lazy = base.WithLazy(zap.Object("lz", evalM{&evals}))
		case 1:
			lazy = base.With(zap.Int("pre", 1)).WithLazy(zap.Object("lz", evalM{&evals})).Named("n")
		case 2:
			lazy = base.WithLazy(zap.Int("outer", 1)).WithLazy(zap.Object("lz", evalM{&evals}))
		default:
			lazy = base.Sugar().WithLazy("lz", evalM{&evals}).Desugar()
		}
		ng := g.Range(2, 8)
		start := make(chan struct{})
		var wg sync.WaitGroup
		for gi := 0; gi < ng; gi++ {
			wg.Add(1)
			mode := g.Intn(3)
			go func(gi, mode int) {
				defer wg.Done()
				<-start
				switch mode {
				case 0:
					lazy.Info("first use", zap.Int("g", gi))
				case 1:
					lazy.With(zap.Int("child", gi)).Info("first use through a child", zap.Int("g", gi))
				default:
					if ce := lazy.Check(zapcore.WarnLevel, "first use through Check"); ce != nil {
						ce.Write(zap.Int("g", gi))
					}
				}
				lazy.Info("second use", zap.Int("g", gi))
			}(gi, mode)
		}
		close(start)
		wg.Wait()
		r.Eval(1)
		r.Count("concurrent_first_use_cases", 1)
		r.Distinct(fmt.Sprintf("cfu|%d|%d|%d", i, shape, ng))
		seen := map[int]int{}
		lines := 0
		for _, ln := range strings.Split(strings.TrimSpace(string(sink.buf)), "\n") {
			var d struct {
				Lz *struct {
					Eval int `json:"eval"`
				} `json:"lz"`
			}
			if err := json.Unmarshal([]byte(ln), &d); err != nil || d.Lz == nil {
				r.Violate(ev.Violation{Case: id, Class: "lazy-concurrent-first-use", Msg: fmt.Sprintf("an entry of the WithLazy logger lacks its lazy context: %q", ln)})
				seen = nil
				break
			}
			seen[d.Lz.Eval]++
			lines++
		}
		if seen != nil && (len(seen) != 1 || seen[1] != lines || lines != 2*ng) {
			r.Violate(ev.Violation{Case: id, Class: "lazy-concurrent-first-use", Msg: fmt.Sprintf("%d goroutines made the first use of one WithLazy logger (shape %d) at the same time: its lazy field was evaluated %d times and the %d entries carry these evaluation numbers: %v (want every entry to carry the single evaluation made at first use)", ng, shape, evals.Load(), lines, seen), Witness: map[string]any{"goroutines": ng, "shape": shape, "evaluations": evals.Load()}})
		}
	}
}

// concurrentSiblings: several goroutines derive children from one parent at the same moment; the
// parent's context holds a reflected value and every child adds a reflected value of its own. Each
// child's entries must carry the parent's value and the child's own, nobody else's.
func concurrentSiblings(r *ev.Run) {
	type settings struct {
		Name string
		Tags []string
	}
	n := r.N(300, 6000)
	for i := 0; i < n; i++ {
		id := fmt.Sprintf("c07/concurrent-siblings/%d", i)
		if !r.Want(id) {
			continue
		}
		g := rng.For(r.Seed, "c07/sib", i)
		sink := &lockedBuf{}
		enc := zapcore.NewJSONEncoder(zapcore.EncoderConfig{MessageKey: "msg"})
		if g.Bool() {
			enc = zapcore.NewConsoleEncoder(zapcore.EncoderConfig{MessageKey: "msg"})
		}
		parent := zap.New(zapcore.NewCore(enc, sink, zapcore.DebugLevel)).With(zap.Reflect("base", settings{"parent", []string{"p", "q"}}))
		if g.Bool() {
			parent.Info("the parent was used before")
		}
		ng := g.Range(2, 8)
		start := make(chan struct{})
		var wg sync.WaitGroup
		for gi := 0; gi < ng; gi++ {
			wg.Add(1)
			go func(gi int) {
				defer wg.Done()
				<-start
				for k := 0; k < 4; k++ {
					child := parent.With(zap.Reflect("mine", settings{fmt.Sprintf("g%d-%d", gi, k), []string{strings.Repeat("x", 10+gi)}}))
					child.Info("sibling", zap.Int("g", gi), zap.Int("k", k), zap.Reflect("site", []int{gi, k}))
				}
			}(gi)
		}
		close(start)
		wg.Wait()
		r.Eval(1)
		r.Count("concurrent_sibling_cases", 1)
		r.Distinct(fmt.Sprintf("sib|%d|%d", i, ng))
		lines := 0
		for _, ln := range strings.Split(strings.TrimSpace(string(sink.buf)), "\n") {
			if strings.Contains(ln, "the parent was used before") {
				continue
			}
			if k := strings.IndexByte(ln, '{'); k >= 0 {
				ln = ln[k:]
			}
			var d struct {
				Base, Mine *settings
				G, K       *int
				Site       []int
			}
			bad := ""
			if err := json.Unmarshal([]byte(ln), &d); err != nil {
				bad = "is not valid JSON: " + err.Error()
			} else if d.G == nil || d.K == nil || d.Base == nil || d.Mine == nil {
				bad = "lacks a member"
			} else if d.Base.Name != "parent" || len(d.Base.Tags) != 2 {
				bad = "carries a changed parent value"
			} else if d.Mine.Name != fmt.Sprintf("g%d-%d", *d.G, *d.K) || len(d.Mine.Tags) != 1 || len(d.Mine.Tags[0]) != 10+*d.G {
				bad = "carries another child's value"
			} else if len(d.Site) != 2 || d.Site[0] != *d.G || d.Site[1] != *d.K {
				bad = "carries another entry's call-site value"
			}
			if bad != "" {
				r.Violate(ev.Violation{Case: id, Class: "sibling-context-mixed", Msg: fmt.Sprintf("%d goroutines derived children (each adding a reflected value) from one parent whose context holds a reflected value: an entry %s: %q", ng, bad, clip([]byte(ln)))})
				break
			}
			lines++
		}
		if lines != 4*ng && r.Violations() == 0 {
			r.Violate(ev.Violation{Case: id, Class: "sibling-context-mixed", Msg: fmt.Sprintf("%d goroutines x 4 entries were logged, %d intact lines arrived", ng, lines)})
		}
	}
}

// Run is the C07 monitor.
func Run(r *ev.Run) {
	r.Rule = "case i = f(seed,i): a derivation program (random tree of With/WithLazy/Named/WithOptions(Fields)/Sugar/Desugar and sugared With/WithLazy with 1-20 generated fields incl. namespaces and version-probe marshalers) over tee(JSON,console,observer) under random transparent wrappers; nodes log in random order interleaved with further derivations and every node logs again at the end; each entry's JSON line, console context and observer context are compared with the model of the node's own path (name, ordered fields, evaluation moment of every With/WithLazy segment); plus concurrent first use: 2-8 goroutines make the first use of one WithLazy logger at the same moment (direct, through a With child, through Check) with an injected delay inside the one-time initialisation, and every entry must carry the single evaluation of the lazy fields; distinct = distinct programs; non-trivial = every program (>= 3 nodes)"
	n := r.N(3000, 40000)
	for i := 0; i < n; i++ {
		id := fmt.Sprintf("c07/%d", i)
		if !r.Want(id) {
			continue
		}
		r.Eval(1)
		runProgram(r, id, i)
	}
	concurrentFirstUse(r)
	concurrentSiblings(r)
	optionOrder(r)
}

// ---- options given in one call are applied in the order given ------------------------------------

// optionOrder: WithOptions(o1, ..., ok) must behave like WithOptions(o1)...WithOptions(ok). The
// options are Fields (context), WrapCore joining a further observer core (which must carry only
// the context added after it joined) and WrapCore replacing the core; both constructions log one
// entry and every observer must hold the same context in both.
func optionOrder(r *ev.Run) {
	n := r.N(1500, 60000)
	for i := 0; i < n; i++ {
		id := fmt.Sprintf("c07/option-order/%d", i)
		if !r.Want(id) {
			continue
		}
		g := rng.For(r.Seed, "c07/optorder", i)
		k := g.Range(2, 5)
		type spec struct {
			kind string
			fs   []zap.Field
		}
		specs := make([]spec, k)
		for j := range specs {
			switch g.Intn(5) {
			case 0:
				specs[j] = spec{kind: "join"}
			case 1:
				specs[j] = spec{kind: "replace"}
			default:
				specs[j] = spec{kind: "fields", fs: []zap.Field{zap.Int(fmt.Sprintf("f%d", j), j), zap.String(fmt.Sprintf("s%d", j), "v")}}
			}
		}
		build := func(oneCall bool) (desc []string, ctxs []string) {
			base, baseLogs := observer.New(zapcore.DebugLevel)
			obs := []*observer.ObservedLogs{baseLogs}
			var opts []zap.Option
			for _, sp := range specs {
				sp := sp
				switch sp.kind {
				case "fields":
					opts = append(opts, zap.Fields(sp.fs...))
					desc = append(desc, fmt.Sprintf("Fields(%s)", sp.fs[0].Key))
				case "join":
					c, l := observer.New(zapcore.DebugLevel)
					obs = append(obs, l)
					opts = append(opts, zap.WrapCore(func(in zapcore.Core) zapcore.Core { return zapcore.NewTee(in, c) }))
					desc = append(desc, "WrapCore(tee with a further core)")
				case "replace":
					c, l := observer.New(zapcore.DebugLevel)
					obs = append(obs, l)
					opts = append(opts, zap.WrapCore(func(zapcore.Core) zapcore.Core { return c }))
					desc = append(desc, "WrapCore(replace the core)")
				}
			}
			l := zap.New(base)
			if oneCall {
				l = l.WithOptions(opts...)
			} else {
				for _, o := range opts {
					l = l.WithOptions(o)
				}
			}
			l.Info("option order", zap.Bool("call_site", true))
			for _, o := range obs {
				es := o.All()
				if len(es) == 0 {
					ctxs = append(ctxs, "(no entry)")
					continue
				}
				var keys []string
				for _, f := range es[0].Context {
					keys = append(keys, f.Key)
				}
				ctxs = append(ctxs, strings.Join(keys, ","))
			}
			return desc, ctxs
		}
		desc, one := build(true)
		_, seq := build(false)
		r.Eval(1)
		r.Distinct("optorder|" + strings.Join(desc, ";"))
		r.Count("option_order_cases", 1)
		if strings.Join(one, " | ") != strings.Join(seq, " | ") {
			r.Violate(ev.Violation{Case: id, Class: "option-order", Msg: fmt.Sprintf("WithOptions(%s) in one call gives the cores these contexts: [%s]; the same options applied one call at a time give [%s] (options must be applied in the order given)", strings.Join(desc, ", "), strings.Join(one, " | "), strings.Join(seq, " | ")), Witness: desc})
		}
	}
}
