// Package c09 monitors C09: any concurrent mix of calls over the documented
// concurrency-safe API executes without data races, deadlocks or panics.
//
// Deciding observations: Go race-detector reports (collected by the parent from
// log_path), recovered panics that no operation is specified to raise, and a
// quiescent-blocked state (every worker and every goroutine inside zap blocked with
// unchanged stacks while no harness event is pending).
package c09

import (
	"context"
	"fmt"
	"io"
	"log"
	"log/slog"
	"net/http"
	"net/http/httptest"
	"runtime"
	"sort"
	"strings"
	"sync"
	"sync/atomic"
	"time"

	"go.uber.org/zap"
	"go.uber.org/zap/exp/zapslog"
	"go.uber.org/zap/internal/verifhook"
	"go.uber.org/zap/verif/internal/ev"
	"go.uber.org/zap/verif/internal/mon"
	"go.uber.org/zap/verif/internal/rng"
	"go.uber.org/zap/zapcore"
	"go.uber.org/zap/zapgrpc"
	"go.uber.org/zap/zapio"
	"go.uber.org/zap/zaptest/observer"
)

// racySink is a deliberately unsynchronised sink: it is only ever used below zap's own
// Lock or BufferedWriteSyncer mutex, so a missing lock in zap is a race report on it.
type racySink struct {
	n         int
	last      []byte
	syncs     int
	writes    int
	failEvery int // > 0: every failEvery-th write reports an error (zap must report it and carry on)
}

var errRacySink = fmt.Errorf("c09 injected sink failure")

func (s *racySink) Write(p []byte) (int, error) {
	s.writes++
	if s.failEvery > 0 && s.writes%s.failEvery == 0 {
		return 0, errRacySink
	}
	s.n += len(p)
	s.last = append(s.last[:0], p...)
	return len(p), nil
}
func (s *racySink) Sync() error { s.syncs++; s.n += 0; return nil }

// hclock: system time, harness-owned tick channels.
type hclock struct {
	mu      sync.Mutex
	tickers []chan time.Time
}

func (c *hclock) Now() time.Time { return time.Now() }
func (c *hclock) NewTicker(time.Duration) *time.Ticker {
	ch := make(chan time.Time)
	c.mu.Lock()
	c.tickers = append(c.tickers, ch)
	c.mu.Unlock()
	return &time.Ticker{C: ch}
}
func (c *hclock) all() []chan time.Time {
	c.mu.Lock()
	defer c.mu.Unlock()
	return append([]chan time.Time(nil), c.tickers...)
}

type objM struct{ a, b int }

func (o objM) MarshalLogObject(enc zapcore.ObjectEncoder) error {
	enc.AddInt("a", o.a)
	enc.OpenNamespace("ns")
	enc.AddInt("b", o.b)
	if o.b%7 == 3 {
		return fmt.Errorf("objM failure %d", o.b)
	}
	return nil
}

type strg struct{ s string }

func (s strg) String() string { return s.s }

type world struct {
	desc     []string
	atom     zap.AtomicLevel
	atom2    zap.AtomicLevel
	obs      []*observer.ObservedLogs
	bws      []*zapcore.BufferedWriteSyncer
	locked   []zapcore.WriteSyncer
	clk      *hclock
	loggers  []*zap.Logger
	sugars   []*zap.SugaredLogger
	handlers []slog.Handler
	cores    []zapcore.Core
	stdlogs  []*log.Logger
	grpcs    []*zapgrpc.Logger
	lazyN    int
	// a field slice the program keeps and passes to many calls, from many goroutines (read-only for zap)
	keptFields []zap.Field
}

func encCfg(g *rng.R) zapcore.EncoderConfig {
	c := zap.NewProductionEncoderConfig()
	if g.Bool() {
		c.EncodeTime = zapcore.ISO8601TimeEncoder
	}
	if g.P(1, 4) {
		c.EncodeCaller = zapcore.FullCallerEncoder
	}
	if g.P(1, 4) {
		c.FunctionKey = "fn"
	}
	// every stock level encoder, the colouring ones included
	c.EncodeLevel = rng.Pick(g, []zapcore.LevelEncoder{zapcore.LowercaseLevelEncoder, zapcore.LowercaseLevelEncoder, zapcore.CapitalLevelEncoder, zapcore.CapitalColorLevelEncoder, zapcore.LowercaseColorLevelEncoder})
	return c
}

func someFields(g *rng.R, n int) []zap.Field {
	var fs []zap.Field
	for i := 0; i < n; i++ {
		k := fmt.Sprintf("k%d", g.Intn(6))
		switch g.Intn(14) {
		case 0:
			fs = append(fs, zap.Int(k, g.Intn(1000)))
		case 1:
			fs = append(fs, zap.String(k, strings.Repeat("s", g.Intn(300))))
		case 2:
			fs = append(fs, zap.Object(k, objM{g.Intn(9), g.Intn(30)}))
		case 3:
			fs = append(fs, zap.Error(fmt.Errorf("wrapped: %w", io.ErrUnexpectedEOF)))
		case 4:
			fs = append(fs, zap.Errors(k, []error{io.EOF, fmt.Errorf("e%d", i)}))
			if g.Bool() { // error groups (one cause, several causes): their elements are pooled
				fs = append(fs, zap.NamedError(k+"g", errGroup{[]error{fmt.Errorf("lone%d", i)}}), zap.NamedError(k+"m", errGroup{[]error{io.EOF, nil, fmt.Errorf("m%d", i)}}))
			}
		case 5:
			fs = append(fs, zap.Any(k, map[string]int{"x": g.Intn(5)}))
		case 6:
			fs = append(fs, zap.Reflect(k, []interface{}{1, "two", 3.0}))
		case 7:
			fs = append(fs, zap.Stringer(k, strg{"str"}))
		case 8:
			fs = append(fs, zap.Namespace(k))
		case 9:
			fs = append(fs, zap.Strings(k, []string{"a", "b"}))
		case 10:
			fs = append(fs, zap.Duration(k, time.Duration(g.Intn(1e9))))
		case 11:
			fs = append(fs, zap.Time(k, time.Unix(int64(g.Intn(1e9)), 0)))
		case 12:
			fs = append(fs, zap.Stack(k))
		default:
			fs = append(fs, zap.Bool(k, g.Bool()), zap.Float64(k+"f", 1.5))
		}
	}
	return fs
}

//go:noinline
func descend(n int, f func()) {
	if n <= 0 {
		f()
		return
	}
	descend(n-1, f)
	runtime.KeepAlive(n)
}

type errGroup struct{ causes []error }

func (g errGroup) Error() string   { return fmt.Sprintf("group of %d", len(g.causes)) }
func (g errGroup) Errors() []error { return g.causes }

func nopHook(zapcore.Entry) error                           { return nil }
func nopSampleHook(zapcore.Entry, zapcore.SamplingDecision) {}

// buildWorld creates the shared objects of one program.
func buildWorld(g *rng.R) *world {
	w := &world{atom: zap.NewAtomicLevelAt(zapcore.Level(g.Range(-1, 1))), atom2: zap.NewAtomicLevel(), clk: &hclock{}}
	w.keptFields = []zap.Field{zap.Skip(), zap.String("kept", "one"), zap.Error(nil), zap.Int("kept2", 2), zap.NamedError("none", nil), zap.Bool("kept3", true)}
	enab := func() zapcore.LevelEnabler {
		switch g.Intn(4) {
		case 0:
			return w.atom
		case 1:
			return w.atom2
		case 2:
			return zapcore.DebugLevel
		}
		return zap.LevelEnablerFunc(func(l zapcore.Level) bool { return l >= zapcore.InfoLevel })
	}
	sink := func() zapcore.WriteSyncer {
		switch g.Intn(4) {
		case 0:
			b := &zapcore.BufferedWriteSyncer{WS: &racySink{}, Size: rng.Pick(g, []int{1, 64, 512, 4096}), FlushInterval: time.Hour, Clock: w.clk}
			w.bws = append(w.bws, b)
			w.desc = append(w.desc, "buffered")
			return b
		case 1:
			l := zapcore.Lock(zapcore.NewMultiWriteSyncer(&racySink{}, &racySink{}))
			w.locked = append(w.locked, l)
			w.desc = append(w.desc, "lock(multi)")
			return l
		}
		rs := &racySink{}
		if g.P(1, 4) {
			rs.failEvery = g.Range(3, 40)
			w.desc = append(w.desc, "lock(sometimes failing sink)")
		} else {
			w.desc = append(w.desc, "lock")
		}
		l := zapcore.Lock(rs)
		w.locked = append(w.locked, l)
		return l
	}
	var leaf func() zapcore.Core
	leaf = func() zapcore.Core {
		switch g.Intn(5) {
		case 0:
			c, logs := observer.New(enab())
			w.obs = append(w.obs, logs)
			w.desc = append(w.desc, "observer")
			return c
		case 1:
			w.desc = append(w.desc, "console")
			return zapcore.NewCore(zapcore.NewConsoleEncoder(encCfg(g)), sink(), enab())
		}
		w.desc = append(w.desc, "json")
		return zapcore.NewCore(zapcore.NewJSONEncoder(encCfg(g)), sink(), enab())
	}
	var comp func(d int) zapcore.Core
	comp = func(d int) zapcore.Core {
		if d <= 0 {
			return leaf()
		}
		switch g.Intn(8) {
		case 0:
			n := g.Range(2, 3)
			cs := make([]zapcore.Core, n)
			for i := range cs {
				cs[i] = comp(d - 1)
			}
			w.desc = append(w.desc, "tee")
			return zapcore.NewTee(cs...)
		case 1:
			w.desc = append(w.desc, "sampler")
			return zapcore.NewSamplerWithOptions(comp(d-1), rng.Pick(g, []time.Duration{time.Microsecond, time.Millisecond, time.Hour}), g.Range(0, 3), g.Range(0, 3), zapcore.SamplerHook(nopSampleHook))
		case 2:
			w.desc = append(w.desc, "hooked")
			return zapcore.RegisterHooks(comp(d-1), nopHook)
		case 3:
			inner := comp(d - 1)
			if c, err := zapcore.NewIncreaseLevelCore(inner, rng.Pick(g, []zapcore.Level{zapcore.InfoLevel, zapcore.WarnLevel, zapcore.ErrorLevel})); err == nil {
				w.desc = append(w.desc, "increase")
				return c
			}
			return inner
		case 4:
			w.desc = append(w.desc, "lazy")
			w.lazyN++
			return zapcore.NewLazyWith(comp(d-1), someFields(g, g.Range(1, 3)))
		case 5:
			w.desc = append(w.desc, "with")
			return comp(d - 1).With(someFields(g, g.Range(1, 3)))
		}
		return comp(d - 1)
	}
	nroots := g.Range(1, 2)
	for i := 0; i < nroots; i++ {
		core := comp(g.Range(0, 3))
		w.cores = append(w.cores, core)
		opts := []zap.Option{zap.WithFatalHook(zapcore.WriteThenPanic), zap.ErrorOutput(zapcore.Lock(&racySink{}))}
		if g.Bool() {
			opts = append(opts, zap.AddCaller())
		}
		if g.Bool() {
			opts = append(opts, zap.AddStacktrace(zapcore.WarnLevel))
		}
		if g.P(1, 3) {
			opts = append(opts, zap.Hooks(nopHook))
		}
		if g.P(1, 4) {
			opts = append(opts, zap.Development())
		}
		if g.P(1, 3) {
			opts = append(opts, zap.Fields(someFields(g, 2)...))
		}
		root := zap.New(core, opts...)
		w.loggers = append(w.loggers, root)
		// derived but never used loggers: first-use initialisation happens under contention
		for k := g.Range(1, 4); k > 0; k-- {
			var d *zap.Logger
			switch g.Intn(5) {
			case 0, 1:
				d = root.WithLazy(someFields(g, g.Range(1, 3))...)
				w.lazyN++
				w.desc = append(w.desc, "WithLazy")
			case 2:
				d = root.With(someFields(g, 2)...).WithLazy(someFields(g, 1)...).Named("n")
				w.lazyN++
				w.desc = append(w.desc, "With.WithLazy.Named")
			case 3:
				d = root.WithLazy(someFields(g, 1)...).WithLazy(someFields(g, 1)...)
				w.lazyN += 2
				w.desc = append(w.desc, "WithLazy.WithLazy")
			default:
				d = root.Named("child").With(someFields(g, 2)...)
			}
			w.loggers = append(w.loggers, d)
		}
		w.sugars = append(w.sugars, root.Sugar(), w.loggers[len(w.loggers)-1].Sugar())
		w.stdlogs = append(w.stdlogs, zap.NewStdLog(root))
		if sl, err := zap.NewStdLogAt(w.loggers[len(w.loggers)-1], zapcore.WarnLevel); err == nil {
			w.stdlogs = append(w.stdlogs, sl)
		}
		w.grpcs = append(w.grpcs, zapgrpc.NewLogger(root), zapgrpc.NewLogger(w.loggers[len(w.loggers)-1], zapgrpc.WithDebug()))
		hopts := []zapslog.HandlerOption{zapslog.WithName("slog")}
		if g.Bool() {
			hopts = append(hopts, zapslog.WithCaller(true))
		}
		if g.Bool() {
			hopts = append(hopts, zapslog.AddStacktraceAt(slog.LevelError))
		}
		var h slog.Handler = zapslog.NewHandler(core, hopts...)
		w.handlers = append(w.handlers, h, h.WithGroup("grp").WithAttrs([]slog.Attr{slog.Int("pre", 1)}))
		// handlers with several pending groups: their group list has spare capacity, so sibling
		// derivations that aliased it would write the same slot
		w.handlers = append(w.handlers, h.WithGroup("a").WithGroup("b").WithGroup("c"), h.WithGroup("p").WithGroup("q").WithGroup("r").WithGroup("s").WithGroup("t"))
		// loggers whose accumulated context slices have spare capacity (len 3, cap 4)
		w.loggers = append(w.loggers, root.With(someFields(g, 2)...).With(zap.Int("third", 3)), root.With(zap.Int("a", 1)).With(zap.Int("b", 2)).With(zap.Int("c", 3)))
	}
	return w
}

type span struct {
	kind   string
	t0, t1 int64
}

type worker struct {
	id     int
	g      *rng.R
	w      *world
	spans  []span
	panics []string
	seq    int
	priv   []*zap.Logger
	start  time.Time
}

var levels = []zapcore.Level{zapcore.DebugLevel, zapcore.InfoLevel, zapcore.WarnLevel, zapcore.ErrorLevel, zapcore.DPanicLevel, zapcore.PanicLevel, zapcore.FatalLevel}

type opFn func(wk *worker) (kind string, allowPanic string)

func (wk *worker) logger() *zap.Logger {
	if len(wk.priv) > 0 && wk.g.P(1, 3) {
		return rng.Pick(wk.g, wk.priv)
	}
	return rng.Pick(wk.g, wk.w.loggers)
}

func (wk *worker) msg() string {
	wk.seq++
	// few distinct messages so that sampler counters are shared between goroutines
	return fmt.Sprintf("c09-m%d", wk.seq%3)
}

func (wk *worker) keep(l *zap.Logger) {
	if len(wk.priv) < 6 {
		wk.priv = append(wk.priv, l)
	} else {
		wk.priv[wk.g.Intn(len(wk.priv))] = l
	}
}

// ops is the catalogue of concurrent operations; each returns its kind and, when the
// operation is specified to panic (Panic/DPanic-in-development/Fatal-with-panic-hook),
// the panic value that is allowed.
var ops = []opFn{
	func(wk *worker) (string, string) { // Logger level methods
		l, m, fs := wk.logger(), wk.msg(), someFields(wk.g, wk.g.Intn(4))
		switch wk.g.Intn(7) {
		case 0:
			l.Debug(m, fs...)
		case 1, 2:
			l.Info(m, fs...)
		case 3:
			l.Warn(m, fs...)
		case 4:
			l.Error(m, fs...)
		case 5:
			return "Logger.DPanic", dopanic(func() { l.DPanic(m, fs...) }, m)
		default:
			return "Logger.Panic", dopanic(func() { l.Panic(m, fs...) }, m)
		}
		return "Logger.level-method", ""
	},
	func(wk *worker) (string, string) {
		l, m := wk.logger(), wk.msg()
		lvl := rng.Pick(wk.g, levels)
		if wk.g.P(1, 4) {
			// a level outside debug..fatal, most of them never logged before in this process
			lvl = zapcore.Level(wk.g.Range(-40, 90))
			if lvl >= zapcore.DPanicLevel && lvl <= zapcore.FatalLevel {
				lvl = zapcore.Level(7)
			}
			l.Log(lvl, m, someFields(wk.g, wk.g.Intn(3))...)
			return "Logger.Log(custom level)", ""
		}
		return "Logger.Log", dopanic(func() { l.Log(lvl, m, someFields(wk.g, wk.g.Intn(3))...) }, m)
	},
	func(wk *worker) (string, string) {
		l, m := wk.logger(), wk.msg()
		lvl := rng.Pick(wk.g, levels[:4])
		if ce := l.Check(lvl, m); ce != nil {
			ce.Write(someFields(wk.g, wk.g.Intn(3))...)
		}
		return "Logger.Check+Write", ""
	},
	func(wk *worker) (string, string) {
		d := wk.logger().With(someFields(wk.g, wk.g.Range(1, 3))...)
		wk.keep(d)
		return "Logger.With", ""
	},
	func(wk *worker) (string, string) {
		// entries with a stack trace (and a zap.Stack field) logged from call stacks around and well
		// beyond the size of the pooled stack storage
		l, m := wk.logger().WithOptions(zap.AddStacktrace(zapcore.DebugLevel), zap.AddCaller()), wk.msg()
		depth := rng.Pick(wk.g, []int{40, 60, 64, 70, 100, 150, 300})
		descend(depth, func() { l.Info(m, zap.Stack("here")) })
		return "log with a stack trace from a deep call stack", ""
	},
	func(wk *worker) (string, string) {
		fs := wk.w.keptFields
		switch wk.g.Intn(4) {
		case 0:
			wk.keep(wk.logger().With(fs...))
		case 1:
			wk.keep(wk.logger().WithLazy(fs...))
		case 2:
			wk.logger().Info(wk.msg(), fs...)
		default:
			wk.logger().WithOptions(zap.Fields(fs...)).Warn(wk.msg(), fs...)
		}
		return "calls sharing one caller-owned field slice (Skip fields among real ones)", ""
	},
	func(wk *worker) (string, string) {
		d := wk.logger().WithLazy(someFields(wk.g, wk.g.Range(1, 3))...)
		wk.keep(d)
		return "Logger.WithLazy", ""
	},
	func(wk *worker) (string, string) {
		wk.keep(wk.logger().Named(fmt.Sprintf("w%d", wk.id)))
		return "Logger.Named", ""
	},
	func(wk *worker) (string, string) {
		var o zap.Option
		switch wk.g.Intn(6) {
		case 5:
			// a caller skip beyond the end of the stack: the caller lookup fails (reported on the error
			// output) and the entry is still logged
			l := wk.logger().WithOptions(zap.AddCaller(), zap.AddCallerSkip(10000))
			l.Info(wk.msg(), someFields(wk.g, 1)...)
			l.Error(wk.msg())
			return "Logger.WithOptions(AddCallerSkip beyond the stack)+log", ""
		case 0:
			o = zap.AddCallerSkip(1)
		case 1:
			o = zap.IncreaseLevel(zapcore.WarnLevel)
		case 2:
			o = zap.WrapCore(func(c zapcore.Core) zapcore.Core { return zapcore.NewTee(c, zapcore.NewNopCore()) })
		case 3:
			o = zap.Fields(someFields(wk.g, 1)...)
		default:
			o = zap.WithCaller(wk.g.Bool())
		}
		wk.keep(wk.logger().WithOptions(o))
		return "Logger.WithOptions", ""
	},
	func(wk *worker) (string, string) {
		l := wk.logger()
		_ = l.Level()
		_ = l.Core().Enabled(zapcore.InfoLevel)
		_ = zapcore.LevelOf(l.Core())
		_ = l.Name()
		return "Logger.Level", ""
	},
	func(wk *worker) (string, string) {
		_ = wk.logger().Sync()
		return "Logger.Sync", ""
	},
	func(wk *worker) (string, string) { // sugar families
		s := rng.Pick(wk.g, wk.w.sugars)
		if wk.g.P(1, 3) {
			s = wk.logger().Sugar()
		}
		m := wk.msg()
		switch wk.g.Intn(12) {
		case 0:
			s.Info(m, 1, "x")
		case 1:
			s.Infof("%s %d", m, wk.seq)
		case 2:
			s.Infow(m, "k", wk.seq, "obj", objM{1, 2})
		case 3:
			s.Infoln(m, 3)
		case 4:
			s.Debugw(m, "k", 1, "dangling")
		case 5:
			s.Errorw(m, 42, "non-string-key", zap.Int("f", 1), fmt.Errorf("e"))
		case 6:
			s.Warnf("%v", m)
		case 7:
			lvl := rng.Pick(wk.g, levels[:4])
			s.Logw(lvl, m, "k", 1)
		case 8:
			s.Logf(zapcore.InfoLevel, "%s", m)
		case 9:
			s.Logln(zapcore.WarnLevel, m)
		case 10:
			return "Sugar.Panicw", dopanic(func() { s.Panicw(m, "k", 1) }, m)
		default:
			s.Log(zapcore.InfoLevel, m)
		}
		return "Sugar.log-families", ""
	},
	func(wk *worker) (string, string) {
		s := rng.Pick(wk.g, wk.w.sugars)
		var d *zap.SugaredLogger
		switch wk.g.Intn(4) {
		case 0:
			d = s.With("a", 1, zap.String("b", "c"))
		case 1:
			d = s.WithLazy("lz", objM{2, 3})
		case 2:
			d = s.Named("sn")
		default:
			d = s.WithOptions(zap.AddCallerSkip(0))
		}
		d.Infow(wk.msg(), "after", true)
		_ = d.Level()
		wk.keep(d.Desugar())
		return "Sugar.With/WithLazy/Named", ""
	},
	func(wk *worker) (string, string) {
		a := wk.w.atom
		if wk.g.Bool() {
			a = wk.w.atom2
		}
		switch wk.g.Intn(6) {
		case 0, 1:
			a.SetLevel(zapcore.Level(wk.g.Range(-1, 2)))
			return "AtomicLevel.SetLevel", ""
		case 2:
			_ = a.Level()
			_ = a.Enabled(zapcore.WarnLevel)
			_ = a.String()
			_, _ = a.MarshalText()
			return "AtomicLevel.Level/Enabled", ""
		case 3:
			rr := httptest.NewRecorder()
			a.ServeHTTP(rr, httptest.NewRequest(http.MethodGet, "/", nil))
			return "AtomicLevel.ServeHTTP-GET", ""
		case 4:
			rr := httptest.NewRecorder()
			body := fmt.Sprintf(`{"level":"%s"}`, rng.Pick(wk.g, []string{"debug", "info", "warn", "error", "bogus"}))
			a.ServeHTTP(rr, httptest.NewRequest(http.MethodPut, "/", strings.NewReader(body)))
			return "AtomicLevel.ServeHTTP-PUT", ""
		default:
			_ = a.UnmarshalText([]byte(rng.Pick(wk.g, []string{"info", "debug", "nope"})))
			return "AtomicLevel.UnmarshalText", ""
		}
	},
	func(wk *worker) (string, string) {
		switch wk.g.Intn(4) {
		case 0:
			restore := zap.ReplaceGlobals(wk.logger())
			zap.L().Info(wk.msg())
			if wk.g.Bool() {
				restore()
			}
			return "ReplaceGlobals", ""
		case 1:
			zap.L().Info(wk.msg(), someFields(wk.g, 1)...)
			return "L", ""
		case 2:
			zap.S().Infow(wk.msg(), "g", 1)
			return "S", ""
		default:
			l := zap.L().With(zap.Int("gw", 1))
			l.Warn(wk.msg())
			return "L.With", ""
		}
	},
	func(wk *worker) (string, string) {
		if len(wk.w.obs) == 0 {
			return "", ""
		}
		o := rng.Pick(wk.g, wk.w.obs)
		switch wk.g.Intn(7) {
		case 0:
			for _, e := range o.All() {
				_ = e.ContextMap()
			}
		case 1:
			_ = o.TakeAll()
		case 2:
			_ = o.Len()
		case 3:
			_ = o.FilterMessage("c09-m1").All()
		case 4:
			_ = o.FilterLevelExact(zapcore.InfoLevel).Len()
		case 5:
			_ = o.FilterFieldKey("k1").AllUntimed()
		default:
			_ = o.FilterField(zap.Int("k0", 1)).Len()
		}
		return "Observer.read", ""
	},
	func(wk *worker) (string, string) { // slog
		h := rng.Pick(wk.g, wk.w.handlers)
		l := slog.New(h)
		m := wk.msg()
		switch wk.g.Intn(8) {
		case 0:
			l.Info(m, "k", 1, slog.Group("g", slog.Int("a", 1), slog.String("b", "x")))
			return "slog.Info", ""
		case 1:
			l.With("w", 2).Warn(m)
			return "slog.With(WithAttrs)", ""
		case 2:
			l.WithGroup("G").Error(m, "e", io.EOF)
			return "slog.WithGroup", ""
		case 3:
			_ = h.Enabled(context.Background(), slog.LevelDebug)
			return "slog.Enabled", ""
		case 4:
			rec := slog.NewRecord(time.Now(), slog.LevelInfo, m, 0)
			rec.AddAttrs(slog.Any("any", map[string]int{"z": 1}), slog.Duration("d", time.Second))
			_ = h.Handle(context.Background(), rec)
			return "slog.Handle", ""
		case 5:
			if wk.g.Bool() {
				// sibling derivation from a shared handler that may carry pending groups
				h3 := h.WithGroup("sib" + fmt.Sprint(wk.id))
				rec := slog.NewRecord(time.Now(), slog.LevelInfo, m, 0)
				rec.AddAttrs(slog.Int("i", wk.id))
				_ = h3.Handle(context.Background(), rec)
				_ = h3.WithAttrs([]slog.Attr{slog.Int("wa", 1)}).Handle(context.Background(), rec)
				return "slog.WithGroup-sibling.Handle", ""
			}
			h2 := h.WithAttrs([]slog.Attr{slog.Int("x", 1)}).WithGroup("q")
			_ = h2.Handle(context.Background(), slog.NewRecord(time.Now(), slog.LevelWarn, m, 0))
			return "slog.WithAttrs.WithGroup.Handle", ""
		case 6:
			l.Debug(m)
			return "slog.Debug", ""
		default:
			l.LogAttrs(context.Background(), slog.LevelError, m, slog.Int("la", 1))
			return "slog.LogAttrs", ""
		}
	},
	func(wk *worker) (string, string) { // BufferedWriteSyncer directly
		if len(wk.w.bws) == 0 {
			return "", ""
		}
		b := rng.Pick(wk.g, wk.w.bws)
		switch wk.g.Intn(8) {
		case 0:
			_ = b.Sync()
			return "Buffered.Sync", ""
		case 1:
			if wk.g.P(1, 6) {
				_ = b.Stop()
				return "Buffered.Stop", ""
			}
			_ = b.Sync()
			return "Buffered.Sync", ""
		default:
			_, _ = b.Write([]byte(strings.Repeat("w", wk.g.Intn(700)) + "\n"))
			return "Buffered.Write", ""
		}
	},
	func(wk *worker) (string, string) {
		if len(wk.w.locked) == 0 {
			return "", ""
		}
		l := rng.Pick(wk.g, wk.w.locked)
		if wk.g.P(1, 3) {
			_ = l.Sync()
			return "Locked.Sync", ""
		}
		_, _ = l.Write([]byte("direct\n"))
		return "Locked.Write", ""
	},
	func(wk *worker) (string, string) { // std-log bridge, gRPC adapter, zapio.Writer over shared loggers
		switch wk.g.Intn(6) {
		case 0:
			rng.Pick(wk.g, wk.w.stdlogs).Print(wk.msg())
			return "stdlog-bridge(shared).Print", ""
		case 1:
			zap.NewStdLog(wk.logger()).Printf("%s %d", wk.msg(), wk.seq)
			return "stdlog-bridge(new).Printf", ""
		case 2:
			gl := rng.Pick(wk.g, wk.w.grpcs)
			gl.Infoln(wk.msg(), 1)
			gl.Warningf("%s", wk.msg())
			_ = gl.V(wk.g.Intn(4))
			return "zapgrpc.Infoln/Warningf/V", ""
		case 3:
			gl := zapgrpc.NewLogger(wk.logger())
			gl.Error(wk.msg())
			gl.Print(wk.msg())
			return "zapgrpc(new).Error/Print", ""
		default:
			zw := &zapio.Writer{Log: wk.logger(), Level: zapcore.InfoLevel}
			_, _ = zw.Write([]byte(wk.msg() + "\npartial"))
			_ = zw.Sync()
			_, _ = zw.Write([]byte("second\n"))
			_ = zw.Close()
			return "zapio.Writer(private) over shared logger", ""
		}
	},
	func(wk *worker) (string, string) { // cores used directly
		c := rng.Pick(wk.g, wk.w.cores)
		switch wk.g.Intn(4) {
		case 0:
			d := c.With(someFields(wk.g, 2))
			if ce := d.Check(zapcore.Entry{Level: zapcore.InfoLevel, Message: wk.msg(), Time: time.Now()}, nil); ce != nil {
				ce.Write(someFields(wk.g, 1)...)
			}
			return "Core.With+Check+Write", ""
		case 1:
			_ = c.Sync()
			return "Core.Sync", ""
		case 2:
			_ = c.Enabled(zapcore.ErrorLevel)
			_ = zapcore.LevelOf(c)
			return "Core.Enabled/LevelOf", ""
		default:
			if ce := c.Check(zapcore.Entry{Level: zapcore.ErrorLevel, Message: wk.msg(), Time: time.Now(), Stack: "st"}, nil); ce != nil {
				ce.Write()
			}
			return "Core.Check+Write", ""
		}
	},
}

// dopanic runs f, which is specified to panic with want when its entry is enabled for a
// terminal level; returns the allowed panic text through the worker's recover.
func dopanic(f func(), want string) string {
	defer func() {
		if x := recover(); x != nil {
			if s, ok := x.(string); ok && s == want {
				return
			}
			panic(x)
		}
	}()
	f()
	return ""
}

func (wk *worker) run(nops int, startCh <-chan struct{}) {
	<-startCh
	for k := 0; k < nops; k++ {
		op := rng.Pick(wk.g, ops)
		t0 := time.Since(wk.start).Nanoseconds()
		var kind string
		func() {
			defer func() {
				if x := recover(); x != nil {
					buf := make([]byte, 4096)
					buf = buf[:runtime.Stack(buf, false)]
					wk.panics = append(wk.panics, fmt.Sprintf("%v\n%s", x, buf))
					kind = "panicked"
				}
			}()
			kind, _ = op(wk)
		}()
		if kind != "" {
			wk.spans = append(wk.spans, span{kind, t0, time.Since(wk.start).Nanoseconds()})
		}
	}
}

// overlaps returns the set of operation-kind pairs whose intervals overlapped in time.
func overlaps(ws []*worker) map[string]bool {
	type ev struct {
		t     int64
		open  bool
		kind  string
		owner int
		idx   int
	}
	var evs []ev
	for _, w := range ws {
		for i, s := range w.spans {
			evs = append(evs, ev{s.t0, true, s.kind, w.id, i}, ev{s.t1, false, s.kind, w.id, i})
		}
	}
	sort.Slice(evs, func(i, j int) bool {
		if evs[i].t != evs[j].t {
			return evs[i].t < evs[j].t
		}
		return !evs[i].open && evs[j].open
	})
	active := map[int]string{}
	out := map[string]bool{}
	for _, e := range evs {
		if e.open {
			for o, k := range active {
				if o != e.owner {
					a, b := k, e.kind
					if a > b {
						a, b = b, a
					}
					out[a+" || "+b] = true
				}
			}
			active[e.owner] = e.kind
		} else {
			delete(active, e.owner)
		}
	}
	return out
}

var quietHits [8]atomic.Int64 // only touched in tracing programs

func pointIndex(name string) int {
	switch name {
	case "iocore.write.encoded":
		return 0
	case "iocore.write.written":
		return 1
	case "ce.write.before_put":
		return 2
	case "lazy.init.inside":
		return 3
	case "bws.loop.tick_received":
		return 4
	case "bws.stop.signalled":
		return 5
	case "sampler.reset.between":
		return 6
	}
	return 7
}

var pointNames = []string{"iocore.write.encoded", "iocore.write.written", "ce.write.before_put", "lazy.init.inside", "bws.loop.tick_received", "bws.stop.signalled", "sampler.reset.between", "other"}

// perturb installs the callback. Quiet mode touches no shared memory (so it cannot order
// otherwise racy accesses); tracing mode additionally counts hits per point.
func perturb(tracing bool) {
	verifhook.Set(func(name string) {
		if tracing {
			quietHits[pointIndex(name)].Add(1)
		}
		t := time.Now().UnixNano()
		switch {
		case (t>>4)&3 == 0:
			runtime.Gosched()
		case (t>>6)&63 == 0:
			time.Sleep(20 * time.Microsecond)
		}
	})
}

// program runs one generated program; false = the program hung (stop the batch).
func program(r *ev.Run, i int) bool {
	id := fmt.Sprintf("c09/prog/%d", i)
	g := rng.For(r.Seed, "c09/prog", i)
	w := buildWorld(g)
	ng := g.Range(2, 16)
	nops := g.Range(20, 200)
	if ng*nops > 1600 {
		nops = 1600 / ng
	}
	warmed := i%2 == 1
	tracing := i%8 == 0
	perturb(tracing)
	if warmed {
		// also the sequential warm-up runs under the watchdog (a lock leaked on an error path blocks
		// the very next call)
		warmDone := make(chan struct{})
		go func() {
			defer close(warmDone)
			for _, l := range w.loggers {
				l.Info("warm-up")
			}
			for _, s := range w.sugars {
				s.Infow("warm-up", "k", 1)
			}
			for _, h := range w.handlers {
				slog.New(h).Info("warm-up")
			}
		}()
		select {
		case <-warmDone:
		case <-time.After(60 * time.Second):
			d1 := mon.Stacks()
			time.Sleep(1500 * time.Millisecond)
			d2 := mon.Stacks()
			if mon.Quiescent(d1, d2, "c09.program.func", "BufferedWriteSyncer") {
				if len(d2) > 8000 {
					d2 = d2[:8000]
				}
				r.Violate(ev.Violation{Case: id, Class: "deadlock", Msg: "a sequential warm-up log call never returned: the goroutine is blocked with an unchanged stack and nothing else is running; shared objects: " + strings.Join(w.desc, ","), Witness: d2})
			} else {
				r.Inconclusive(id + ": warm-up did not finish within the watchdog but goroutines are still moving")
			}
			return false
		}
	}
	prevGlobals := zap.ReplaceGlobals(w.loggers[0])
	defer prevGlobals()
	startCh := make(chan struct{})
	var wg sync.WaitGroup
	start := time.Now()
	ws := make([]*worker, ng)
	for k := range ws {
		ws[k] = &worker{id: k, g: g.Split(), w: w, start: start}
		wg.Add(1)
		go func(wk *worker) {
			defer wg.Done()
			wk.run(nops, startCh)
		}(ws[k])
	}
	// harness ticks for every buffered syncer created so far or later
	var stopTicks atomic.Bool
	tickDone := make(chan struct{})
	go func() {
		defer close(tickDone)
		for !stopTicks.Load() {
			for _, ch := range w.clk.all() {
				select {
				case ch <- time.Unix(7, 0):
				default:
				}
			}
			time.Sleep(200 * time.Microsecond)
		}
	}()
	finished := make(chan struct{})
	go func() { wg.Wait(); close(finished) }()
	close(startCh)
	select {
	case <-finished:
	case <-time.After(90 * time.Second):
		stopTicks.Store(true)
		<-tickDone
		time.Sleep(500 * time.Millisecond)
		d1 := mon.Stacks()
		time.Sleep(1500 * time.Millisecond)
		d2 := mon.Stacks()
		if mon.Quiescent(d1, d2, "c09.(*worker).run", "BufferedWriteSyncer") {
			if len(d2) > 8000 {
				d2 = d2[:8000]
			}
			r.Violate(ev.Violation{Case: id, Class: "deadlock", Msg: "concurrent program deadlocked: with harness ticks stopped every worker and every goroutine inside zap is blocked with an unchanged stack; shared objects: " + strings.Join(w.desc, ","), Witness: d2})
		} else {
			r.Inconclusive(id + ": program did not finish within the watchdog but goroutines are still moving")
		}
		return false
	}
	stopTicks.Store(true)
	<-tickDone
	for _, b := range w.bws {
		_ = b.Stop()
	}
	r.Eval(1)
	sort.Strings(w.desc)
	r.Distinct(fmt.Sprintf("%d|%d|%d|%s", i, ng, nops, strings.Join(w.desc, ",")))
	totalOps := 0
	for _, wk := range ws {
		totalOps += len(wk.spans)
		for _, s := range wk.spans {
			r.SetAdd("operation_kinds", s.kind)
		}
		for _, p := range wk.panics {
			r.Violate(ev.Violation{Case: id, Class: "panic", Msg: "an operation of the concurrent API panicked: " + firstLine(p), Witness: map[string]any{"panic": p, "world": w.desc, "goroutines": ng}})
		}
	}
	for p := range overlaps(ws) {
		r.SetAdd("overlapping_operation_pairs", p)
	}
	r.Count("operations", int64(totalOps))
	r.Count("goroutines", int64(ng))
	if warmed {
		r.Count("programs_on_warmed_loggers", 1)
	} else {
		r.Count("programs_on_fresh_loggers", 1)
	}
	if w.lazyN > 0 {
		r.Count("programs_with_unused_lazy_loggers", 1)
	}
	for _, d := range w.desc {
		r.SetAdd("shared_object_kinds", d)
	}
	if i < 3 {
		r.Sample(map[string]any{"program": i, "goroutines": ng, "ops_per_goroutine": nops, "warmed": warmed, "shared": w.desc, "first_ops_of_goroutine_0": kinds(ws[0].spans, 12)})
	}
	return true
}

func kinds(s []span, n int) []string {
	var out []string
	for i := 0; i < len(s) && i < n; i++ {
		out = append(out, s[i].kind)
	}
	return out
}

func firstLine(s string) string {
	if i := strings.IndexByte(s, '\n'); i >= 0 {
		return s[:i]
	}
	return s
}

// Child runs programs [lo,hi) in the race build.
func Child(r *ev.Run, args []string) {
	var lo, hi int
	fmt.Sscanf(args[0], "%d", &lo)
	fmt.Sscanf(args[1], "%d", &hi)
	defer verifhook.Set(nil)
	for i := lo; i < hi; i++ {
		if !program(r, i) {
			break
		}
	}
	for i, n := range pointNames {
		if v := quietHits[i].Load(); v > 0 {
			r.Count("hook_hits_in_tracing_programs:"+n, v)
		}
	}
}

// Run is the C09 monitor (parent): batches of programs in race-build children.
func Run(r *ev.Run) {
	r.Rule = "program i = f(seed,i): shared world (1-2 root loggers over generated core compositions of JSON/console IO cores on Lock/BufferedWriteSyncer/multi sinks, observer, tee, sampler, hooked, increase-level, lazy and With cores; unused WithLazy/With/Named children; sugared loggers; slog handlers; two AtomicLevels; globals) x 2-16 goroutines x 20-200 operations drawn from 19 operation families (all Logger/Sugar log methods, Check+Write, With, WithLazy, Named, WithOptions, Level, Sync, AtomicLevel Level/SetLevel/Enabled/ServeHTTP/UnmarshalText, ReplaceGlobals/L/S, observer reads, slog Handle/WithAttrs/WithGroup/Enabled, BufferedWriteSyncer Write/Sync/Stop with harness ticks, locked syncers, cores directly); half the programs start on never-used loggers; race build, quiet perturbation at all hook points; distinct = distinct (program index, goroutines, ops, shared-object multiset)"
	total := r.N(1600, 40000)
	batch := r.N(100, 500)
	par := 4
	type job struct{ lo, hi int }
	jobs := make(chan job)
	var wg sync.WaitGroup
	for p := 0; p < par; p++ {
		wg.Add(1)
		go func() {
			defer wg.Done()
			for j := range jobs {
				o := mon.ChildOpts{Race: true, Prop: "C09", Args: []string{fmt.Sprint(j.lo), fmt.Sprint(j.hi)}, Timeout: 30 * time.Minute, CrashIsViolation: true, Env: []string{"GOMAXPROCS=8"}}
				oc := mon.RunChild(r, o)
				mon.Judge(r, o, oc, fmt.Sprintf("c09/batch/%d-%d", j.lo, j.hi))
			}
		}()
	}
	if r.Only != "" {
		// replay of a batch: "c09/batch/<lo>-<hi>" or a program "c09/prog/<i>": re-run it several times
		var lo, hi int
		if n, _ := fmt.Sscanf(r.Only, "c09/batch/%d-%d", &lo, &hi); n != 2 {
			fmt.Sscanf(r.Only, "c09/prog/%d", &lo)
			hi = lo + 1
		}
		for k := 0; k < 20; k++ {
			jobs <- job{lo, hi}
		}
	} else {
		for lo := 0; lo < total; lo += batch {
			hi := lo + batch
			if hi > total {
				hi = total
			}
			jobs <- job{lo, hi}
		}
	}
	close(jobs)
	wg.Wait()
	r.Extra("race_detector", "every program ran in a -race build; reports are read from GORACE log_path files and de-duplicated by stack signature")
	r.Extra("overlapping_pairs_observed", r.SetLen("overlapping_operation_pairs"))
	if r.Only == "" && r.Violations() == 0 {
		if r.SetLen("overlapping_operation_pairs") < 50 {
			r.Incomplete("fewer than 50 distinct operation pairs overlapped in time: the workload did not produce concurrency")
		}
		for _, p := range []string{"iocore.write.encoded", "iocore.write.written", "ce.write.before_put", "lazy.init.inside"} {
			if r.Counter("hook_hits_in_tracing_programs:"+p) == 0 {
				r.Incomplete("perturbation point " + p + " was never reached")
			}
		}
	}
}
