// Package c08 monitors C08: the bytes produced for a given logger, entry and fields do
// not depend on what was logged before, on pooled-object reuse, on garbage collections
// or on concurrent activity on other loggers.
//
// A fixed catalogue of deterministic probes is run (a) as the very first logging
// operation of a fresh process – the baseline – and (b) at random points of long random
// histories of other logging operations; the bytes must be identical.
package c08

import (
	"bytes"
	"context"
	"encoding/hex"
	"errors"
	"fmt"
	"go.uber.org/zap/zapio"
	"io"
	"log/slog"
	"os"
	"os/exec"
	"path/filepath"
	"runtime"
	"strings"
	"sync"
	"sync/atomic"
	"time"

	"go.uber.org/zap"
	"go.uber.org/zap/buffer"
	"go.uber.org/zap/exp/zapslog"
	"go.uber.org/zap/internal/verifhook"
	"go.uber.org/zap/verif/internal/ev"
	"go.uber.org/zap/verif/internal/gen"
	"go.uber.org/zap/verif/internal/mon"
	"go.uber.org/zap/verif/internal/rng"
	"go.uber.org/zap/zapcore"
)

// ---- sinks, clock ------------------------------------------------------------------------------

type sink struct{ buf []byte }

func (s *sink) Write(p []byte) (int, error) { s.buf = append(s.buf, p...); return len(p), nil }
func (s *sink) Sync() error                 { return nil }

type failSink struct{}

func (failSink) Write(p []byte) (int, error) { return 0, errors.New("history sink failure") }
func (failSink) Sync() error                 { return errors.New("history sync failure") }

type fixedClock struct{}

var fixedTime = time.Date(2023, 11, 12, 13, 14, 15, 123456789, time.UTC)

func (fixedClock) Now() time.Time                         { return fixedTime }
func (fixedClock) NewTicker(d time.Duration) *time.Ticker { return time.NewTicker(d) }

// ---- values used by probes ---------------------------------------------------------------------

type pobj struct {
	depth int
	fail  bool
}

func (o pobj) MarshalLogObject(enc zapcore.ObjectEncoder) error {
	enc.AddString("name", "obj")
	enc.AddInt("depth", o.depth)
	if o.depth > 0 {
		_ = enc.AddObject("child", pobj{o.depth - 1, o.fail})
		_ = enc.AddArray("arr", parr{o.depth - 1})
	}
	enc.OpenNamespace("open")
	enc.AddBool("in", true)
	if o.fail && o.depth == 0 {
		return errors.New("pobj failed")
	}
	return nil
}

type parr struct{ depth int }

func (a parr) MarshalLogArray(enc zapcore.ArrayEncoder) error {
	enc.AppendInt(a.depth)
	enc.AppendString("s")
	if a.depth > 0 {
		_ = enc.AppendArray(parr{a.depth - 1})
		_ = enc.AppendObject(pobj{0, false})
	}
	return nil
}

type pstringer struct{ panics bool }

func (s pstringer) String() string {
	if s.panics {
		panic("pstringer panics")
	}
	return "stringer-value"
}

type causeErr struct {
	msg    string
	causes []error
}

func (e causeErr) Error() string   { return e.msg }
func (e causeErr) Errors() []error { return e.causes }

type verboseErr struct{ msg string }

func (e verboseErr) Error() string { return e.msg }
func (e verboseErr) Format(s fmt.State, verb rune) {
	if verb == 'v' && s.Flag('+') {
		fmt.Fprintf(s, "%s\n  verbose detail line", e.msg)
		return
	}
	fmt.Fprint(s, e.msg)
}

type reflected struct {
	A int               `json:"a"`
	B string            `json:"b"`
	C []float64         `json:"c"`
	D map[string]string `json:"d"`
}

type upperReflect struct{ w *buffer.Buffer }

func (u upperReflect) Encode(v interface{}) error {
	u.w.AppendString(fmt.Sprintf("%q\n", strings.ToUpper(fmt.Sprint(v))))
	return nil
}

// ---- probe catalogue ---------------------------------------------------------------------------

type cfgDef struct {
	name  string
	build func(out, errOut zapcore.WriteSyncer) *zap.Logger
}

func baseCfg() zapcore.EncoderConfig {
	c := zap.NewProductionEncoderConfig()
	c.EncodeTime = zapcore.RFC3339NanoTimeEncoder
	return c
}

var cfgs = []cfgDef{
	{"json", func(out, eo zapcore.WriteSyncer) *zap.Logger {
		return zap.New(zapcore.NewCore(zapcore.NewJSONEncoder(baseCfg()), out, zapcore.DebugLevel), zap.WithClock(fixedClock{}), zap.ErrorOutput(eo))
	}},
	{"json+caller+func+stack", func(out, eo zapcore.WriteSyncer) *zap.Logger {
		c := baseCfg()
		c.FunctionKey = "func"
		c.EncodeDuration = zapcore.StringDurationEncoder
		c.EncodeLevel = zapcore.CapitalLevelEncoder
		return zap.New(zapcore.NewCore(zapcore.NewJSONEncoder(c), out, zapcore.DebugLevel), zap.WithClock(fixedClock{}), zap.ErrorOutput(eo), zap.AddCaller(), zap.AddStacktrace(zapcore.WarnLevel)).Named("probe.named")
	}},
	{"console", func(out, eo zapcore.WriteSyncer) *zap.Logger {
		return zap.New(zapcore.NewCore(zapcore.NewConsoleEncoder(zap.NewDevelopmentEncoderConfig()), out, zapcore.DebugLevel), zap.WithClock(fixedClock{}), zap.ErrorOutput(eo), zap.AddCaller())
	}},
	{"console+sep+stack", func(out, eo zapcore.WriteSyncer) *zap.Logger {
		c := zap.NewDevelopmentEncoderConfig()
		c.ConsoleSeparator = " | "
		c.FunctionKey = "F"
		c.EncodeLevel = zapcore.CapitalColorLevelEncoder
		return zap.New(zapcore.NewCore(zapcore.NewConsoleEncoder(c), out, zapcore.DebugLevel), zap.WithClock(fixedClock{}), zap.ErrorOutput(eo), zap.AddCaller(), zap.AddStacktrace(zapcore.ErrorLevel)).Named("con")
	}},
	{"json+custom-reflect", func(out, eo zapcore.WriteSyncer) *zap.Logger {
		c := baseCfg()
		c.NewReflectedEncoder = func(w io.Writer) zapcore.ReflectedEncoder {
			return upperReflect{w.(*buffer.Buffer)}
		}
		return zap.New(zapcore.NewCore(zapcore.NewJSONEncoder(c), out, zapcore.DebugLevel), zap.WithClock(fixedClock{}), zap.ErrorOutput(eo))
	}},
	{"tee(json,console)+fields", func(out, eo zapcore.WriteSyncer) *zap.Logger {
		core := zapcore.NewTee(
			zapcore.NewCore(zapcore.NewJSONEncoder(baseCfg()), out, zapcore.InfoLevel),
			zapcore.NewCore(zapcore.NewConsoleEncoder(baseCfg()), out, zapcore.WarnLevel),
		)
		return zap.New(core, zap.WithClock(fixedClock{}), zap.ErrorOutput(eo), zap.Fields(zap.Int("pid", 42), zap.Namespace("ctx")))
	}},
}

type fieldDef struct {
	name string
	lvl  zapcore.Level
	mk   func() []zap.Field
}

var tsA = time.Date(2001, 2, 3, 4, 5, 6, 7, time.UTC)

var fieldSets = []fieldDef{
	{"none", zapcore.InfoLevel, func() []zap.Field { return nil }},
	{"scalars", zapcore.InfoLevel, func() []zap.Field {
		return []zap.Field{zap.Int("i", -7), zap.Uint64("u", 1<<63), zap.Float64("f", 0.1), zap.Bool("b", true), zap.String("s", "q\"uote\n"), zap.Complex128("c", complex(1, -2))}
	}},
	{"namespace-left-open", zapcore.InfoLevel, func() []zap.Field {
		return []zap.Field{zap.Int("a", 1), zap.Namespace("n1"), zap.Int("b", 2), zap.Namespace("n2"), zap.String("c", "x")}
	}},
	{"reflect", zapcore.InfoLevel, func() []zap.Field {
		return []zap.Field{zap.Reflect("r", reflected{1, "b", []float64{1.5, 2}, map[string]string{"k": "v"}}), zap.Any("m", map[string]int{"one": 1}), zap.Reflect("nil", nil)}
	}},
	{"error-with-causes", zapcore.ErrorLevel, func() []zap.Field {
		return []zap.Field{zap.Error(causeErr{"top", []error{errors.New("c1"), verboseErr{"c2"}, causeErr{"c3", []error{errors.New("c3a")}}}}), zap.NamedError("verbose", verboseErr{"v"})}
	}},
	{"errors-array", zapcore.WarnLevel, func() []zap.Field {
		return []zap.Field{zap.Errors("errs", []error{errors.New("e1"), nil, verboseErr{"e2"}, causeErr{"e3", []error{errors.New("e3a")}}})}
	}},
	{"nested-object-array", zapcore.InfoLevel, func() []zap.Field {
		return []zap.Field{zap.Object("o", pobj{3, false}), zap.Array("a", parr{3}), zap.Inline(pobj{1, false})}
	}},
	{"long-string", zapcore.InfoLevel, func() []zap.Field {
		return []zap.Field{zap.String("long", strings.Repeat("0123456789", 300)), zap.ByteString("bs", bytes.Repeat([]byte("ab"), 700))}
	}},
	{"failing-object", zapcore.InfoLevel, func() []zap.Field {
		return []zap.Field{zap.Int("before", 1), zap.Object("bad", pobj{2, true}), zap.Int("after", 2)}
	}},
	{"panicking-stringer", zapcore.InfoLevel, func() []zap.Field {
		return []zap.Field{zap.Stringer("ok", pstringer{}), zap.Stringer("boom", pstringer{true}), zap.Stringers("many", []pstringer{{}, {}})}
	}},
	{"stack-field", zapcore.InfoLevel, func() []zap.Field { return []zap.Field{zap.Stack("st"), zap.StackSkip("st1", 1)} }},
	{"dict", zapcore.WarnLevel, func() []zap.Field {
		return []zap.Field{zap.Dict("d", zap.Int("x", 1), zap.Dict("inner", zap.String("y", "z"))), zap.Objects("os", []pobj{{0, false}, {1, false}})}
	}},
	{"times-durations", zapcore.InfoLevel, func() []zap.Field {
		return []zap.Field{zap.Time("t", tsA), zap.Times("ts", []time.Time{tsA, tsA.Add(time.Hour)}), zap.Duration("d", 1500*time.Millisecond), zap.Durations("ds", []time.Duration{1, time.Second})}
	}},
	{"binary", zapcore.DebugLevel, func() []zap.Field {
		return []zap.Field{zap.Binary("bin", []byte{0, 1, 2, 250, 251}), zap.Ints("ints", []int{1, 2, 3}), zap.Strings("strs", []string{"a", "b"}), zap.Bools("bools", []bool{true, false})}
	}},
	{"error-level-many", zapcore.ErrorLevel, func() []zap.Field {
		return []zap.Field{zap.Int("a", 1), zap.Error(errors.New("plain")), zap.Reflect("r", []int{1, 2}), zap.Object("o", pobj{1, false}), zap.String("z", "end")}
	}},
}

// variants: how the probe's logger is obtained and used.
var variants = []string{"direct", "with-child", "sugar", "check-write"}

type probe struct {
	idx           int
	cfg, fs, vrnt int
	name          string
	pers          bool // runs on the history's long-lived logger of this configuration (fresh in the baseline)
	deep          int  // extra call frames below the log call (stacks deeper than the pooled 64-frame storage)
	// special probes on the long-lived logger: "lazy-sugar" logs through a sugared WithLazy child derived
	// when the logger was built and not used since; "shared-slice" derives a child from a field slice
	// (with Skip fields among the real ones) that the program keeps and passes again and again
	special string
}

// persLogger is a long-lived logger with an accumulated context that ends inside an open
// namespace; histories keep using it between probes.
type persLogger struct {
	l        *zap.Logger
	out, eo  *sink
	lazy     *zap.SugaredLogger
	sharedFs []zap.Field
}

func buildPers(cfg int) *persLogger {
	p := &persLogger{out: &sink{}, eo: &sink{}}
	// the context holds a reflection-encoded value (the encoder keeps a scratch buffer for it) and
	// ends inside an open namespace
	p.l = cfgs[cfg].build(p.out, p.eo).With(zap.String("svc", "api"), zap.Reflect("settings", reflected{7, "ctx", []float64{0.5}, map[string]string{"env": "prod"}}), zap.Namespace("req"), zap.String("id", "42"))
	p.lazy = p.l.Sugar().WithLazy("request", "r-1", "tenant", 9, zap.Int("shard", 3))
	p.sharedFs = []zap.Field{zap.Skip(), zap.String("first", "1"), zap.Skip(), zap.Int("second", 2), zap.Skip(), zap.Bool("third", true)}
	return p
}

func buildAllPers() []*persLogger {
	out := make([]*persLogger, len(cfgs))
	for i := range cfgs {
		out[i] = buildPers(i)
	}
	return out
}

var catalogue []probe

func init() {
	for c := range cfgs {
		for f := range fieldSets {
			v := (c + f) % len(variants)
			catalogue = append(catalogue, probe{idx: len(catalogue), cfg: c, fs: f, vrnt: v, name: cfgs[c].name + "/" + fieldSets[f].name + "/" + variants[v]})
		}
	}
	// slog probes
	for c := 0; c < 2; c++ {
		catalogue = append(catalogue, probe{idx: len(catalogue), cfg: c, fs: -1, name: cfgs[c].name + "/slog-handler"})
	}
	// probes whose call stack is deeper than the pooled stack storage
	for _, c := range []int{1, 3} {
		for _, f := range []int{10, 14} {
			for _, d := range []int{70, 300} {
				catalogue = append(catalogue, probe{idx: len(catalogue), cfg: c, fs: f, vrnt: 0, name: fmt.Sprintf("deep-stack-%d:%s/%s", d, cfgs[c].name, fieldSets[f].name), deep: d})
			}
		}
	}
	// entries handed to the core with a caller of their own (as bridges and forwarding layers do): the
	// same program counter value with this probe's file and line
	for c := range cfgs {
		catalogue = append(catalogue, probe{idx: len(catalogue), cfg: c, fs: 0, name: cfgs[c].name + "/entry-with-given-caller", special: "given-caller"})
	}
	// probes on long-lived loggers
	for c := range cfgs {
		for _, f := range []int{0, 1, 2, 3, 6, 8} {
			v := (c + f) % len(variants)
			catalogue = append(catalogue, probe{idx: len(catalogue), cfg: c, fs: f, vrnt: v, name: "long-lived:" + cfgs[c].name + "/" + fieldSets[f].name + "/" + variants[v], pers: true})
		}
		for _, sp := range []string{"lazy-sugar", "shared-slice"} {
			catalogue = append(catalogue, probe{idx: len(catalogue), cfg: c, fs: 0, name: "long-lived:" + cfgs[c].name + "/" + sp, pers: true, special: sp})
		}
	}
}

// syntheticPCs are program-counter values carried by entries whose caller is given by the program.
var syntheticPCs = []uintptr{0x1234, 0x401000, 1}

//go:noinline
func probeBody(p probe, l *zap.Logger, pl *persLogger) (panicked string) {
	defer func() {
		if x := recover(); x != nil {
			panicked = fmt.Sprint(x)
		}
	}()
	if l == nil {
		return "harness: no logger"
	}
	if p.fs < 0 {
		h := zapslog.NewHandler(l.Core(), zapslog.WithName("sl"), zapslog.WithCaller(false))
		rec := slog.NewRecord(fixedTime, slog.LevelWarn, "slog probe", 0)
		rec.AddAttrs(slog.Int("a", 1), slog.Group("g", slog.String("s", "x"), slog.Group("h", slog.Bool("b", true))), slog.Any("err", errors.New("e")))
		_ = h.WithAttrs([]slog.Attr{slog.String("pre", "p")}).WithGroup("grp").Handle(context.Background(), rec)
		return
	}
	fd := fieldSets[p.fs]
	msg := "probe " + p.name
	switch p.special {
	case "given-caller":
		for k, pc := range syntheticPCs {
			ent := zapcore.Entry{Level: zapcore.InfoLevel, Time: fixedTime, Message: msg, Caller: zapcore.NewEntryCaller(pc, fmt.Sprintf("/srv/app/probe%d/handler.go", k), 70+k, true)}
			if ce := l.Core().Check(ent, nil); ce != nil {
				ce.Write(zap.Int("k", k))
			}
		}
		return
	case "lazy-sugar":
		pl.lazy.Infow(msg, "k", 1)
		return
	case "shared-slice":
		l.With(pl.sharedFs...).Info(msg, pl.sharedFs...)
		return
	}
	switch variants[p.vrnt] {
	case "direct":
		l.Log(fd.lvl, msg, fd.mk()...)
	case "with-child":
		fs := fd.mk()
		h := len(fs) / 2
		l.With(fs[:h]...).Log(fd.lvl, msg, fs[h:]...)
	case "sugar":
		var kv []interface{}
		for _, f := range fd.mk() {
			kv = append(kv, f)
		}
		kv = append(kv, "sugar-key", 12, "dangling")
		l.Sugar().Logw(fd.lvl, msg, kv...)
	case "check-write":
		if ce := l.Check(fd.lvl, msg); ce != nil {
			ce.Write(fd.mk()...)
		}
	}
	return
}

// runProbe runs the probe on its own goroutine, so that captured stacks are identical
// wherever the probe is started from.
func runProbe(p probe, pers []*persLogger) []byte {
	out, eo := &sink{}, &sink{}
	var l *zap.Logger
	var pl *persLogger
	if p.pers {
		pl = buildPersIfNil(pers, p.cfg)
		pl.out.buf, pl.eo.buf = pl.out.buf[:0], pl.eo.buf[:0]
		out, eo, l = pl.out, pl.eo, pl.l
	}
	done := make(chan string, 1)
	go func() {
		if l == nil {
			l = cfgs[p.cfg].build(out, eo)
		}
		if p.deep > 0 {
			var res string
			recurse(p.deep, func() { res = probeBody(p, l, pl) })
			done <- res
			return
		}
		done <- probeBody(p, l, pl)
	}()
	var pan string
	select {
	case pan = <-done:
	case <-time.After(120 * time.Second):
		return []byte("\x00PROBE-DID-NOT-RETURN\x00")
	}
	res := append([]byte{}, out.buf...)
	res = append(res, "\x00ERROUT\x00"...)
	res = append(res, eo.buf...)
	if pan != "" {
		res = append(res, ("\x00PANIC\x00" + pan)...)
	}
	return res
}

// retHook is a terminal hook that records the entry in a history sink and returns.
type retHook struct{ s *sink }

func (h retHook) OnWrite(ce *zapcore.CheckedEntry, _ []zapcore.Field) {
	h.s.buf = append(h.s.buf, ("terminal hook ran for: " + ce.Message + "\n")...)
}

func buildPersIfNil(pers []*persLogger, cfg int) *persLogger {
	if pers == nil {
		return buildPers(cfg) // baseline: the probe is the logger's (and the process's) first call
	}
	return pers[cfg]
}

// ---- history operations ------------------------------------------------------------------------

type histEnv struct {
	g       *rng.R
	gg      *gen.G
	loggers []*zap.Logger
	names   []string
	sinks   []*sink
	encs    []zapcore.Encoder
	pers    []*persLogger
}

func newHistEnv(g *rng.R) *histEnv {
	h := &histEnv{g: g, gg: gen.New(g, gen.Opts{Hostile: true, MaxDepth: 5, FaultNum: 1, FaultDen: 6, BigStrings: true})}
	add := func(name string, l *zap.Logger, s *sink) {
		h.loggers, h.names, h.sinks = append(h.loggers, l), append(h.names, name), append(h.sinks, s)
	}
	for _, c := range cfgs {
		s := &sink{}
		add(c.name, c.build(s, s), s)
	}
	{
		s := &sink{}
		core := zapcore.NewTee(
			zapcore.NewCore(zapcore.NewJSONEncoder(baseCfg()), s, zapcore.DebugLevel),
			zapcore.NewCore(zapcore.NewConsoleEncoder(baseCfg()), failSink{}, zapcore.DebugLevel),
			zapcore.NewCore(zapcore.NewJSONEncoder(zap.NewDevelopmentEncoderConfig()), s, zapcore.ErrorLevel),
		)
		add("tee-with-failing-core", zap.New(core, zap.ErrorOutput(s), zap.AddCaller(), zap.AddStacktrace(zapcore.InfoLevel), zap.Hooks(func(zapcore.Entry) error { return errors.New("hook error") })), s)
	}
	{
		s := &sink{}
		l := zap.New(zapcore.NewCore(zapcore.NewJSONEncoder(baseCfg()), s, zapcore.DebugLevel), zap.Development(), zap.ErrorOutput(s), zap.WithFatalHook(zapcore.WriteThenPanic), zap.AddCallerSkip(200), zap.AddCaller())
		add("dev+callerskip200", l, s)
	}
	{
		s := &sink{}
		l := zap.New(zapcore.NewSamplerWithOptions(zapcore.NewCore(zapcore.NewConsoleEncoder(zap.NewDevelopmentEncoderConfig()), s, zapcore.DebugLevel), time.Hour, 1, 0), zap.ErrorOutput(s))
		add("sampled-console", l, s)
	}
	h.encs = []zapcore.Encoder{zapcore.NewJSONEncoder(baseCfg()), zapcore.NewConsoleEncoder(zap.NewDevelopmentEncoderConfig())}
	h.pers = buildAllPers()
	return h
}

//go:noinline
func recurse(n int, f func()) {
	if n <= 0 {
		f()
		return
	}
	recurse(n-1, f)
}

type histOp struct {
	name string
	run  func(h *histEnv)
}

func (h *histEnv) lg() *zap.Logger { return rng.Pick(h.g, h.loggers) }

func quiet(f func()) {
	defer func() { _ = recover() }()
	f()
}

var histOps = []histOp{
	{"log-generated-fields", func(h *histEnv) {
		fs := gen.ZapFields(h.gg.Fields(h.g.Range(0, 6), 0))
		quiet(func() { h.lg().Info(h.gg.Str(), fs...) })
	}},
	{"log-generated-fields-error", func(h *histEnv) {
		fs := gen.ZapFields(h.gg.Fields(h.g.Range(1, 4), 0))
		quiet(func() { h.lg().Error("generated", fs...) })
	}},
	{"log-huge-string", func(h *histEnv) {
		h.lg().Info("huge", zap.String("h", strings.Repeat("H", h.g.Range(1000, 120000))))
	}},
	{"log-tiny", func(h *histEnv) { h.lg().Debug("") }},
	{"log-namespaces-left-open", func(h *histEnv) {
		h.lg().Info("ns", zap.Namespace("a"), zap.Namespace("b"), zap.Int("x", 1), zap.Namespace("c"))
	}},
	{"log-reflect", func(h *histEnv) {
		h.lg().Info("reflect", zap.Reflect("r", map[string]interface{}{"k": []int{1, 2, 3}, "s": strings.Repeat("r", h.g.Intn(3000))}))
	}},
	{"log-reflect-unencodable", func(h *histEnv) {
		h.lg().Info("reflect-bad", zap.Reflect("r", make(chan int)), zap.Reflect("f", func() {}))
	}},
	{"log-failing-object", func(h *histEnv) {
		h.lg().Warn("fail", zap.Object("o", pobj{h.g.Intn(4), true}), zap.Array("a", parr{2}))
	}},
	{"log-panicking-stringer", func(h *histEnv) {
		h.lg().Info("ps", zap.Stringer("s", pstringer{true}), zap.Stringer("nilptr", (*strings.Builder)(nil)))
	}},
	{"log-errors-array", func(h *histEnv) {
		n := h.g.Range(1, 20)
		es := make([]error, n)
		for i := range es {
			es[i] = causeErr{fmt.Sprint("e", i), []error{errors.New("c")}}
		}
		h.lg().Error("errs", zap.Errors("es", es), zap.Error(verboseErr{"v"}))
	}},
	{"log-deep-nesting", func(h *histEnv) { h.lg().Info("deep", zap.Object("o", pobj{6, false}), zap.Array("a", parr{6})) }},
	{"log-with-stack-shallow", func(h *histEnv) { h.lg().Error("stack", zap.Stack("s")) }},
	{"log-with-stack-depth-63-65", func(h *histEnv) {
		l := h.lg()
		recurse(h.g.Range(50, 70), func() { l.Error("stack-mid", zap.Stack("s")) })
	}},
	{"log-with-stack-depth-300", func(h *histEnv) {
		l := h.lg()
		recurse(300, func() { l.Error("stack-deep", zap.Stack("s")) })
	}},
	{"encoder-clone-add-encode", func(h *histEnv) {
		e := rng.Pick(h.g, h.encs).Clone()
		e.AddString("k", "v")
		e.OpenNamespace("open")
		_ = e.AddReflected("r", []int{1})
		e.AddInt("i", 1)
		if buf, err := e.EncodeEntry(zapcore.Entry{Level: zapcore.InfoLevel, Message: "direct", Time: fixedTime, Stack: "stack\ntrace"}, []zapcore.Field{zap.Int("f", 1)}); err == nil {
			_ = buf.String()
			buf.Free()
		}
	}},
	{"encoder-encode-not-freed", func(h *histEnv) {
		if buf, err := rng.Pick(h.g, h.encs).EncodeEntry(zapcore.Entry{Level: zapcore.WarnLevel, Message: "kept"}, nil); err == nil {
			_ = buf.Len() // deliberately never freed
		}
	}},
	{"with-chain-then-log", func(h *histEnv) {
		l := h.lg()
		for k := h.g.Range(1, 5); k > 0; k-- {
			l = l.With(zap.Int("w", k), zap.Namespace(fmt.Sprint("n", k)))
		}
		l.Info("chained", zap.Reflect("r", []string{"a"}))
	}},
	{"withlazy-then-log", func(h *histEnv) {
		h.lg().WithLazy(zap.Object("lz", pobj{1, false})).Named("lazy").Warn("lazy")
	}},
	{"gc-twice", func(h *histEnv) { runtime.GC(); runtime.GC() }},
	{"panic-level-recovered", func(h *histEnv) { quiet(func() { h.lg().Panic("history panic", zap.Int("p", 1)) }) }},
	{"dpanic", func(h *histEnv) { quiet(func() { h.lg().DPanic("history dpanic", zap.Stack("s")) }) }},
	{"fatal-with-goexit-hook", func(h *histEnv) {
		l := h.lg().WithOptions(zap.WithFatalHook(zapcore.WriteThenGoexit))
		done := make(chan struct{})
		go func() { defer close(done); l.Fatal("history fatal", zap.Error(errors.New("fatal cause"))) }()
		<-done
	}},
	{"panic-hook-goexit", func(h *histEnv) {
		l := h.lg().WithOptions(zap.WithPanicHook(zapcore.WriteThenGoexit))
		done := make(chan struct{})
		go func() { defer close(done); l.Panic("history panic goexit") }()
		<-done
	}},
	{"fatal-and-panic-with-returning-custom-hook", func(h *histEnv) {
		// a terminal hook that returns normally: the checked entry goes back to its pool
		k := h.g.Intn(len(h.loggers))
		s := h.sinks[k]
		l := h.loggers[k].WithOptions(zap.WithFatalHook(retHook{s}), zap.WithPanicHook(retHook{s}))
		l.Fatal("history fatal, hook returns")
		l.Panic("history panic, hook returns")
	}},
	{"long-lived-logger:entry-without-fields", func(h *histEnv) { rng.Pick(h.g, h.pers).l.Info("no fields") }},
	{"long-lived-logger:entry-with-fields", func(h *histEnv) {
		rng.Pick(h.g, h.pers).l.Warn("fields", zap.Int("status", 200), zap.Namespace("deeper"), zap.Reflect("r", []int{1}))
	}},
	{"long-lived-logger:derive-children-and-log", func(h *histEnv) {
		l := rng.Pick(h.g, h.pers).l
		c1 := l.With(zap.Int("c1", 1))
		c2 := l.With(zap.Namespace("c2ns"), zap.String("c2", "x"))
		c1.Info("child one")
		c2.Error("child two", zap.Error(errors.New("e")))
		l.WithLazy(zap.Int("lz", 1)).Named("lz").Debug("lazy child")
	}},
	{"zapio-writer-at-panic-level:line-in-pieces,panic-recovered,written-to-again", func(h *histEnv) {
		w := &zapio.Writer{Log: h.lg(), Level: zapcore.PanicLevel}
		_, _ = w.Write([]byte("first half of a line, "))
		quiet(func() { _, _ = w.Write([]byte("second half\nand a tail without its newline")) })
		quiet(func() { _ = w.Sync() })
		_, _ = w.Write([]byte("more bytes after the recovered panic, "))
		quiet(func() { _, _ = w.Write([]byte("and the end of that line\n")) })
		quiet(func() { _ = w.Close() })
	}},
	{"entries-with-given-callers", func(h *histEnv) {
		// the same program-counter values as the probe uses, with other files and lines
		for k, pc := range syntheticPCs {
			ent := zapcore.Entry{Level: zapcore.WarnLevel, Time: fixedTime, Message: "history entry with a caller of its own", Caller: zapcore.NewEntryCaller(pc, fmt.Sprintf("/opt/history/other%d.go", h.g.Intn(3)), 10+k, true)}
			if ce := h.lg().Core().Check(ent, nil); ce != nil {
				ce.Write()
			}
		}
	}},
	{"long-lived-logger:child-from-the-kept-field-slice", func(h *histEnv) {
		pl := rng.Pick(h.g, h.pers)
		pl.l.With(pl.sharedFs...).Debug("kept slice", pl.sharedFs...)
	}},
	{"long-lived-logger:sugared-calls-of-every-shape", func(h *histEnv) {
		s := rng.Pick(h.g, h.pers).l.Sugar()
		s.Infow("sugared", "a", 1, "b", "two", zap.Int("c", 3), "d", []int{4})
		s.With("w1", 1, "w2", 2).Warnw("sugared child", "e", 5)
		s.WithLazy("l1", 1).Debugw("sugared lazy child", "f", 6, "g", 7, "h", 8)
		s.Errorw("sugared error", "err", errors.New("x"), "i", 9, "j", 10, "k", 11, "l", 12)
	}},
	{"long-lived-logger:sugar-check-sync", func(h *histEnv) {
		l := rng.Pick(h.g, h.pers).l
		l.Sugar().Infow("sugar", "k", 1)
		if ce := l.Check(zapcore.ErrorLevel, "checked"); ce != nil && h.g.Bool() {
			ce.Write()
		}
		_ = l.Sync()
		quiet(func() { l.Panic("long-lived panic") })
	}},
	{"check-without-write", func(h *histEnv) { _ = h.lg().Check(zapcore.ErrorLevel, "checked, never written") }},
	{"check-write-with-after", func(h *histEnv) {
		if ce := h.lg().Check(zapcore.InfoLevel, "check-write"); ce != nil {
			ce.Write(zap.String("k", "v"), zap.Object("o", pobj{1, false}))
		}
	}},
	{"sugar-bad-pairs", func(h *histEnv) {
		h.lg().Sugar().Infow("sugar", 1, 2, "k", "v", errors.New("e1"), errors.New("e2"), "dangling")
	}},
	{"sugar-formats", func(h *histEnv) {
		s := h.lg().Sugar()
		s.Infof("%d %s %v", 1, "two", []int{3})
		s.Warnln("a", 1, "b")
		s.Error("x", 2, errors.New("y"))
		s.With("a", 1, 2, 3).Debugw("w", "k", pobj{0, false})
	}},
	{"slog-handler", func(h *histEnv) {
		l := slog.New(zapslog.NewHandler(h.lg().Core(), zapslog.WithCaller(true), zapslog.AddStacktraceAt(slog.LevelWarn)))
		l.With("a", 1).WithGroup("g").Error("slog history", "k", "v", slog.Group("gg", slog.Int("i", 1)))
	}},
	{"dict-inline-objects", func(h *histEnv) {
		h.lg().Info("dict", zap.Dict("d", zap.Int("x", 1), zap.Namespace("n"), zap.Int("y", 2)), zap.Inline(pobj{2, false}), zap.Objects("os", []pobj{{1, false}, {0, true}}))
	}},
	{"times-and-binary", func(h *histEnv) {
		h.lg().Info("tb", zap.Times("ts", []time.Time{tsA, {}}), zap.Binary("b", bytes.Repeat([]byte{0xDB}, h.g.Intn(2000))), zap.Durations("ds", []time.Duration{1, 2}))
	}},
	{"named-levels", func(h *histEnv) {
		l := h.lg().Named("a").Named("b")
		lvl := zapcore.Level(h.g.Range(-3, 8))
		if lvl == zapcore.FatalLevel {
			lvl = 7 // the default Fatal action would end the process
		}
		l.Log(lvl, "odd level")
	}},
	{"sync", func(h *histEnv) { _ = h.lg().Sync() }},
	{"console-multiline-message-and-stack", func(h *histEnv) {
		rng.Pick(h.g, h.loggers[2:4]).Error("line1\nline2\tcol", zap.String("k", "v\n"), zap.Stack("s"))
	}},
	{"map-object-encoder", func(h *histEnv) {
		m := zapcore.NewMapObjectEncoder()
		for _, f := range fieldSets[h.g.Intn(len(fieldSets))].mk() {
			quiet(func() { f.AddTo(m) })
		}
	}},
	{"burst-same-logger", func(h *histEnv) {
		l := h.lg()
		for k := h.g.Range(5, 40); k > 0; k-- {
			l.Info("burst", zap.Int("k", k), zap.String("pad", strings.Repeat("p", k*37)))
		}
	}},
	{"truncate-history-sinks", func(h *histEnv) {
		for _, s := range h.sinks {
			s.buf = s.buf[:0]
		}
	}},
}

// ---- baseline ----------------------------------------------------------------------------------

// baselineChild runs one probe as the first logging operation of this process.
func baselineChild(args []string) {
	var idx int
	fmt.Sscanf(args[1], "%d", &idx)
	b := runProbe(catalogue[idx], nil)
	_ = os.WriteFile(args[2], []byte(hex.EncodeToString(b)), 0o644)
	os.Exit(0)
}

// baselines obtains the first-in-process bytes of every probe from fresh processes.
func baselines(r *ev.Run, bin, dir string) (map[int][]byte, bool) {
	out := map[int][]byte{}
	var mu sync.Mutex
	var wg sync.WaitGroup
	sem := make(chan struct{}, 12)
	failed := atomic.Int64{}
	for _, p := range catalogue {
		wg.Add(1)
		sem <- struct{}{}
		go func(p probe) {
			defer wg.Done()
			defer func() { <-sem }()
			f := filepath.Join(dir, fmt.Sprintf("base-%d.hex", p.idx))
			cmd := exec.Command("timeout", "-s", "QUIT", "120", bin, "child", "C08", "baseline", fmt.Sprint(p.idx), f, "-")
			cmd.Env = append(os.Environ(), "GORACE=halt_on_error=0")
			_ = cmd.Run()
			hb, err := os.ReadFile(f)
			os.Remove(f)
			if err != nil {
				failed.Add(1)
				return
			}
			b, err := hex.DecodeString(string(hb))
			if err != nil {
				failed.Add(1)
				return
			}
			mu.Lock()
			out[p.idx] = b
			mu.Unlock()
		}(p)
	}
	wg.Wait()
	if failed.Load() > 0 {
		r.Inconclusive(fmt.Sprintf("c08: %d baseline processes produced no result", failed.Load()))
		return out, false
	}
	return out, true
}

func saveBaselines(m map[int][]byte, path string) error {
	var sb strings.Builder
	for k, v := range m {
		fmt.Fprintf(&sb, "%d %s\n", k, hex.EncodeToString(v))
	}
	return os.WriteFile(path, []byte(sb.String()), 0o644)
}

func loadBaselines(path string) (map[int][]byte, error) {
	b, err := os.ReadFile(path)
	if err != nil {
		return nil, err
	}
	out := map[int][]byte{}
	for _, l := range strings.Split(strings.TrimSpace(string(b)), "\n") {
		var k int
		var h string
		if _, err := fmt.Sscanf(l, "%d %s", &k, &h); err != nil {
			// empty payloads have no hex part
			fmt.Sscanf(l, "%d", &k)
			h = ""
		}
		v, err := hex.DecodeString(h)
		if err != nil {
			return nil, err
		}
		out[k] = v
	}
	return out, nil
}

// ---- judged comparison -------------------------------------------------------------------------

func diffAt(a, b []byte) int {
	n := len(a)
	if len(b) < n {
		n = len(b)
	}
	for i := 0; i < n; i++ {
		if a[i] != b[i] {
			return i
		}
	}
	return n
}

func around(b []byte, at int) string {
	lo, hi := at-60, at+60
	if lo < 0 {
		lo = 0
	}
	if hi > len(b) {
		hi = len(b)
	}
	return fmt.Sprintf("%q", b[lo:hi])
}

func compare(r *ev.Run, id string, p probe, got, want []byte, recent []string, mode string) bool {
	if bytes.Equal(got, []byte("\x00PROBE-DID-NOT-RETURN\x00")) {
		// a wall-clock limit is never a verdict
		r.Inconclusive(fmt.Sprintf("%s: probe %q did not return within 120s (%s)", id, p.name, mode))
		return false
	}
	r.Count("probe_comparisons", 1)
	r.Count("bytes_compared", int64(len(got)))
	if bytes.Equal(got, want) {
		return true
	}
	at := diffAt(got, want)
	class := "history-dependent-output"
	msg := fmt.Sprintf("probe %q (%s) produced different bytes than as the first call of a fresh process; first difference at byte %d:\n got  ...%s\n want ...%s", p.name, mode, at, around(got, at), around(want, at))
	if bytes.IndexByte(got, 0xDB) >= 0 && bytes.IndexByte(want, 0xDB) < 0 {
		class = "poison"
		msg = "freed-buffer poison (0xDB) is visible in the output: " + msg
	}
	if bytes.Contains(got, []byte("\x00PANIC\x00")) && !bytes.Contains(want, []byte("\x00PANIC\x00")) {
		class = "history-dependent-panic"
	}
	r.Violate(ev.Violation{Case: id, Class: class, Msg: msg + "\n preceding operations (latest last): " + strings.Join(recent, ", "), Witness: map[string]any{"probe": p.name, "recent_ops": recent, "got_hex": hex.EncodeToString(clipB(got, 4000)), "want_hex": hex.EncodeToString(clipB(want, 4000))}})
	return false
}

func clipB(b []byte, n int) []byte {
	if len(b) > n {
		return b[:n]
	}
	return b
}

// history runs sequential history i with probes in between.
func history(r *ev.Run, i int, base map[int][]byte) {
	id := fmt.Sprintf("c08/hist/%d", i)
	g := rng.For(r.Seed, "c08/hist", i)
	h := newHistEnv(g)
	nops := g.Range(60, 200)
	var recent []string
	lastOp, prevOp := "start", "start"
	for k := 0; k < nops; k++ {
		op := rng.Pick(g, histOps)
		var totalBefore int
		func() {
			defer func() {
				if x := recover(); x != nil {
					r.Count("history_ops_panicked", 1)
				}
			}()
			op.run(h)
		}()
		prevOp, lastOp = lastOp, op.name
		recent = append(recent, op.name)
		if len(recent) > 12 {
			recent = recent[1:]
		}
		r.Count("history_ops", 1)
		if g.P(1, 3) {
			p := rng.Pick(g, catalogue)
			totalBefore = 0
			for _, s := range h.sinks {
				totalBefore += len(s.buf)
			}
			got := runProbe(p, h.pers)
			r.SetAdd("lastop_x_probe", lastOp+"|"+p.name)
			r.SetAdd("op_pairs_before_probe", prevOp+">"+lastOp)
			if lastOp == "gc-twice" {
				r.Count("probes_right_after_gc", 1)
			}
			if !compare(r, id, p, got, base[p.idx], recent, "sequential history") {
				return
			}
			after := 0
			for _, s := range h.sinks {
				after += len(s.buf)
			}
			if after != totalBefore {
				r.Violate(ev.Violation{Case: id, Class: "cross-logger-leak", Msg: fmt.Sprintf("while probe %q ran on its own logger, %d bytes arrived at the sinks of unrelated loggers used earlier in the history (a pooled object carried a reference to them); preceding operations: %s", p.name, after-totalBefore, strings.Join(recent, ", "))})
				return
			}
		}
	}
	r.Eval(1)
	r.Distinct(fmt.Sprintf("hist|%d|%d", i, nops))
	if i < 2 {
		r.Sample(map[string]any{"history": i, "operations": nops, "last_operations": recent})
	}
}

// concurrent runs background histories on other loggers while probes are compared.
func concurrent(r *ev.Run, i int, base map[int][]byte) bool {
	id := fmt.Sprintf("c08/conc/%d", i)
	g := rng.For(r.Seed, "c08/conc", i)
	nbg := g.Range(2, 6)
	var stop atomic.Bool
	var wg sync.WaitGroup
	for b := 0; b < nbg; b++ {
		wg.Add(1)
		bg := g.Split()
		go func() {
			defer wg.Done()
			h := newHistEnv(bg)
			for !stop.Load() {
				op := rng.Pick(bg, histOps)
				if op.name == "gc-twice" && !bg.P(1, 10) {
					continue
				}
				func() {
					defer func() { _ = recover() }()
					op.run(h)
				}()
			}
		}()
	}
	nprobes := g.Range(40, 120)
	ok := true
	pers := buildAllPers()
	for k := 0; k < nprobes && ok; k++ {
		p := rng.Pick(g, catalogue)
		if g.P(1, 4) { // keep using the long-lived loggers between probes
			pl := rng.Pick(g, pers)
			pl.l.Info("no fields")
			pl.l.With(zap.Int("c", k)).Warn("child", zap.Int("f", 1))
		}
		got := runProbe(p, pers)
		r.SetAdd("concurrent_probes", p.name)
		ok = compare(r, id, p, got, base[p.idx], []string{fmt.Sprintf("%d background goroutines running random histories on other loggers", nbg)}, "concurrent with histories on other loggers")
		r.Count("concurrent_probe_comparisons", 1)
	}
	stop.Store(true)
	bgDone := make(chan struct{})
	go func() { wg.Wait(); close(bgDone) }()
	select {
	case <-bgDone:
	case <-time.After(90 * time.Second):
		// a background history never returned from a log call: not something this property decides,
		// and not worth the outer 30-minute watchdog
		r.Inconclusive(id + ": a background history did not return from a logging operation within 90s")
		return false
	}
	r.Eval(1)
	r.Distinct(fmt.Sprintf("conc|%d|%d|%d", i, nbg, nprobes))
	return ok
}

// Child dispatches baseline / sequential / concurrent workers.
func Child(r *ev.Run, args []string) {
	switch args[0] {
	case "baseline":
		baselineChild(args)
	case "seq", "conc":
		var lo, hi int
		fmt.Sscanf(args[1], "%d", &lo)
		fmt.Sscanf(args[2], "%d", &hi)
		base, err := loadBaselines(args[3])
		if err != nil {
			r.Inconclusive("c08: cannot load baselines: " + err.Error())
			return
		}
		if args[0] == "conc" {
			verifhook.Set(func(string) {
				if t := time.Now().UnixNano(); (t>>4)&3 == 0 {
					runtime.Gosched()
				}
			})
			defer verifhook.Set(nil)
		}
		for i := lo; i < hi && r.Violations() == 0; i++ {
			if args[0] == "seq" {
				history(r, i, base)
			} else if !concurrent(r, i, base) {
				break
			}
		}
	}
}

// Run is the C08 monitor (parent).
func Run(r *ev.Run) {
	r.Rule = fmt.Sprintf("baseline: each of the %d probes (6 logger configurations x 15 field sets in 4 call styles + slog probes; JSON and console; reflected values, errors with causes, error arrays, nested objects, open namespaces, failing and panicking fields, stack capture on a fixed call chain, long payloads) is run as the first logging operation of a fresh process; history i = f(seed,i): 60-200 operations drawn from %d kinds (generated hostile field trees, huge strings, open namespaces, reflection incl. unencodable values, failing/panicking fields, error arrays, stacks of depth <64/~64/300, encoder clones, buffers never freed, With/WithLazy chains, forced GC x2, Panic/DPanic/Fatal entries ended by panic or Goexit, Check without Write, sugar/slog front ends, failing cores and hooks, caller lookup failures, sampled-out entries) on 9 other loggers, with a random probe after a third of the operations compared byte-for-byte with its baseline; concurrent part (race build): 2-6 goroutines run histories on other loggers while probes are compared; freed buffers are poisoned; distinct = distinct histories", len(catalogue), len(histOps))
	work := ev.WorkDir()
	plain := os.Getenv("ZVERIFY_BIN")
	race := os.Getenv("ZVERIFY_RACE_BIN")
	if plain == "" {
		plain, _ = os.Executable()
	}
	basePlain, ok := baselines(r, plain, work)
	if !ok {
		return
	}
	r.Count("baseline_processes", int64(len(basePlain)))
	nonEmpty := 0
	for _, p := range catalogue {
		b := basePlain[p.idx]
		if bytes.IndexByte(b, 0xDB) >= 0 && !strings.Contains(p.name, "binary") {
			r.Violate(ev.Violation{Case: "c08/baseline/" + p.name, Class: "poison", Msg: "freed-buffer poison is visible in the output of the first call of a fresh process: " + around(b, bytes.IndexByte(b, 0xDB))})
		}
		if len(b) > 20 {
			nonEmpty++
		}
	}
	if nonEmpty < len(catalogue)*3/4 {
		r.Incomplete(fmt.Sprintf("only %d of %d baselines are non-empty", nonEmpty, len(catalogue)))
	}
	r.Count("baselines_with_output", int64(nonEmpty))
	bf := filepath.Join(work, "c08-baselines.txt")
	if err := saveBaselines(basePlain, bf); err != nil {
		r.Inconclusive("cannot save baselines: " + err.Error())
		return
	}
	defer os.Remove(bf)
	r.Sample(map[string]any{"probe": catalogue[1].name, "baseline_bytes": string(clipB(basePlain[1], 300))})

	type job struct {
		mode   string
		lo, hi int
	}
	var jobs []job
	nseq, bseq := r.N(1000, 30000), r.N(100, 500)
	nconc, bconc := r.N(120, 4000), r.N(20, 100)
	if r.Only != "" {
		var k int
		if n, _ := fmt.Sscanf(r.Only, "c08/hist/%d", &k); n == 1 {
			jobs = append(jobs, job{"seq", k, k + 1})
		} else if n, _ := fmt.Sscanf(r.Only, "c08/conc/%d", &k); n == 1 {
			for j := 0; j < 10; j++ {
				jobs = append(jobs, job{"conc", k, k + 1})
			}
		}
	} else {
		for lo := 0; lo < nseq; lo += bseq {
			jobs = append(jobs, job{"seq", lo, min(lo+bseq, nseq)})
		}
		for lo := 0; lo < nconc; lo += bconc {
			jobs = append(jobs, job{"conc", lo, min(lo+bconc, nconc)})
		}
	}
	// baselines of the race binary must agree with the plain ones (same source, same probes)
	var raceBaseFile string
	if race != "" {
		baseRace, ok := baselines(r, race, work)
		if ok {
			same := 0
			for k, v := range basePlain {
				if bytes.Equal(baseRace[k], v) {
					same++
				}
			}
			r.Count("race_build_baselines_identical_to_plain", int64(same))
			raceBaseFile = filepath.Join(work, "c08-baselines-race.txt")
			_ = saveBaselines(baseRace, raceBaseFile)
			defer os.Remove(raceBaseFile)
		}
	}
	ch := make(chan job)
	var wg sync.WaitGroup
	for w := 0; w < 6; w++ {
		wg.Add(1)
		go func() {
			defer wg.Done()
			for j := range ch {
				o := mon.ChildOpts{Prop: "C08", Args: []string{j.mode, fmt.Sprint(j.lo), fmt.Sprint(j.hi), bf}, Timeout: 30 * time.Minute, CrashIsViolation: true}
				if j.mode == "conc" {
					if raceBaseFile == "" {
						continue
					}
					o.Race = true
					o.Args[3] = raceBaseFile
					o.Env = []string{"GOMAXPROCS=8"}
				}
				oc := mon.RunChild(r, o)
				mon.Judge(r, o, oc, fmt.Sprintf("c08/%s-batch/%d-%d", j.mode, j.lo, j.hi))
			}
		}()
	}
	for _, j := range jobs {
		ch <- j
	}
	close(ch)
	wg.Wait()
	r.Extra("probes", len(catalogue))
	r.Extra("history_operation_kinds", len(histOps))
	r.Extra("lastop_x_probe_cells_hit", r.SetLen("lastop_x_probe"))
	r.Extra("lastop_x_probe_cells_total", len(catalogue)*len(histOps))
	if r.Only == "" && r.Violations() == 0 {
		if r.Counter("probe_comparisons") < 1000 {
			r.Incomplete("fewer than 1000 probe comparisons were made")
		}
		if race != "" && r.Counter("concurrent_probe_comparisons") == 0 {
			r.Incomplete("the concurrent part made no comparison")
		}
	}
}

func min(a, b int) int {
	if a < b {
		return a
	}
	return b
}
