// Package c16 monitors C16: console encoder lines have the documented shape
// with a valid JSON context.
package c16

import (
	"fmt"
	"go.uber.org/zap"
	"net/url"
	"runtime"
	"strings"
	"sync"
	"sync/atomic"
	"time"

	"go.uber.org/zap/verif/internal/ev"
	"go.uber.org/zap/verif/internal/gen"
	"go.uber.org/zap/verif/internal/jsonv"
	"go.uber.org/zap/verif/internal/rec"
	"go.uber.org/zap/verif/internal/ref"
	"go.uber.org/zap/verif/internal/rng"
	"go.uber.org/zap/zapcore"
)

// colRec records what a sub-encoder appends, as raw values.
type colRec struct{ elems []interface{} }

func (c *colRec) AppendBool(v bool)             { c.elems = append(c.elems, v) }
func (c *colRec) AppendByteString(v []byte)     { c.elems = append(c.elems, string(v)) }
func (c *colRec) AppendComplex128(v complex128) { c.elems = append(c.elems, v) }
func (c *colRec) AppendComplex64(v complex64)   { c.elems = append(c.elems, v) }
func (c *colRec) AppendFloat64(v float64)       { c.elems = append(c.elems, v) }
func (c *colRec) AppendFloat32(v float32)       { c.elems = append(c.elems, v) }
func (c *colRec) AppendInt(v int)               { c.elems = append(c.elems, v) }
func (c *colRec) AppendInt64(v int64)           { c.elems = append(c.elems, v) }
func (c *colRec) AppendInt32(v int32)           { c.elems = append(c.elems, v) }
func (c *colRec) AppendInt16(v int16)           { c.elems = append(c.elems, v) }
func (c *colRec) AppendInt8(v int8)             { c.elems = append(c.elems, v) }
func (c *colRec) AppendString(v string)         { c.elems = append(c.elems, v) }
func (c *colRec) AppendUint(v uint)             { c.elems = append(c.elems, v) }
func (c *colRec) AppendUint64(v uint64)         { c.elems = append(c.elems, v) }
func (c *colRec) AppendUint32(v uint32)         { c.elems = append(c.elems, v) }
func (c *colRec) AppendUint16(v uint16)         { c.elems = append(c.elems, v) }
func (c *colRec) AppendUint8(v uint8)           { c.elems = append(c.elems, v) }
func (c *colRec) AppendUintptr(v uintptr)       { c.elems = append(c.elems, v) }

// columns computes the metadata columns the statement requires, in order.
func columns(c *gen.Case) []string {
	z := c.Cfg.Zap()
	e := c.Ent
	var cols []string
	add := func(r *colRec) {
		for _, x := range r.elems {
			cols = append(cols, fmt.Sprint(x))
		}
	}
	if z.TimeKey != "" && z.EncodeTime != nil && !e.Time.IsZero() {
		// layout-based stock encoders: the expected text is formatted here, with the documented layout
		layout := ""
		switch c.Cfg.Time {
		case gen.TimeISO8601:
			layout = "2006-01-02T15:04:05.000Z0700"
		case gen.TimeRFC3339:
			layout = time.RFC3339
		case gen.TimeRFC3339Nano:
			layout = time.RFC3339Nano
		case gen.TimeLayout:
			layout = c.Cfg.Layout
		}
		if layout != "" {
			cols = append(cols, e.Time.Format(layout))
		} else {
			r := &colRec{}
			z.EncodeTime(e.Time, r)
			add(r)
		}
	}
	if z.LevelKey != "" && z.EncodeLevel != nil {
		r := &colRec{}
		z.EncodeLevel(e.Level, r)
		add(r)
	}
	if e.LoggerName != "" && z.NameKey != "" {
		r := &colRec{}
		if z.EncodeName != nil {
			z.EncodeName(e.LoggerName, r)
		} else {
			r.AppendString(e.LoggerName)
		}
		add(r)
	}
	if e.Caller.Defined {
		if z.CallerKey != "" && z.EncodeCaller != nil {
			r := &colRec{}
			z.EncodeCaller(e.Caller, r)
			add(r)
		}
		if z.FunctionKey != "" {
			cols = append(cols, e.Caller.Function)
		}
	}
	if z.MessageKey != "" {
		cols = append(cols, e.Message)
	}
	return cols
}

// prefixes returns the accepted renderings of the column list: joined by the
// separator, and (don't-care) without the separators that belong to empty-text columns.
func prefixes(cols []string, sep string) []string {
	strict := strings.Join(cols, sep)
	out := []string{strict}
	hasEmpty := false
	for _, c := range cols {
		if c == "" {
			hasEmpty = true
		}
	}
	if hasEmpty {
		// what the documented "separator only between things" reading gives
		var b strings.Builder
		for i, c := range cols {
			last := i == len(cols)-1
			if !last {
				if i > 0 {
					b.WriteString(sep)
				}
				b.WriteString(c)
				continue
			}
			// the message column gets a separator only if something precedes it
			if b.Len() > 0 {
				b.WriteString(sep)
			}
			b.WriteString(c)
		}
		if b.String() != strict {
			out = append(out, b.String())
		}
		var nz []string
		for _, c := range cols {
			if c != "" {
				nz = append(nz, c)
			}
		}
		out = append(out, strings.Join(nz, sep))
	}
	return out
}

// encodeConsole encodes the case's entry. history > 0 first sends earlier entries through the
// same encoder (1: one without call-site fields; 2: one without and one with fields): the
// judged line must not depend on them.
var otherZone = time.FixedZone("verif+0545", 5*3600+45*60)

// earlier is the entry sent ahead of the judged one: the same instant, as seen in another time zone.
func earlier(e zapcore.Entry) zapcore.Entry {
	if _, off := e.Time.Zone(); off == 5*3600+45*60 {
		e.Time = e.Time.UTC()
	} else {
		e.Time = e.Time.In(otherZone)
	}
	return e
}

func encodeConsole(c *gen.Case, viaCore bool, history int) ([]byte, string) {
	enc := zapcore.NewConsoleEncoder(c.Cfg.Zap())
	fields := gen.ZapFields(c.Fields)
	if viaCore {
		sink := &rec.Sink{}
		core := zapcore.NewCore(enc, sink, zapcore.Level(-128))
		for _, w := range c.Ctx {
			core = core.With(gen.ZapFields(w))
		}
		if history >= 1 {
			_ = core.Write(earlier(c.Ent), nil)
		}
		if history >= 2 {
			_ = core.Write(c.Ent, fields)
		}
		sink.Reset()
		if err := core.Write(c.Ent, fields); err != nil {
			return nil, "core.Write: " + err.Error()
		}
		ws := sink.Writes()
		if len(ws) != 1 {
			return nil, fmt.Sprintf("%d sink writes for one entry", len(ws))
		}
		return ws[0], ""
	}
	for _, w := range c.Ctx {
		clone := enc.Clone()
		for _, f := range w {
			f.F.AddTo(clone)
		}
		enc = clone
	}
	if history >= 1 {
		if b, err := enc.EncodeEntry(earlier(c.Ent), nil); err == nil {
			b.Free()
		}
	}
	if history >= 2 {
		if b, err := enc.EncodeEntry(c.Ent, fields); err == nil {
			b.Free()
		}
	}
	buf, err := enc.EncodeEntry(c.Ent, fields)
	if err != nil {
		return nil, "EncodeEntry: " + err.Error()
	}
	line := append([]byte(nil), buf.Bytes()...)
	buf.Free()
	return line, ""
}

func jsonContext(c *gen.Case) (*jsonv.Value, bool) {
	cfg := c.Cfg
	// the JSON encoder with every metadata key off emits only the fields
	cfg.MessageKey, cfg.LevelKey, cfg.TimeKey, cfg.NameKey, cfg.CallerKey, cfg.FunctionKey, cfg.StacktraceKey = "", "", "", "", "", "", ""
	cfg.SkipLineEnding = true
	enc := zapcore.NewJSONEncoder(cfg.Zap())
	for _, w := range c.Ctx {
		clone := enc.Clone()
		for _, f := range w {
			f.F.AddTo(clone)
		}
		enc = clone
	}
	buf, err := enc.EncodeEntry(c.Ent, gen.ZapFields(c.Fields))
	if err != nil {
		return nil, false
	}
	defer buf.Free()
	v, err := jsonv.ParseObjectLine(append([]byte(nil), buf.Bytes()...))
	return v, err == nil
}

func judge(c *gen.Case, line []byte, decodable bool) (string, string) {
	s := string(line)
	le := c.Cfg.EffLineEnding()
	if !strings.HasSuffix(s, le) {
		return "line-ending", fmt.Sprintf("line does not end with the configured line ending %q", le)
	}
	s = s[:len(s)-len(le)]
	if c.Cfg.StacktraceKey != "" && c.Ent.Stack != "" {
		suf := "\n" + c.Ent.Stack
		if !strings.HasSuffix(s, suf) {
			return "stack", "the stack trace does not follow on the subsequent lines"
		}
		s = s[:len(s)-len(suf)]
	}
	sep := c.Cfg.EffSeparator()
	cols := columns(c)
	expFields := c.ExpectFields()
	var rest string
	matched := false
	var tried []string
	for _, p := range prefixes(cols, sep) {
		tried = append(tried, p)
		if !strings.HasPrefix(s, p) {
			continue
		}
		r := s[len(p):]
		// the remainder must be empty or [sep] + one JSON object
		if r == "" || strings.HasPrefix(r, sep+"{") || (p == "" && strings.HasPrefix(r, "{")) {
			rest, matched = r, true
			break
		}
	}
	if !matched {
		return "columns", fmt.Sprintf("line %q does not consist of the columns %q joined by %q (+ context)", clip(s), cols, sep)
	}
	if rest == "" {
		if len(expFields.Members) != 0 {
			return "context-missing", fmt.Sprintf("fields exist (%d members expected) but the line has no context object", len(expFields.Members))
		}
		return "", ""
	}
	if len(c.AllFields()) == 0 {
		return "context-without-fields", fmt.Sprintf("no fields exist but the line carries a context %q", clip(rest))
	}
	ctx := rest
	if strings.HasPrefix(rest, sep+"{") {
		ctx = rest[len(sep):]
	}
	v, err := jsonv.Parse([]byte(ctx))
	if err != nil || v.Kind != jsonv.Obj {
		return "context-invalid", fmt.Sprintf("context %q is not one valid JSON object: %v", clip(ctx), err)
	}
	for i := 0; i < len(ctx); i++ {
		if ctx[i] < 0x20 {
			return "context-invalid", fmt.Sprintf("raw control byte 0x%02x inside the context object", ctx[i])
		}
	}
	if len(v.Members) == 0 && len(expFields.Members) == 0 {
		return "", ""
	}
	if jv, ok := jsonContext(c); ok {
		if !jsonv.Equal(jv, v) {
			return "context-differs-from-json", fmt.Sprintf("context %s differs from what the JSON encoder emits for the same fields: %s", clip(jsonv.Render(v)), clip(jsonv.Render(jv)))
		}
	}
	if decodable {
		if err := ref.Compare(expFields, v, c.Cfg.Repr(), "$ctx"); err != nil {
			return "context-values", fmt.Sprintf("context does not hold the logged fields: %v", err)
		}
	}
	return "", ""
}

func clip(s string) string {
	if len(s) > 300 {
		return s[:300] + "..."
	}
	return s
}

// Run is the C16 monitor.
func startNoise(r *ev.Run) func() {
	var stop atomic.Bool
	var wg sync.WaitGroup
	var lines atomic.Int64
	for w := 0; w < 3; w++ {
		wg.Add(1)
		go func(w int) {
			defer wg.Done()
			cfg := zapcore.EncoderConfig{MessageKey: "M", LevelKey: "L", TimeKey: "T", NameKey: "N", CallerKey: "C", FunctionKey: "F", StacktraceKey: "S",
				EncodeLevel: zapcore.CapitalLevelEncoder, EncodeTime: zapcore.RFC3339NanoTimeEncoder, EncodeDuration: zapcore.StringDurationEncoder, EncodeCaller: zapcore.ShortCallerEncoder,
				ConsoleSeparator: fmt.Sprintf("<noise%d>", w)}
			enc := zapcore.NewConsoleEncoder(cfg)
			ent := zapcore.Entry{Level: zapcore.WarnLevel, Time: time.Unix(1_600_000_000+int64(w), 0).UTC(), LoggerName: fmt.Sprintf("noise%d", w), Message: "noise",
				Caller: zapcore.EntryCaller{Defined: true, File: "/noise/n.go", Line: w, Function: "noise.F"}, Stack: "noise stack"}
			for k := 0; !stop.Load(); k++ {
				if buf, err := enc.EncodeEntry(ent, []zapcore.Field{zap.Int("noise", k), zap.Namespace("nn"), zap.Strings("ss", []string{"n", "o"})}); err == nil {
					buf.Free()
				}
				lines.Add(1)
				if k%64 == 0 {
					runtime.Gosched()
				}
			}
		}(w)
	}
	return func() {
		stop.Store(true)
		wg.Wait()
		r.Count("console_lines_encoded_concurrently_by_other_goroutines", lines.Load())
	}
}

// a console logger assembled by zap.Config (round 8): the encoder configuration is the user's, whatever
// DisableCaller / DisableStacktrace say about what the *logger* annotates - an option given to Build or
// WithOptions can switch the annotation back on, and a core can be handed entries that carry them
var (
	cfgSinkOnce sync.Once
	cfgSink     = &rec.Sink{}
)

type memSink struct{ *rec.Sink }

func (memSink) Close() error { return nil }

func encodeViaConfig(c *gen.Case, variant int) ([]byte, string, bool) {
	cfgSinkOnce.Do(func() {
		_ = zap.RegisterSink("verifc16", func(*url.URL) (zap.Sink, error) { return memSink{cfgSink}, nil })
	})
	zc := zap.Config{
		Level:             zap.NewAtomicLevelAt(zapcore.DebugLevel),
		Encoding:          "console",
		EncoderConfig:     c.Cfg.Zap(),
		OutputPaths:       []string{"verifc16://mem"},
		DisableCaller:     variant&1 == 1,
		DisableStacktrace: variant&2 == 2,
		Development:       variant&4 == 4,
	}
	lg, err := zc.Build(zap.WithCaller(true), zap.AddStacktrace(zapcore.DebugLevel))
	if err != nil {
		return nil, "", false // e.g. a time key without a time encoder: Config refuses that
	}
	core := lg.Core()
	for _, w := range c.Ctx {
		core = core.With(gen.ZapFields(w))
	}
	cfgSink.Reset()
	if err := core.Write(c.Ent, gen.ZapFields(c.Fields)); err != nil {
		return nil, "core.Write: " + err.Error(), true
	}
	ws := cfgSink.Writes()
	if len(ws) != 1 {
		return nil, fmt.Sprintf("%d sink writes for one entry", len(ws)), true
	}
	return ws[0], "", true
}

func Run(r *ev.Run) {
	r.Rule = "for each of the 128 presence patterns (six metadata keys + context present/absent) x N seeded cases: console EncoderConfig (built-in, nil and no-op sub-encoders, separators incl. multi-byte and '{', line endings) x entry x With-chain x fields; the line must be exactly the present columns (learned by running the configured sub-encoder against a recorder) joined by the separator, then separator + one valid JSON object equal to the JSON encoder's fields for the same chain, then the stack, then the line ending; distinct = distinct (pattern, config, shape); every fourth case also through the core of a logger built by zap.Config (8 Disable*/Development combinations)"
	per := r.N(400, 20000)
	// other loggers of the same process keep encoding console entries of their own (other columns, other
	// fields) on other goroutines while the judged lines are produced
	stopNoise := startNoise(r)
	defer stopNoise()
	for pat := 0; pat < 128; pat++ {
		for k := 0; k < per; k++ {
			i := pat*per + k
			id := fmt.Sprintf("c16/%d/%d", pat, k)
			if !r.Want(id) {
				continue
			}
			decodable := k%2 == 0
			g := gen.New(rng.For(r.Seed, "c16", i), gen.Opts{Hostile: !decodable, MaxDepth: 3, FaultNum: 1, FaultDen: 12, UniqueKeys: k%3 == 0})
			c := g.Case(!decodable)
			set := func(bit int, key *string, def string) {
				if pat>>bit&1 == 1 {
					if *key == "" {
						*key = def
					}
				} else {
					*key = ""
				}
			}
			set(0, &c.Cfg.TimeKey, "T")
			set(1, &c.Cfg.LevelKey, "L")
			set(2, &c.Cfg.NameKey, "N")
			set(3, &c.Cfg.CallerKey, "C")
			set(4, &c.Cfg.FunctionKey, "F")
			set(5, &c.Cfg.MessageKey, "M")
			if pat>>6&1 == 0 {
				c.Ctx, c.Fields = nil, nil
			} else if len(c.AllFields()) == 0 {
				c.Fields = g.Fields(2, 2)
			}
			if k%4 != 3 { // mostly let the entry carry the values so that the key decides
				if c.Ent.Time.IsZero() {
					c.Ent.Time = time.Unix(1700000000, 123456789).UTC()
				}
				if c.Ent.LoggerName == "" {
					c.Ent.LoggerName = "svc"
				}
				if !c.Ent.Caller.Defined {
					c.Ent.Caller = zapcore.EntryCaller{Defined: true, File: "/a/b/c.go", Line: 7, Function: "pkg.F"}
				}
			}
			if !decodable && g.R.P(1, 2) {
				c.Cfg.ConsoleSeparator = rng.Pick(g.R, []string{"", " | ", "→", "{", " ", "\t\t", "}{", "%", "%d", " %v ", "%%", "%!", "\\", "\""})
			}
			r.Eval(1)
			r.SetAdd("presence_patterns", fmt.Sprint(pat))
			r.SetAdd("separators", fmt.Sprintf("%q", c.Cfg.EffSeparator()))
			r.Distinct(fmt.Sprintf("%d|%d%d%d%d%d|w%d|f%d|%q", pat, c.Cfg.Level, c.Cfg.Time, c.Cfg.Dur, c.Cfg.Caller, c.Cfg.Name, len(c.Ctx), len(c.Fields), c.Cfg.ConsoleSeparator))
			if i < 2 {
				r.Sample(c.Describe())
			}
			r.SetAdd("earlier_entries_on_the_same_encoder", fmt.Sprint((i+pat)%3))
			for _, via := range []bool{false, true} {
				var line []byte
				var problem string
				if p := ev.Guard(func() { line, problem = encodeConsole(c, via, (i+pat)%3) }); p != "" {
					r.Violate(ev.Violation{Case: id, Class: "console-panic", Msg: "console encoder panicked: " + p, Witness: c.Describe()})
					break
				}
				if problem != "" {
					r.Violate(ev.Violation{Case: id, Class: "console-error", Msg: problem, Witness: c.Describe()})
					break
				}
				if class, msg := judge(c, line, decodable); class != "" {
					w := c.Describe()
					w["line"] = string(line)
					r.Violate(ev.Violation{Case: id, Class: class, Msg: fmt.Sprintf("(viaCore=%v) %s; line=%q", via, msg, clip(string(line))), Witness: w})
					break
				}
				r.Count("context_comparisons", 1)
			}
			if k%4 == 1 {
				variant := (i / 4) % 8
				var line []byte
				var problem string
				var built bool
				if p := ev.Guard(func() { line, problem, built = encodeViaConfig(c, variant) }); p != "" {
					r.Violate(ev.Violation{Case: id, Class: "console-panic", Msg: "console logger built by zap.Config panicked: " + p, Witness: c.Describe()})
				} else if problem != "" {
					r.Violate(ev.Violation{Case: id, Class: "console-error", Msg: "(zap.Config) " + problem, Witness: c.Describe()})
				} else if built {
					r.Count("lines_through_a_core_built_by_zap_Config", 1)
					r.SetAdd("config_variants(DisableCaller|DisableStacktrace<<1|Development<<2)", fmt.Sprint(variant))
					if class, msg := judge(c, line, decodable); class != "" {
						w := c.Describe()
						w["line"] = string(line)
						w["config"] = fmt.Sprintf("DisableCaller=%v DisableStacktrace=%v Development=%v", variant&1 == 1, variant&2 == 2, variant&4 == 4)
						r.Violate(ev.Violation{Case: id, Class: class, Msg: fmt.Sprintf("(core of a logger built by zap.Config, DisableCaller=%v DisableStacktrace=%v) %s; line=%q", variant&1 == 1, variant&2 == 2, msg, clip(string(line))), Witness: w})
					}
				}
			}
		}
	}
	if r.Only == "" && r.SetLen("presence_patterns") != 128 {
		r.Incomplete(fmt.Sprintf("only %d of 128 presence patterns were exercised", r.SetLen("presence_patterns")))
	}
}
