// Package c06 monitors C06: Panic and Fatal always terminate, after the entry
// is written and flushed.
package c06

import (
	"bytes"
	"errors"
	"fmt"
	"log"
	"os"
	"path/filepath"
	"runtime"
	"strconv"
	"strings"
	"sync/atomic"
	"syscall"
	"time"

	"go.uber.org/zap"
	"go.uber.org/zap/verif/internal/ev"
	"go.uber.org/zap/verif/internal/mon"
	"go.uber.org/zap/verif/internal/rec"
	"go.uber.org/zap/verif/internal/rng"
	"go.uber.org/zap/zapcore"
	"go.uber.org/zap/zapgrpc"
	"go.uber.org/zap/zaptest/observer"
)

type fe struct {
	name   string
	levels []zapcore.Level // levels this front end can log at (among DPanic, Panic, Fatal)
	call   func(l *zap.Logger, lvl zapcore.Level, msg string)
}

var dpf = []zapcore.Level{zapcore.DPanicLevel, zapcore.PanicLevel, zapcore.FatalLevel}

func frontEnds() []fe {
	sug := func(f func(s *zap.SugaredLogger, lvl zapcore.Level, msg string)) func(*zap.Logger, zapcore.Level, string) {
		return func(l *zap.Logger, lvl zapcore.Level, msg string) { f(l.Sugar(), lvl, msg) }
	}
	return []fe{
		{"Logger.<level>", dpf, func(l *zap.Logger, lvl zapcore.Level, m string) {
			switch lvl {
			case zapcore.DPanicLevel:
				l.DPanic(m)
			case zapcore.PanicLevel:
				l.Panic(m)
			default:
				l.Fatal(m)
			}
		}},
		{"Logger.Log", dpf, func(l *zap.Logger, lvl zapcore.Level, m string) { l.Log(lvl, m) }},
		{"Logger.Check+Write", dpf, func(l *zap.Logger, lvl zapcore.Level, m string) {
			if ce := l.Check(lvl, m); ce != nil {
				ce.Write(zap.Int("k", 1))
			}
		}},
		{"Sugar.<level>", dpf, sug(func(s *zap.SugaredLogger, lvl zapcore.Level, m string) {
			switch lvl {
			case zapcore.DPanicLevel:
				s.DPanic(m)
			case zapcore.PanicLevel:
				s.Panic(m)
			default:
				s.Fatal(m)
			}
		})},
		{"Sugar.<level>f", dpf, sug(func(s *zap.SugaredLogger, lvl zapcore.Level, m string) {
			switch lvl {
			case zapcore.DPanicLevel:
				s.DPanicf("%s", m)
			case zapcore.PanicLevel:
				s.Panicf("%s", m)
			default:
				s.Fatalf("%s", m)
			}
		})},
		{"Sugar.<level>w", dpf, sug(func(s *zap.SugaredLogger, lvl zapcore.Level, m string) {
			switch lvl {
			case zapcore.DPanicLevel:
				s.DPanicw(m, "k", 1)
			case zapcore.PanicLevel:
				s.Panicw(m, "k", 1)
			default:
				s.Fatalw(m, "k", 1)
			}
		})},
		{"Sugar.<level>ln", dpf, sug(func(s *zap.SugaredLogger, lvl zapcore.Level, m string) {
			switch lvl {
			case zapcore.DPanicLevel:
				s.DPanicln(m)
			case zapcore.PanicLevel:
				s.Panicln(m)
			default:
				s.Fatalln(m)
			}
		})},
		{"Sugar.Log", dpf, sug(func(s *zap.SugaredLogger, lvl zapcore.Level, m string) { s.Log(lvl, m) })},
		{"Sugar.Logf", dpf, sug(func(s *zap.SugaredLogger, lvl zapcore.Level, m string) { s.Logf(lvl, "%s", m) })},
		{"Sugar.Logw", dpf, sug(func(s *zap.SugaredLogger, lvl zapcore.Level, m string) { s.Logw(lvl, m, "k", 1) })},
		{"Sugar.Logln", dpf, sug(func(s *zap.SugaredLogger, lvl zapcore.Level, m string) { s.Logln(lvl, m) })},
		{"NewStdLogAt", dpf, func(l *zap.Logger, lvl zapcore.Level, m string) {
			sl, err := zap.NewStdLogAt(l, lvl)
			if err != nil {
				panic("harness: " + err.Error())
			}
			sl.Print(m)
		}},
		{"RedirectStdLogAt", dpf, func(l *zap.Logger, lvl zapcore.Level, m string) {
			undo, err := zap.RedirectStdLogAt(l, lvl)
			if err != nil {
				panic("harness: " + err.Error())
			}
			defer undo()
			log.Print(m)
		}},
		{"zapgrpc.Fatal", []zapcore.Level{zapcore.FatalLevel}, func(l *zap.Logger, _ zapcore.Level, m string) { zapgrpc.NewLogger(l).Fatal(m) }},
		{"zapgrpc.Fatalf", []zapcore.Level{zapcore.FatalLevel}, func(l *zap.Logger, _ zapcore.Level, m string) { zapgrpc.NewLogger(l).Fatalf("%s", m) }},
		{"zapgrpc.Fatalln", []zapcore.Level{zapcore.FatalLevel}, func(l *zap.Logger, _ zapcore.Level, m string) { zapgrpc.NewLogger(l).Fatalln(m) }},
	}
}

// msgKinds: the final message is ordinary, blank (the std-log bridge trims to nothing), or larger
// than the buffered sink's buffer (bufio then bypasses the buffer).
var msgKinds = []string{"normal", "blank", "space", "large"}

func mkMsg(kind string, tag string) string {
	switch kind {
	case "blank":
		return ""
	case "space":
		return " "
	case "large":
		return tag + "-" + strings.Repeat("L", 6000)
	}
	return tag
}

// coreKinds are the compositions a case is run over.
var coreKinds = []string{"json", "nop", "level-above-fatal", "sampler-drops-all", "tee-with-disabled-branch", "lazy", "increase-level", "buffered-sink", "observer+json",
	// the write itself fails (closed file, full disk, a hook returning an error): the terminal action still runs
	"failing-sink", "tee(failing-sink,json)", "hooks-returning-error",
	// another goroutine keeps writing to the same locked sink while the terminal entry is logged
	"locked-sink-contended",
	// a tee member that is switched off while a child logger is derived and switched on afterwards: the
	// final entry goes through the child and must reach both members
	"tee-member-switched-on-after-child-derived",
	// one core over Lock(multi(a sink whose Sync always fails the way a terminal's does, a buffered
	// sink)), which has already handled an earlier terminal entry: the final entry must be flushed too
	"multi(unsyncable-sink,buffered-sink)-after-an-earlier-terminal-entry",
	// a buffered sink that was used and then stopped (a deferred Stop during shutdown) before the final
	// entry arrives: writes after Stop are still accepted, so the final entry must reach the sink too
	"buffered-sink-already-stopped"}

var inProcessOnly = map[string]bool{"tee-member-switched-on-after-child-derived": true, "multi(unsyncable-sink,buffered-sink)-after-an-earlier-terminal-entry": true, "buffered-sink-already-stopped": true}

// intruderHook is the hook of a derived logger; it returns, so if the parent ran it the parent's call
// would come back as if nothing terminal had happened.
type intruderHook struct{}

func (intruderHook) OnWrite(*zapcore.CheckedEntry, []zapcore.Field) {}

type quietHook struct{}

func (quietHook) OnWrite(*zapcore.CheckedEntry, []zapcore.Field) {}

// failWS fails every call.
type failWS struct{}

func (failWS) Write(p []byte) (int, error) { return 0, errors.New("c06 sink failure") }
func (failWS) Sync() error                 { return errors.New("c06 sync failure") }

type built struct {
	core     zapcore.Core
	sinks    []*rec.Sink // raw sinks behind IO cores that accept the entry
	logs     *observer.ObservedLogs
	enabled  bool // the entry reaches at least one core
	buffered *zapcore.BufferedWriteSyncer
	// contended: a background goroutine writes to the same locked sink; only "some Sync follows the
	// final entry's write" can be required then
	contended bool
	stop      func()
	// derive, when set, turns the constructed logger into the one the final entry is logged through
	derive func(*zap.Logger) *zap.Logger
}

var cfg = zapcore.EncoderConfig{MessageKey: "msg", LevelKey: "level", EncodeLevel: zapcore.LowercaseLevelEncoder}

func buildCore(kind string, ws func(*rec.Sink) zapcore.WriteSyncer) built {
	io := func(s *rec.Sink, lvl zapcore.LevelEnabler) zapcore.Core {
		return zapcore.NewCore(zapcore.NewJSONEncoder(cfg), ws(s), lvl)
	}
	s := &rec.Sink{}
	switch kind {
	case "json":
		return built{core: io(s, zapcore.DebugLevel), sinks: []*rec.Sink{s}, enabled: true}
	case "nop":
		return built{core: zapcore.NewNopCore()}
	case "level-above-fatal":
		return built{core: io(s, zapcore.FatalLevel+1)}
	case "sampler-drops-all":
		return built{core: zapcore.NewSamplerWithOptions(io(s, zapcore.DebugLevel), time.Hour, 0, 0)}
	case "tee-with-disabled-branch":
		s2 := &rec.Sink{}
		return built{core: zapcore.NewTee(io(s2, zapcore.FatalLevel+1), io(s, zapcore.DebugLevel), zapcore.NewNopCore()), sinks: []*rec.Sink{s}, enabled: true}
	case "lazy":
		return built{core: zapcore.NewLazyWith(io(s, zapcore.DebugLevel), []zapcore.Field{zap.Int("lz", 1)}), sinks: []*rec.Sink{s}, enabled: true}
	case "increase-level":
		c, err := zapcore.NewIncreaseLevelCore(io(s, zapcore.DebugLevel), zapcore.ErrorLevel)
		if err != nil {
			panic(err)
		}
		return built{core: c, sinks: []*rec.Sink{s}, enabled: true}
	case "tee-member-switched-on-after-child-derived":
		s2 := &rec.Sink{}
		gate := zap.NewAtomicLevelAt(zapcore.FatalLevel + 1)
		return built{core: zapcore.NewTee(io(s, gate), io(s2, zapcore.DebugLevel)), sinks: []*rec.Sink{s, s2}, enabled: true,
			derive: func(l *zap.Logger) *zap.Logger {
				child := l.With(zap.Int("child", 1))
				gate.SetLevel(zapcore.DebugLevel)
				return child
			}}
	case "multi(unsyncable-sink,buffered-sink)-after-an-earlier-terminal-entry":
		tty := &rec.Sink{}
		for k := 0; k < 64; k++ {
			tty.SyncErrs = append(tty.SyncErrs, syscall.EINVAL)
		}
		bw := &zapcore.BufferedWriteSyncer{WS: ws(s), Size: 4096, FlushInterval: time.Hour}
		return built{core: zapcore.NewCore(zapcore.NewJSONEncoder(cfg), zapcore.Lock(zapcore.NewMultiWriteSyncer(tty, bw)), zapcore.DebugLevel), sinks: []*rec.Sink{s}, enabled: true, buffered: bw,
			derive: func(l *zap.Logger) *zap.Logger {
				q := l.WithOptions(zap.WithPanicHook(quietHook{}), zap.WithFatalHook(quietHook{}))
				q.Panic("an earlier terminal entry")
				q.Fatal("another earlier terminal entry")
				return l
			}}
	case "failing-sink":
		return built{core: zapcore.NewCore(zapcore.NewJSONEncoder(cfg), failWS{}, zapcore.DebugLevel), enabled: true}
	case "tee(failing-sink,json)":
		return built{core: zapcore.NewTee(zapcore.NewCore(zapcore.NewJSONEncoder(cfg), failWS{}, zapcore.DebugLevel), io(s, zapcore.DebugLevel)), sinks: []*rec.Sink{s}, enabled: true}
	case "hooks-returning-error":
		return built{core: zapcore.RegisterHooks(io(s, zapcore.DebugLevel), func(zapcore.Entry) error { return errors.New("c06 hook error") }), sinks: []*rec.Sink{s}, enabled: true}
	case "locked-sink-contended":
		locked := zapcore.Lock(ws(s))
		var stopFlag atomic.Bool
		done := make(chan struct{})
		go func() {
			defer close(done)
			for !stopFlag.Load() {
				_, _ = locked.Write([]byte("background\n"))
			}
		}()
		return built{core: zapcore.NewCore(zapcore.NewJSONEncoder(cfg), locked, zapcore.DebugLevel), sinks: []*rec.Sink{s}, enabled: true, contended: true,
			stop: func() { stopFlag.Store(true); <-done }}
	case "buffered-sink-already-stopped":
		b := &zapcore.BufferedWriteSyncer{WS: ws(s), Size: 4096, FlushInterval: time.Hour}
		return built{core: zapcore.NewCore(zapcore.NewJSONEncoder(cfg), b, zapcore.DebugLevel), sinks: []*rec.Sink{s}, enabled: true, buffered: b,
			derive: func(l *zap.Logger) *zap.Logger {
				l.Info("an ordinary entry before the syncer is stopped")
				_ = b.Stop()
				return l
			}}
	case "buffered-sink":
		b := &zapcore.BufferedWriteSyncer{WS: ws(s), Size: 4096, FlushInterval: time.Hour}
		return built{core: zapcore.NewCore(zapcore.NewJSONEncoder(cfg), b, zapcore.DebugLevel), sinks: []*rec.Sink{s}, enabled: true, buffered: b}
	default:
		oc, logs := observer.New(zapcore.DebugLevel)
		return built{core: zapcore.NewTee(oc, io(s, zapcore.DebugLevel)), sinks: []*rec.Sink{s}, logs: logs, enabled: true}
	}
}

// coreInfo says, without building anything, whether a composition delivers the entry at all,
// whether a recording sink is expected to hold it, and whether a background writer is active.
func coreInfo(kind string) (enabled, hasSink, contended bool) {
	switch kind {
	case "nop", "level-above-fatal", "sampler-drops-all":
		return false, false, false
	case "failing-sink":
		return true, false, false
	case "locked-sink-contended":
		return true, true, true
	}
	return true, true, false
}

// snapshot is what the sinks looked like at one instant.
type snapshot struct {
	events []string
	lines  []string
	obs    int
	evs    [][]rec.Event // contended sinks only
}

func snap(b built) snapshot {
	var sn snapshot
	if b.contended {
		// stop the background writer first so that the event log is final (the hook runs after the
		// entry's write and sync returned)
		if b.stop != nil {
			b.stop()
		}
		for _, s := range b.sinks {
			sn.evs = append(sn.evs, s.EventsCopy())
		}
		return sn
	}
	for _, s := range b.sinks {
		sn.events = append(sn.events, s.Snapshot())
		sn.lines = append(sn.lines, string(s.All()))
	}
	if b.logs != nil {
		sn.obs = b.logs.Len()
	}
	return sn
}

// written checks that, in this snapshot, every accepting destination has the entry and IO sinks were synced after it.
func (sn snapshot) written(b built, msg string) string {
	if b.contended {
		for _, evs := range sn.evs {
			at := -1
			for k, e := range evs {
				if e.Kind == 'W' && bytes.Contains(e.Bytes, []byte(strings.TrimSpace(msg))) && bytes.Contains(e.Bytes, []byte(`"level"`)) {
					at = k
				}
			}
			if at < 0 {
				return "when control was lost, the contended sink had not received the entry"
			}
			synced := false
			for _, e := range evs[at:] {
				if e.Kind == 'S' {
					synced = true
				}
			}
			if !synced {
				return "when control was lost, no Sync had reached the sink after the final entry's write (another goroutine was writing to the same locked sink): the message can be left in a buffer"
			}
		}
		return ""
	}
	for i := range b.sinks {
		if !strings.Contains(sn.lines[i], strings.TrimSpace(msg)) || !strings.Contains(sn.events[i], "W") {
			return fmt.Sprintf("when control was lost, an accepting IO core had not received the entry (sink events %q)", sn.events[i])
		}
		if !strings.HasSuffix(sn.events[i], "WS") {
			return fmt.Sprintf("when control was lost, the sink had not been synced after the final write (sink events %q): the message can be left in a buffer", sn.events[i])
		}
	}
	if b.logs != nil && sn.obs != 1 {
		return "when control was lost, the observer core had not received the entry"
	}
	return ""
}

type recHook struct {
	b     built
	snaps *[]snapshot
	other *zap.Logger // when set, the hook logs through it before looking at its entry
	seen  *[]string   // level|message of the entry as the hook saw it afterwards
}

func (h recHook) OnWrite(ce *zapcore.CheckedEntry, _ []zapcore.Field) {
	if h.other != nil {
		// a hook may log itself (e.g. "shutting down") before it acts on its entry: the entry it
		// was given must still be the terminal entry afterwards
		h.other.Info("logged from inside the terminal hook")
		h.other.Warn("and once more", zap.Int("k", 1))
		*h.seen = append(*h.seen, fmt.Sprintf("%d|%s", ce.Level, ce.Message))
	}
	*h.snaps = append(*h.snaps, snap(h.b))
	runtime.Goexit()
}

// hook configurations
var hookKinds = []string{"unset", "nil", "WriteThenNoop", "WriteThenGoexit", "WriteThenPanic", "custom", "custom-logs-first"}

// outcome of running the log call in its own goroutine
type outcome struct {
	continued bool   // control came back to the caller
	panicked  bool   // a panic propagated out of the call
	panicVal  string // its value
	goexit    bool   // the goroutine ended without returning or panicking
}

func runCall(f func()) outcome {
	ch := make(chan outcome, 1)
	go func() {
		var o outcome
		normal := false
		defer func() {
			if x := recover(); x != nil {
				o.panicked, o.panicVal = true, fmt.Sprint(x)
			} else if !normal {
				o.goexit = true
			}
			ch <- o
		}()
		f()
		normal = true
		o.continued = true
	}()
	select {
	case o := <-ch:
		return o
	case <-time.After(30 * time.Second):
		return outcome{}
	}
}

// routes are the ways the options (development mode, terminal hooks) reach the logger: the rule is the
// same whichever way the logger was put together.
var routes = []string{"New(core, options)", "New(core).WithOptions(options)", "New(core).Sugar().WithOptions(options).Desugar()", "Config{Development}.Build(options)", "Config{Development, DisableStacktrace}.Build(options)"}

func construct(route string, core zapcore.Core, dev bool, opts []zap.Option) *zap.Logger {
	switch route {
	case routes[1]:
		return zap.New(core).WithOptions(opts...)
	case routes[2]:
		return zap.New(core).Sugar().WithOptions(opts...).Desugar()
	case routes[3], routes[4]:
		cfg := zap.Config{Level: zap.NewAtomicLevelAt(zapcore.DebugLevel), Development: dev, DisableStacktrace: route == routes[4], DisableCaller: true, Encoding: "json", EncoderConfig: zap.NewProductionEncoderConfig()}
		lg, err := cfg.Build(append(append([]zap.Option{}, opts...), zap.WrapCore(func(zapcore.Core) zapcore.Core { return core }))...)
		if err != nil {
			panic("c06: Config.Build: " + err.Error())
		}
		return lg
	}
	return zap.New(core, opts...)
}

func inProcess(r *ev.Run) {
	fes := frontEnds()
	type cell struct {
		fe   fe
		lvl  zapcore.Level
		core string
		hook string
		dev  bool
		msg  string
	}
	var cells []cell
	for _, f := range fes {
		for _, lvl := range f.levels {
			for _, ck := range coreKinds {
				for _, hk := range hookKinds {
					for _, dev := range []bool{false, true} {
						for _, mk := range msgKinds {
							cells = append(cells, cell{f, lvl, ck, hk, dev, mk})
						}
					}
				}
			}
		}
	}
	r.Extra("in_process_product_size", len(cells))
	pick := make([]int, 0, len(cells))
	for i := range cells {
		pick = append(pick, i)
	}
	r.Exhaustive(true) // the in-process product is enumerated completely in both tiers
	// whatever a cell started (background writer, flush goroutine) is stopped before the next cell,
	// on every path out of the cell
	var cleanup func()
	defer func() {
		if cleanup != nil {
			cleanup()
		}
	}()
	for _, ci := range pick {
		if cleanup != nil {
			cleanup()
			cleanup = nil
		}
		c := cells[ci]
		id := fmt.Sprintf("c06/in/%d", ci)
		if !r.Want(id) {
			continue
		}
		// the default fatal action exits the process: those cells are observed from outside (children)
		fatalDefault := c.lvl == zapcore.FatalLevel && (c.hook == "unset" || c.hook == "nil" || c.hook == "WriteThenNoop")
		if fatalDefault {
			continue
		}
		b := buildCore(c.core, func(s *rec.Sink) zapcore.WriteSyncer { return s })
		cleanup = func() {
			if b.buffered != nil {
				_ = b.buffered.Stop()
			}
			if b.stop != nil {
				b.stop()
			}
		}
		var snaps []snapshot
		var seenByHook []string
		opts := []zap.Option{zap.ErrorOutput(zapcore.AddSync(&rec.Sink{}))}
		route := routes[ci%len(routes)]
		if c.dev && !strings.HasPrefix(route, "Config") {
			opts = append(opts, zap.Development())
		}
		var hk zapcore.CheckWriteHook
		switch c.hook {
		case "nil":
			opts = append(opts, zap.WithPanicHook(nil), zap.WithFatalHook(nil))
		case "WriteThenNoop":
			hk = zapcore.WriteThenNoop
		case "WriteThenGoexit":
			hk = zapcore.WriteThenGoexit
		case "WriteThenPanic":
			hk = zapcore.WriteThenPanic
		case "custom":
			hk = recHook{b: b, snaps: &snaps}
		case "custom-logs-first":
			oc, _ := observer.New(zapcore.DebugLevel)
			hk = recHook{b: b, snaps: &snaps, other: zap.New(oc), seen: &seenByHook}
		}
		if hk != nil {
			opts = append(opts, zap.WithPanicHook(hk), zap.WithFatalHook(hk))
		}
		if ci%7 == 3 {
			// caller annotation with a skip that points beyond the top of the stack: the caller cannot be
			// found (that is reported), the entry is still written and still terminal
			opts = append(opts, zap.AddCaller(), zap.AddCallerSkip(100000))
			r.Count("cells_with_an_unresolvable_caller", 1)
		}
		lg := construct(route, b.core, c.dev, opts)
		if b.derive != nil {
			lg = b.derive(lg)
		}
		if ci%3 == 1 {
			// a logger derived from this one is given terminal hooks of its own (that return): this
			// logger's own action is what it was before
			wrong := intruderHook{}
			_ = lg.WithOptions(zap.WithPanicHook(wrong), zap.WithFatalHook(wrong))
			_ = lg.Sugar().WithOptions(zap.WithFatalHook(wrong)).With("derived", true)
			r.Count("cells_with_a_derived_logger_given_other_hooks", 1)
		}
		r.SetAdd("construction_routes", route)
		msg := mkMsg(c.msg, fmt.Sprintf("final-%d", ci))
		o := runCall(func() { c.fe.call(lg, c.lvl, msg) })
		r.SetAdd("message_kinds", c.msg)
		r.Eval(1)
		r.SetAdd("front_ends", c.fe.name)
		r.Distinct(fmt.Sprintf("%s|%v|%s|%s|%v|%s", c.fe.name, c.lvl, c.core, c.hook, c.dev, c.msg))
		if len(pick) < 5 || ci%977 == 0 {
			r.Sample(map[string]any{"front_end": c.fe.name, "level": c.lvl.String(), "core": c.core, "hook": c.hook, "development": c.dev})
		}
		wit := map[string]any{"front_end": c.fe.name, "level": c.lvl.String(), "core": c.core, "hook": c.hook, "development": c.dev, "constructed_by": route, "message_kind": c.msg, "outcome": fmt.Sprintf("%+v", o)}
		bad := func(class, f string, a ...any) {
			r.Violate(ev.Violation{Case: id, Class: class, Msg: fmt.Sprintf("%s at %v, core=%s hook=%s development=%v message=%s: ", c.fe.name, c.lvl, c.core, c.hook, c.dev, c.msg) + fmt.Sprintf(f, a...), Witness: wit})
		}
		if !o.continued && !o.panicked && !o.goexit {
			r.Inconclusive(id + ": the call neither returned nor terminated within 30s")
			continue
		}
		mustTerminate := c.lvl == zapcore.PanicLevel || c.lvl == zapcore.FatalLevel || (c.lvl == zapcore.DPanicLevel && c.dev)
		if strings.HasPrefix(o.panicVal, "harness:") {
			r.Inconclusive(id + ": " + o.panicVal)
			continue
		}
		if !mustTerminate {
			if !o.continued {
				bad("terminated-unexpectedly", "DPanic outside development mode must not terminate (outcome %+v)", o)
				continue
			}
			if b.enabled {
				if m := snap(b).written(b, msg); m != "" && !strings.Contains(m, "synced") {
					bad("entry-not-written", "%s", m)
				}
			}
			continue
		}
		if o.continued {
			class := "not-terminated"
			if c.fe.name == "zapgrpc.Fatalln" && !b.enabled {
				class = "not-terminated:grpc-Fatalln-disabled"
			}
			bad(class, "control continued after the call: the terminal action did not run")
			continue
		}
		// which action must have run
		want := "panic"
		switch c.hook {
		case "WriteThenGoexit":
			want = "goexit"
		case "custom", "custom-logs-first":
			want = "custom"
		}
		switch want {
		case "panic":
			if !o.panicked {
				bad("wrong-action", "the panic action must run (a panic carrying the message), outcome %+v", o)
				continue
			}
			if !strings.Contains(o.panicVal, strings.TrimSpace(msg)) {
				bad("wrong-action", "the panic does not carry the message: %q", clipS(o.panicVal))
				continue
			}
		case "goexit":
			if !o.goexit {
				bad("wrong-action", "WriteThenGoexit configured but outcome is %+v", o)
				continue
			}
		case "custom":
			if len(snaps) != 1 {
				bad("wrong-action", "the custom hook ran %d times, want exactly once", len(snaps))
				continue
			}
			if c.hook == "custom-logs-first" {
				wantSeen := fmt.Sprintf("%d|%s", c.lvl, strings.TrimSpace(msg))
				gotSeen := ""
				if len(seenByHook) == 1 {
					gotSeen = seenByHook[0]
					if i := strings.IndexByte(gotSeen, '|'); i >= 0 {
						gotSeen = gotSeen[:i+1] + strings.TrimSpace(gotSeen[i+1:])
					}
				}
				if gotSeen != wantSeen {
					bad("hook-entry-changed", "after logging through another logger the terminal hook finds its entry changed: level|message %q, want %q", clipS(gotSeen), clipS(wantSeen))
					continue
				}
			}
		}
		if b.enabled {
			sn := snap(b)
			if want == "custom" {
				sn = snaps[0]
			}
			if m := sn.written(b, msg); m != "" {
				bad("lost-before-termination", "%s", m)
			}
			r.Count("written_and_synced_checks", 1)
		}
		if b.buffered != nil {
			_ = b.buffered.Stop()
		}
		if b.stop != nil {
			b.stop()
		}
	}
}

// ---- out-of-process: the real default Fatal action ---------------------------------------------

type evSink struct {
	f    *os.File
	side *os.File
}

func (s evSink) Write(p []byte) (int, error) {
	n, err := s.f.Write(p)
	fmt.Fprintf(s.side, "W %d\n", n)
	return n, err
}
func (s evSink) Sync() error {
	err := s.f.Sync()
	fmt.Fprintf(s.side, "S\n")
	return err
}

func fatalChild(args []string) {
	feIdx, _ := strconv.Atoi(args[1])
	core := args[2]
	hook := args[3]
	dir := args[4]
	mkind := "normal"
	if len(args) > 5 {
		mkind = args[5]
	}
	f, _ := os.OpenFile(filepath.Join(dir, "data"), os.O_CREATE|os.O_WRONLY|os.O_TRUNC, 0o644)
	side, _ := os.OpenFile(filepath.Join(dir, "side"), os.O_CREATE|os.O_WRONLY|os.O_TRUNC|os.O_APPEND, 0o644)
	b := buildCore(core, func(*rec.Sink) zapcore.WriteSyncer { return evSink{f, side} })
	var opts []zap.Option
	switch hook {
	case "nil":
		opts = append(opts, zap.WithFatalHook(nil))
	case "WriteThenNoop":
		opts = append(opts, zap.WithFatalHook(zapcore.WriteThenNoop))
	case "OnFatal(WriteThenNoop)":
		opts = append(opts, zap.OnFatal(zapcore.WriteThenNoop))
	}
	route := routes[0]
	if len(args) > 6 && args[6] != "-" {
		route = args[6]
	}
	lg := construct(route, b.core, false, opts)
	fe := frontEnds()[feIdx]
	fe.call(lg, zapcore.FatalLevel, mkMsg(mkind, "fatal-final-message"))
	// reaching this line means the process survived the Fatal call
	_ = os.WriteFile(filepath.Join(dir, "sentinel"), []byte("survived"), 0o644)
	os.Exit(0)
}

func outOfProcess(r *ev.Run) {
	bin := os.Getenv("ZVERIFY_BIN")
	if bin == "" {
		bin, _ = os.Executable()
	}
	fes := frontEnds()
	type cell struct {
		fe   int
		core string
		hook string
		msg  string
	}
	var cells []cell
	for i := range fes {
		for _, ck := range coreKinds {
			if inProcessOnly[ck] {
				continue
			}
			for _, hk := range []string{"unset", "nil", "WriteThenNoop", "OnFatal(WriteThenNoop)"} {
				for _, mk := range []string{"normal", "blank", "large"} {
					cells = append(cells, cell{i, ck, hk, mk})
				}
			}
		}
	}
	r.Extra("child_product_size", len(cells))
	g := rng.For(r.Seed, "c06/children", 0)
	order := g.Perm(len(cells))
	if !r.Thorough() {
		order = order[:300]
	}
	for _, ci := range order {
		c := cells[ci]
		id := fmt.Sprintf("c06/child/%d", ci)
		if !r.Want(id) {
			continue
		}
		dir := filepath.Join(ev.WorkDir(), fmt.Sprintf("c06-%d", ci))
		_ = os.MkdirAll(dir, 0o755)
		oc := mon.RunRaw(bin, []string{"child", "C06", "fatal", fmt.Sprint(c.fe), c.core, c.hook, dir, c.msg, routes[ci%len(routes)]}, 60*time.Second)
		r.SetAdd("construction_routes", routes[ci%len(routes)])
		r.Eval(1)
		r.Count("children", 1)
		r.SetAdd("exit_statuses", fmt.Sprint(oc.ExitCode))
		r.SetAdd("front_ends", fes[c.fe].name)
		r.Distinct(fmt.Sprintf("child|%s|%s|%s|%s", fes[c.fe].name, c.core, c.hook, c.msg))
		bad := func(class, f string, a ...any) {
			r.Violate(ev.Violation{Case: id, Class: class, Msg: fmt.Sprintf("%s at fatal, core=%s fatal-hook=%s message=%s (real process): ", fes[c.fe].name, c.core, c.hook, c.msg) + fmt.Sprintf(f, a...),
				Witness: map[string]any{"front_end": fes[c.fe].name, "core": c.core, "hook": c.hook, "message_kind": c.msg, "exit": oc.ExitCode}})
		}
		_, serr := os.Stat(filepath.Join(dir, "sentinel"))
		data, _ := os.ReadFile(filepath.Join(dir, "data"))
		side, _ := os.ReadFile(filepath.Join(dir, "side"))
		os.RemoveAll(dir)
		if oc.TimedOut {
			r.Inconclusive(id + ": child hit the watchdog")
			continue
		}
		enabled, hasSink, contended := coreInfo(c.core)
		if serr == nil {
			class := "not-terminated"
			if fes[c.fe].name == "zapgrpc.Fatalln" && !enabled {
				class = "not-terminated:grpc-Fatalln-disabled"
			}
			bad(class, "the process survived the Fatal call")
			continue
		}
		if oc.ExitCode != 1 || oc.Signaled {
			bad("wrong-exit-status", "the process ended with status %d (signaled=%v), want exit status 1", oc.ExitCode, oc.Signaled)
			continue
		}
		if enabled && hasSink {
			wantMsg := mkMsg(c.msg, "fatal-final-message")
			if !strings.HasSuffix(string(data), "\n") || !strings.Contains(string(data), wantMsg) || !strings.Contains(string(data), `"level":"fatal"`) {
				bad("lost-before-termination", "the file lacks the complete final line: %q", clipS(string(data)))
				continue
			}
			if contended {
				// the background writer keeps appending events until the process exits: only the data file is judged here
			} else if !strings.HasSuffix(strings.TrimSpace(string(side)), "S") || !strings.Contains(string(side), "W") {
				bad("lost-before-termination", "the sink was not synced after the final write before exit (events %q)", strings.ReplaceAll(string(side), "\n", " "))
			}
			r.Count("written_and_synced_checks", 1)
		}
	}
	if r.Thorough() {
		r.Extra("children_exhaustive", true)
	}
}

func clipS(s string) string {
	if len(s) > 300 {
		return s[:150] + " ... " + s[len(s)-100:]
	}
	return s
}

// Child is the out-of-process entry point.
func Child(r *ev.Run, args []string) {
	if len(args) > 0 && args[0] == "fatal" {
		fatalChild(args)
	}
}

// Run is the C06 monitor.
func Run(r *ev.Run) {
	r.Rule = "in-process: the product {16 front ends} x {DPanic, Panic, Fatal} x {9 core compositions incl. nop, disabled, sampled-out, tee, lazy, increase-level, buffered sink} x {hook unset, nil, WriteThenNoop, WriteThenGoexit, WriteThenPanic, custom} x {development on/off} x {message ordinary, empty, blank, larger than the sink buffer} (sampled by seed in quick, enumerated in thorough); each call runs in its own goroutine and the outcome (returned / panicked with value / goroutine exited / custom hook ran) plus sink snapshots taken at the moment control is lost are judged; out-of-process: the real default Fatal action, one child process per (front end, core, hook in {unset, nil, WriteThenNoop, OnFatal(WriteThenNoop)}, message kind) observed by exit status, a sentinel file, the data file and a W/S event side file; distinct = distinct cells"
	inProcess(r)
	if r.Only == "" {
		outOfProcess(r)
	}
}
