// Package c14 monitors C14: SugaredLogger never drops or misattributes
// loosely-typed arguments, and formats messages like package fmt.
package c14

import (
	"errors"
	"fmt"
	"reflect"
	"strings"
	"time"

	"go.uber.org/zap"
	"go.uber.org/zap/verif/internal/ev"
	"go.uber.org/zap/verif/internal/rec"
	"go.uber.org/zap/verif/internal/rng"
	"go.uber.org/zap/zapcore"
	"go.uber.org/zap/zaptest/observer"
)

type noopHook struct{}

func (noopHook) OnWrite(*zapcore.CheckedEntry, []zapcore.Field) {}

type valErr struct{ s string }

func (e valErr) Error() string { return e.s }

type pt struct{ X, Y int }

type objV struct{ n int }

func (o objV) MarshalLogObject(enc zapcore.ObjectEncoder) error { enc.AddInt("n", o.n); return nil }

// errObj is an error that can also marshal itself as an object; strObj a Stringer that can.
type errObj struct{ n int }

func (o errObj) MarshalLogObject(enc zapcore.ObjectEncoder) error {
	enc.AddInt("errobj", o.n)
	return nil
}
func (o errObj) Error() string { return fmt.Sprintf("errObj-%d", o.n) }

type strObj struct{ n int }

func (o strObj) MarshalLogObject(enc zapcore.ObjectEncoder) error {
	enc.AddInt("strobj", o.n)
	return nil
}
func (o strObj) String() string { return fmt.Sprintf("strObj-%d", o.n) }

type arrErr []int

func (a arrErr) MarshalLogArray(enc zapcore.ArrayEncoder) error {
	for _, v := range a {
		enc.AppendInt(v)
	}
	return nil
}
func (a arrErr) Error() string { return "arrErr" }

const alphabet = "FSINETVOXR"

// sym materialises one argument for symbol c at position i.
func sym(c byte, i int) interface{} {
	switch c {
	case 'F':
		return zap.Int(fmt.Sprintf("f%d", i), i)
	case 'S':
		return fmt.Sprintf("k%d", i)
	case 'I':
		return 100 + i
	case 'N':
		return nil
	case 'E':
		return errors.New(fmt.Sprintf("err%d", i))
	case 'T':
		return (*valErr)(nil)
	case 'V':
		return 0.5 + float64(i)
	case 'O':
		return []int{i, i + 1}
	case 'P':
		return &pt{i, i}
	case 'M':
		return objV{i}
	case 'B':
		return true
	case 'U':
		return pt{i, -i}
	case 'R':
		// a typed error field under the key "error": it is a field like any other and does not make a
		// later bare error the "second" one
		return zap.Error(fmt.Errorf("typed%d", i))
	case 'X':
		return errObj{i}
	case 'Y':
		return strObj{i}
	case 'A':
		return arrErr{i, i + 1}
	case 'D':
		return time.Duration(i) * time.Millisecond
	case 'C':
		return time.Unix(int64(1000+i), 0).UTC()
	case 'Z':
		return []byte{byte(i), 'z'}
	case 'G':
		return []error{errors.New("g1"), nil}
	case 'H':
		return complex(float64(i), -1)
	case 'J':
		return uintptr(i)
	case 'K':
		return []string{"a", "b"}
	case 'L':
		return strer{"stringer"}
	}
	return string(c)
}

// expectation of the reference sweep.
type expect struct {
	fields   []zapcore.Field
	dangling []interface{} // at most one
	badPairs []badPair
	extraErr []error
}

type badPair struct {
	pos      int
	key, val interface{}
}

// sweep is the reference written from the statement.
func sweep(args []interface{}) expect {
	var e expect
	seenErr := false
	for i := 0; i < len(args); {
		switch a := args[i].(type) {
		case zapcore.Field:
			e.fields = append(e.fields, a)
			i++
			continue
		case error:
			if !seenErr {
				seenErr = true
				e.fields = append(e.fields, refValue("error", a))
			} else {
				e.extraErr = append(e.extraErr, a)
			}
			i++
			continue
		}
		if i == len(args)-1 {
			e.dangling = append(e.dangling, args[i])
			break
		}
		if k, ok := args[i].(string); ok {
			e.fields = append(e.fields, refValue(k, args[i+1]))
		} else {
			e.badPairs = append(e.badPairs, badPair{i, args[i], args[i+1]})
		}
		i += 2
	}
	return e
}

// refValue is the field expected for a value. For a nil pointer of an error type the expectation is
// spelled out here (the key is there, the value reads "<nil>") instead of being taken from zap's own
// constructors: a value that is an error does not vanish from the context.
func refValue(key string, v interface{}) zapcore.Field {
	if p, ok := v.(*valErr); ok && p == nil {
		return zap.String(key, "<nil>")
	}
	if err, ok := v.(error); ok && key == "error" {
		return zap.NamedError(key, err)
	}
	return zap.Any(key, v)
}

func spyFields(fs []zapcore.Field) ([]rec.Call, string) {
	s := &rec.Spy{}
	p := ev.Guard(func() {
		for _, f := range fs {
			f.AddTo(s)
		}
	})
	return s.Calls, p
}

func flatten(cs []rec.Call, out *[]rec.Call) {
	for _, c := range cs {
		*out = append(*out, c)
		flatten(c.Sub, out)
	}
}

// identified reports whether value v (in the representation zap.Any chooses) occurs in calls.
func identified(calls []rec.Call, v interface{}) bool {
	want, _ := spyFields([]zapcore.Field{zap.Any("x", v)})
	if len(want) == 0 {
		return true // e.g. nil error: nothing to identify
	}
	alts := [][]rec.Call{want[:1]}
	if err, ok := v.(error); ok {
		// an error may be identified as zap.Any renders it or, as zap.Error does, by its message
		if w2, _ := spyFields([]zapcore.Field{zap.NamedError("x", err)}); len(w2) > 0 {
			alts = append(alts, w2[:1])
		}
	}
	for _, a := range alts {
		w := a[0]
		for _, c := range calls {
			c2 := c
			c2.Key = w.Key
			if rec.SameCalls([]rec.Call{w}, []rec.Call{c2}) == "" {
				return true
			}
		}
	}
	return false
}

type method struct {
	name string
	lvl  zapcore.Level
	call func(s *zap.SugaredLogger, msg string, args []interface{})
}

func wMethods() []method {
	ms := []method{
		{"Debugw", zapcore.DebugLevel, func(s *zap.SugaredLogger, m string, a []interface{}) { s.Debugw(m, a...) }},
		{"Infow", zapcore.InfoLevel, func(s *zap.SugaredLogger, m string, a []interface{}) { s.Infow(m, a...) }},
		{"Warnw", zapcore.WarnLevel, func(s *zap.SugaredLogger, m string, a []interface{}) { s.Warnw(m, a...) }},
		{"Errorw", zapcore.ErrorLevel, func(s *zap.SugaredLogger, m string, a []interface{}) { s.Errorw(m, a...) }},
		{"DPanicw", zapcore.DPanicLevel, func(s *zap.SugaredLogger, m string, a []interface{}) { s.DPanicw(m, a...) }},
		{"Panicw", zapcore.PanicLevel, func(s *zap.SugaredLogger, m string, a []interface{}) { s.Panicw(m, a...) }},
		{"Fatalw", zapcore.FatalLevel, func(s *zap.SugaredLogger, m string, a []interface{}) { s.Fatalw(m, a...) }},
	}
	for l := zapcore.DebugLevel; l <= zapcore.FatalLevel; l++ {
		l := l
		ms = append(ms, method{fmt.Sprintf("Logw(%v)", l), l, func(s *zap.SugaredLogger, m string, a []interface{}) { s.Logw(l, m, a...) }})
	}
	ms = append(ms,
		method{"With+Infow", zapcore.InfoLevel, func(s *zap.SugaredLogger, m string, a []interface{}) { s.With(a...).Infow(m) }},
		method{"WithLazy+Warnw", zapcore.WarnLevel, func(s *zap.SugaredLogger, m string, a []interface{}) { s.WithLazy(a...).Warnw(m) }},
		method{"With+Desugar+Error", zapcore.ErrorLevel, func(s *zap.SugaredLogger, m string, a []interface{}) { s.With(a...).Desugar().Error(m) }},
	)
	return ms
}

func renderArgs(args []interface{}) []string {
	out := make([]string, len(args))
	for i, a := range args {
		if f, ok := a.(zapcore.Field); ok {
			out[i] = fmt.Sprintf("Field(%s)", f.Key)
		} else {
			out[i] = fmt.Sprintf("%T(%v)", a, a)
		}
	}
	return out
}

func judgeList(r *ev.Run, id string, m method, args []interface{}, shape string) {
	core, logs := observer.New(zapcore.DebugLevel)
	s := zap.New(core, zap.WithPanicHook(noopHook{}), zap.WithFatalHook(noopHook{})).Sugar()
	msg := "main-" + id
	// every third case really terminates at DPanic/Panic/Fatal (development mode, default panic
	// action, Fatal ended by a panic hook): whatever must be reported has to be logged before
	// control is lost
	realTermination := len(id)%3 == 0
	if realTermination {
		s = zap.New(core, zap.Development(), zap.WithFatalHook(zapcore.WriteThenPanic)).Sugar()
		r.Count("lists_with_real_termination", 1)
	}
	p := ev.Guard(func() { m.call(s, msg, args) })
	if realTermination && m.lvl >= zapcore.DPanicLevel && m.lvl <= zapcore.FatalLevel && p == msg {
		p = "" // the specified termination, carrying the message
		r.Count("terminal_entries_really_terminated", 1)
	}
	if p != "" {
		r.Violate(ev.Violation{Case: id, Class: "sugar-panic", Msg: fmt.Sprintf("%s panicked on %v: %s", m.name, renderArgs(args), p), Witness: renderArgs(args)})
		return
	}
	exp := sweep(args)
	var main *observer.LoggedEntry
	var diags []observer.LoggedEntry
	for _, e := range logs.All() {
		e := e
		if e.Message == msg {
			if main != nil {
				r.Violate(ev.Violation{Case: id, Class: "sugar-main", Msg: "main entry logged twice", Witness: renderArgs(args)})
				return
			}
			main = &e
		} else {
			diags = append(diags, e)
		}
	}
	bad := func(class, f string, a ...any) {
		r.Violate(ev.Violation{Case: id, Class: class, Msg: fmt.Sprintf("%s(%s) args=%v: ", m.name, shape, renderArgs(args)) + fmt.Sprintf(f, a...), Witness: map[string]any{"method": m.name, "args": renderArgs(args)}})
	}
	if main == nil || main.Level != m.lvl {
		bad("sugar-main", "main entry missing or at the wrong level")
		return
	}
	want, _ := spyFields(exp.fields)
	got, p := spyFields(main.Context)
	if p != "" {
		bad("sugar-panic", "encoding the main entry's fields panicked: %s", p)
		return
	}
	if d := rec.SameCalls(want, got); d != "" {
		bad("sugar-fields", "well-formed arguments are not logged as the reference sweep says: %s", d)
		return
	}
	// conservation: everything else is identified in an error-level diagnostic entry
	var diagCalls []rec.Call
	for _, d := range diags {
		if d.Level != zapcore.ErrorLevel {
			bad("sugar-diag-level", "diagnostic entry %q logged at %v, want error", d.Message, d.Level)
			return
		}
		cs, p := spyFields(d.Context)
		if p != "" {
			bad("sugar-panic", "encoding a diagnostic entry panicked: %s", p)
			return
		}
		flatten(cs, &diagCalls)
	}
	need := len(exp.dangling) > 0 || len(exp.badPairs) > 0 || len(exp.extraErr) > 0
	if need && len(diags) == 0 {
		bad("sugar-vanished", "malformed arguments vanished: no diagnostic entry was logged")
		return
	}
	if !need && len(diags) != 0 {
		bad("sugar-spurious-diag", "a diagnostic entry %q was logged for a well-formed list", diags[0].Message)
		return
	}
	for _, v := range exp.dangling {
		if !identified(diagCalls, v) {
			bad("sugar-vanished", "dangling key %v is not identified in any diagnostic entry", v)
			return
		}
	}
	for _, bp := range exp.badPairs {
		if !identified(diagCalls, bp.key) || !identified(diagCalls, bp.val) || !identified(diagCalls, int64(bp.pos)) {
			bad("sugar-vanished", "non-string-key pair at position %d (%v, %v) is not identified (position, key, value) in a diagnostic entry", bp.pos, bp.key, bp.val)
			return
		}
	}
	for _, e := range exp.extraErr {
		if !identified(diagCalls, e) {
			bad("sugar-vanished", "additional bare error %v is not identified in a diagnostic entry", e)
			return
		}
	}
	r.Count("conservation_checks", 1)
}

func lists(r *ev.Run) {
	ms := wMethods()
	maxLen := r.N(4, 5)
	n := 0
	var rec func(prefix []byte)
	rec = func(prefix []byte) {
		id := "c14/list/" + string(prefix)
		if r.Want(id) {
			args := make([]interface{}, len(prefix))
			for i, c := range prefix {
				args[i] = sym(c, i)
			}
			m := ms[n%len(ms)]
			n++
			r.Eval(1)
			r.Distinct("l|" + string(prefix))
			r.SetAdd("methods", m.name)
			r.Count(fmt.Sprintf("lists_len_%d", len(prefix)), 1)
			if n%9000 == 1 {
				r.Sample(map[string]any{"method": m.name, "args": renderArgs(args)})
			}
			judgeList(r, id, m, args, string(prefix))
		}
		if len(prefix) == maxLen {
			return
		}
		for i := 0; i < len(alphabet); i++ {
			rec(append(prefix, alphabet[i]))
		}
	}
	rec(nil)
	r.Extra("lists_exhaustive_up_to_len", maxLen)
	// longer lists over a wider alphabet, sampled
	wide := alphabet + "PMBUYADCZGHJKL"
	k := r.N(30000, 300000)
	for i := 0; i < k; i++ {
		id := fmt.Sprintf("c14/long/%d", i)
		if !r.Want(id) {
			continue
		}
		g := rng.For(r.Seed, "c14/long", i)
		ln := g.Range(maxLen+1, 12)
		shape := make([]byte, ln)
		args := make([]interface{}, ln)
		for j := range shape {
			shape[j] = wide[g.Intn(len(wide))]
			args[j] = sym(shape[j], j)
		}
		m := ms[g.Intn(len(ms))]
		r.Eval(1)
		r.Distinct("l|" + string(shape))
		r.SetAdd("methods", m.name)
		judgeList(r, id, m, args, string(shape))
	}
}

type strer struct{ s string }

func (s strer) String() string { return s.s }

type panicStr struct{}

func (panicStr) String() string { panic("boom") }

func fmtArg(g *rng.R) interface{} {
	switch g.Intn(14) {
	case 0:
		return g.Intn(1000) - 500
	case 1:
		return rng.Pick(g, []string{"", "a", "hello world", "%d", "x\ny", "é", "done\n", "\n", "two\n\n", " ", "\t", " lead", "trail ", "\r\n"})
	case 2:
		return float64(g.Intn(1000)) / 8
	case 3:
		return nil
	case 4:
		return errors.New(rng.Pick(g, []string{"e", "ends with newline\n", ""}))
	case 5:
		return pt{g.Intn(5), 2}
	case 6:
		return &pt{1, 2}
	case 7:
		return strer{"S"}
	case 8:
		return panicStr{}
	case 9:
		return []int{1, 2}
	case 10:
		return map[string]int{"a": 1}
	case 11:
		return true
	case 12:
		return byte('x')
	default:
		return (*pt)(nil)
	}
}

var verbs = []string{"%d", "%s", "%v", "%+v", "%#v", "%q", "%x", "%5.2f", "%%", "%[2]d", "%[1]v", "%*d", "%T", "%", "%!", "%z", "%08.3f", "%-5s|", "%c", "%U", "%e", "%t", "%p"}

func template(g *rng.R) string {
	if g.P(1, 12) {
		return ""
	}
	var b strings.Builder
	for n := g.Intn(5); n >= 0; n-- {
		switch g.Intn(3) {
		case 0:
			b.WriteString(rng.Pick(g, []string{"x", " ", "msg: ", "100", "\n", "é"}))
		default:
			b.WriteString(rng.Pick(g, verbs))
		}
	}
	return b.String()
}

type fmethod struct {
	name  string
	style string // print, printf, println
	lvl   zapcore.Level
	call  func(s *zap.SugaredLogger, tmpl string, args []interface{})
}

func fMethods() []fmethod {
	var ms []fmethod
	type lv struct {
		l zapcore.Level
		n string
	}
	for _, x := range []lv{{zapcore.DebugLevel, "Debug"}, {zapcore.InfoLevel, "Info"}, {zapcore.WarnLevel, "Warn"}, {zapcore.ErrorLevel, "Error"}, {zapcore.DPanicLevel, "DPanic"}, {zapcore.PanicLevel, "Panic"}, {zapcore.FatalLevel, "Fatal"}} {
		x := x
		get := func(s *zap.SugaredLogger, suffix string) reflect.Value {
			return reflect.ValueOf(s).MethodByName(x.n + suffix)
		}
		ms = append(ms,
			fmethod{x.n, "print", x.l, func(s *zap.SugaredLogger, _ string, a []interface{}) {
				in := []reflect.Value{}
				for _, v := range a {
					in = append(in, rv(v))
				}
				get(s, "").Call(in)
			}},
			fmethod{x.n + "f", "printf", x.l, func(s *zap.SugaredLogger, t string, a []interface{}) {
				in := []reflect.Value{reflect.ValueOf(t)}
				for _, v := range a {
					in = append(in, rv(v))
				}
				get(s, "f").Call(in)
			}},
			fmethod{x.n + "ln", "println", x.l, func(s *zap.SugaredLogger, _ string, a []interface{}) {
				in := []reflect.Value{}
				for _, v := range a {
					in = append(in, rv(v))
				}
				get(s, "ln").Call(in)
			}},
			fmethod{"Log(" + x.n + ")", "print", x.l, func(s *zap.SugaredLogger, _ string, a []interface{}) { s.Log(x.l, a...) }},
			fmethod{"Logf(" + x.n + ")", "printf", x.l, func(s *zap.SugaredLogger, t string, a []interface{}) { s.Logf(x.l, t, a...) }},
			fmethod{"Logln(" + x.n + ")", "println", x.l, func(s *zap.SugaredLogger, _ string, a []interface{}) { s.Logln(x.l, a...) }},
		)
	}
	return ms
}

func rv(v interface{}) reflect.Value {
	if v == nil {
		return reflect.Zero(reflect.TypeOf((*interface{})(nil)).Elem())
	}
	return reflect.ValueOf(v)
}

func formats(r *ev.Run) {
	ms := fMethods()
	k := r.N(40000, 300000)
	for i := 0; i < k; i++ {
		id := fmt.Sprintf("c14/fmt/%d", i)
		if !r.Want(id) {
			continue
		}
		g := rng.For(r.Seed, "c14/fmt", i)
		m := ms[i%len(ms)]
		tmpl := template(g)
		var args []interface{}
		for n := rng.Pick(g, []int{0, 0, 1, 1, 2, 3, 5}); n > 0; n-- {
			args = append(args, fmtArg(g))
		}
		var want string
		switch m.style {
		case "print":
			want = fmt.Sprint(args...)
		case "printf":
			if len(args) == 0 {
				want = tmpl
			} else {
				want = fmt.Sprintf(tmpl, args...)
			}
		default:
			want = strings.TrimSuffix(fmt.Sprintln(args...), "\n")
		}
		core, logs := observer.New(zapcore.DebugLevel)
		s := zap.New(core, zap.WithPanicHook(noopHook{}), zap.WithFatalHook(noopHook{})).Sugar()
		r.Eval(1)
		r.SetAdd("format_methods", m.name)
		r.Distinct(fmt.Sprintf("f|%s|%q|%d", m.style, tmpl, len(args)))
		if i < 2 {
			r.Sample(map[string]any{"method": m.name, "template": tmpl, "args": renderArgs(args), "want": want})
		}
		if p := ev.Guard(func() { m.call(s, tmpl, args) }); p != "" {
			r.Violate(ev.Violation{Case: id, Class: "format-panic", Msg: fmt.Sprintf("%s(%q, %v) panicked: %s", m.name, tmpl, renderArgs(args), p)})
			continue
		}
		es := logs.All()
		if len(es) != 1 || es[0].Level != m.lvl {
			r.Violate(ev.Violation{Case: id, Class: "format-entry", Msg: fmt.Sprintf("%s logged %d entries", m.name, len(es))})
			continue
		}
		if es[0].Message != want {
			class := "format-message"
			if m.style == "printf" && tmpl == "" && len(args) > 0 {
				class = "format:f-family:empty-template-with-args"
			}
			r.Violate(ev.Violation{Case: id, Class: class, Msg: fmt.Sprintf("%s(template=%q, args=%v) logged %q, fmt gives %q", m.name, tmpl, renderArgs(args), es[0].Message, want),
				Witness: map[string]any{"method": m.name, "template": tmpl, "args": renderArgs(args), "got": es[0].Message, "want": want}})
		}
	}
}

// Run is the C14 monitor.
func Run(r *ev.Run) {
	r.Rule = "argument lists: every list over the 8-symbol alphabet {Field, string key, int key, nil, error, typed-nil error, float value, slice value} up to length 4 (quick) / 5 (thorough) enumerated, longer lists over a 12-symbol alphabet sampled, each through a rotating With/WithLazy/*w/Logw method at every level and judged against a reference sweep (main entry fields through an encoder spy, conservation of every malformed argument in error-level diagnostics); formatting: seeded templates x argument lists through every print/printf/println method compared with package fmt; distinct = distinct lists / (style, template, arity)"
	lists(r)
	formats(r)
}
