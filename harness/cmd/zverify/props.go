package main

import (
	"go.uber.org/zap/verif/props/encjson"
)

func init() {
	register("C01", "exploration", encjson.Run01, nil)
	register("C02", "exploration", encjson.Run02, nil)
}
