package main

import (
	"go.uber.org/zap/verif/props/c03"
	"go.uber.org/zap/verif/props/c04"
	"go.uber.org/zap/verif/props/c05"
	"go.uber.org/zap/verif/props/c06"
	"go.uber.org/zap/verif/props/c07"
	"go.uber.org/zap/verif/props/c08"
	"go.uber.org/zap/verif/props/c09"
	"go.uber.org/zap/verif/props/c10"
	"go.uber.org/zap/verif/props/c11"
	"go.uber.org/zap/verif/props/c12"
	"go.uber.org/zap/verif/props/c13"
	"go.uber.org/zap/verif/props/c14"
	"go.uber.org/zap/verif/props/c15"
	"go.uber.org/zap/verif/props/c16"
	"go.uber.org/zap/verif/props/c17"
	"go.uber.org/zap/verif/props/c18"
	"go.uber.org/zap/verif/props/c19"
	"go.uber.org/zap/verif/props/c20"
	"go.uber.org/zap/verif/props/encjson"
)

func init() {
	register("C01", "exploration", encjson.Run01, nil)
	register("C03", "exploration", c03.Run, nil)
	register("C17", "exploration", c17.Run, nil)
	register("C13", "fault_enumeration", c13.Run, c13.Child)
	register("C20", "exploration", c20.Run, nil)
	register("C05", "exploration", c05.Run, nil)
	register("C14", "exploration", c14.Run, nil)
	register("C07", "exploration", c07.Run, nil)
	register("C10", "fault_enumeration", c10.Run, nil)
	register("C16", "exploration", c16.Run, nil)
	register("C18", "exploration", c18.Run, nil)
	register("C15", "exploration", c15.Run, nil)
	register("C19", "fault_enumeration", c19.Run, nil)
	register("C11", "exploration", c11.Run, c11.Child)
	register("C12", "fault_enumeration", c12.Run, c12.Child)
	register("C06", "exploration", c06.Run, c06.Child)
	register("C09", "exploration", c09.Run, c09.Child)
	register("C04", "exploration", c04.Run, c04.Child)
	register("C08", "exploration", c08.Run, c08.Child)
	register("C02", "exploration", encjson.Run02, nil)
}
