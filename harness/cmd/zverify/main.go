// Command zverify dispatches the runtime monitors for the zap properties.
//
//	zverify run <ID> <quick|thorough>
//	zverify replay <ID> <file>
//	zverify child <ID> <spec...>
package main

import (
	"encoding/json"
	"fmt"
	"os"
	"strconv"
	"time"

	"go.uber.org/zap/verif/internal/ev"
)

type prop struct {
	level string
	run   func(*ev.Run)
	child func(r *ev.Run, args []string)
}

var props = map[string]prop{}

func register(id, level string, run func(*ev.Run), child func(*ev.Run, []string)) {
	props[id] = prop{level, run, child}
}

func main() {
	if len(os.Args) < 3 {
		fmt.Fprintln(os.Stderr, "usage: zverify run <ID> <tier> | replay <ID> <file> | child <ID> args...")
		os.Exit(2)
	}
	p, ok := props[os.Args[2]]
	if !ok {
		fmt.Fprintf(os.Stderr, "unknown property %q\n", os.Args[2])
		os.Exit(2)
	}
	switch os.Args[1] {
	case "run":
		tier := "quick"
		if len(os.Args) > 3 {
			tier = os.Args[3]
		}
		r := ev.New(os.Args[2], tier, p.level)
		idle := 3 * time.Minute
		if d, err := time.ParseDuration(os.Getenv("VERIF_WATCHDOG_IDLE")); err == nil && d > 0 {
			idle = d // for trying the watchdog out
		}
		r.StartWatchdog(idle)
		p.run(r)
		os.Exit(r.Finish())
	case "replay":
		b, err := os.ReadFile(os.Args[3])
		if err != nil {
			fmt.Fprintln(os.Stderr, err)
			os.Exit(2)
		}
		var rep struct {
			Tier string `json:"tier"`
			Seed int64  `json:"seed"`
			Case string `json:"case"`
		}
		if err := json.Unmarshal(b, &rep); err != nil {
			fmt.Fprintln(os.Stderr, err)
			os.Exit(2)
		}
		os.Setenv("VERIF_SEED", strconv.FormatInt(rep.Seed, 10))
		r := ev.New(os.Args[2], rep.Tier, p.level)
		r.Only = rep.Case
		r.ReplayOnly = true
		p.run(r)
		os.Exit(r.Finish())
	case "child":
		if p.child == nil {
			os.Exit(2)
		}
		args := os.Args[3:]
		res := args[len(args)-1]
		tier := os.Getenv("VERIF_TIER")
		if tier == "" {
			tier = "quick"
		}
		r := ev.New(os.Args[2], tier, p.level)
		r.ChildResult = res
		// a child whose workload blocks for good inside zap reports that itself (decided by quiescence),
		// long before the parent's wall-clock guard would kill it
		r.StartWatchdog(3 * time.Minute)
		p.child(r, args[:len(args)-1])
		if err := r.DumpTo(res); err != nil {
			fmt.Fprintln(os.Stderr, "dump:", err)
			os.Exit(2)
		}
		os.Exit(0)
	}
	os.Exit(2)
}
