#!/bin/bash
# MANIFEST.setup_cmd: warm the Go build cache for both harness binaries (offline).
set -u
export GOFLAGS=-mod=mod GOPROXY=off GOSUMDB=off GOTOOLCHAIN=local
cd "$(dirname "$0")/harness" || exit 1
cat /repo/go.sum /repo/exp/go.sum go.sum 2>/dev/null | sort -u > go.sum.new && mv go.sum.new go.sum
mkdir -p ../.bin/setup
go build -tags verif -o ../.bin/setup/zverify ./cmd/zverify || exit 1
go build -race -tags verif -o ../.bin/setup/zverify-race ./cmd/zverify || exit 1
rm -rf ../.bin/setup
echo "setup ok"
