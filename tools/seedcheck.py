#!/usr/bin/env python3
"""Confirms a seeded change and runs checks against it, on a scratch copy of /repo (removed afterwards).

  seedcheck.py <seed-dir> [--copy-to DIR] [--cmd 'go test ...'] [--checks C04,C12] [--tier quick] [--keep-going]

<seed-dir> holds patch.diff, meta.json and demo_test.go (or demo/). Steps: (1) demo on the unchanged copy must pass,
(2) with the patch the three existing suites must pass, (3) with the patch the demo must fail, (4) each named check
is run against the patched copy (VERIF_REPO) and its exit status / first violation class recorded.
Prints one JSON object.
"""
import argparse, json, os, re, shutil, subprocess, sys, tempfile

ENV = dict(os.environ, GOFLAGS="-mod=mod", GOPROXY="off", GOSUMDB="off", GOTOOLCHAIN="local")

def sh(cmd, cwd, timeout=1500):
    try:
        p = subprocess.run(cmd, shell=True, cwd=cwd, env=ENV, capture_output=True, text=True, errors="replace", timeout=timeout)
        return p.returncode, (p.stdout + p.stderr)
    except subprocess.TimeoutExpired as e:
        return 124, "TIMEOUT " + str(e)

def main():
    ap = argparse.ArgumentParser()
    ap.add_argument("seed")
    ap.add_argument("--copy-to")
    ap.add_argument("--cmd")
    ap.add_argument("--checks")
    ap.add_argument("--tier", default="quick")
    ap.add_argument("--skip-suites", action="store_true")
    ap.add_argument("--keep-name", action="store_true", help="copy the demo under its own file name (for demos that read their own source)")
    a = ap.parse_args()
    seed = os.path.abspath(a.seed)
    meta = json.load(open(os.path.join(seed, "meta.json")))
    prop = meta.get("property") or meta.get("breaks")
    demo = meta.get("demo", {})
    copy_to = a.copy_to if a.copy_to is not None else demo.get("copy_to", ".")
    cmd = a.cmd or demo.get("cmd", "")
    root = tempfile.mkdtemp(prefix="sv.", dir="/tmp")
    repo = os.path.join(root, "repo")
    res = {"seed": os.path.basename(seed), "property": prop}
    try:
        subprocess.run(["rsync", "-a", "--exclude", ".git", "/repo/", repo + "/"], check=True)
        # normalise copy_to / cmd written against the agent's worktree
        copy_to = re.sub(r"/tmp/wt/[A-Za-z0-9]+/?", "", copy_to).strip()
        copy_to = copy_to.split(" ")[0].strip("()/") if copy_to else "."
        if copy_to in ("", "module", "root") or not os.path.isdir(os.path.join(repo, copy_to)):
            copy_to = "."
        m = re.search(r"(go (test|run|vet)[^\n(]*)", cmd)
        gocmd = m.group(1).strip() if m else cmd
        if a.cmd:
            gocmd = a.cmd  # given explicitly: taken verbatim
        cdm = re.search(r"cd\s+(\S+)\s*&&", cmd)
        sub = ""
        if cdm:
            sub = re.sub(r"/tmp/wt/[A-Za-z0-9]+/?", "", cdm.group(1))
        rf = str(demo.get("run_from", "")).strip().strip("/")
        if rf and rf not in (".", "root") and os.path.isdir(os.path.join(repo, rf.split()[0])):
            sub = rf.split()[0]
        gocmd = re.sub(r"/tmp/wt/[A-Za-z0-9]+", repo, gocmd)
        # the package the demo is run in is the most reliable hint for where it has to be copied
        if a.copy_to is None:
            toks = gocmd.replace("'", "").split()
            tgt = toks[-1] if toks else "."
            if tgt == "." or tgt.startswith("./"):
                cand = os.path.normpath(os.path.join(sub or ".", tgt))
                if os.path.isdir(os.path.join(repo, cand)):
                    copy_to = cand
        res["demo_cmd"] = gocmd
        res["demo_dir"] = copy_to
        demofiles = [f for f in os.listdir(seed) if f.endswith("_test.go")]
        def put_demo():
            for f in demofiles:
                shutil.copy(os.path.join(seed, f), os.path.join(repo, copy_to, ("" if a.keep_name else "zz_seed_") + f))
            if os.path.isdir(os.path.join(seed, "demo")):
                shutil.copytree(os.path.join(seed, "demo"), os.path.join(repo, "zz_seed_demo"), dirs_exist_ok=True)
                gm = os.path.join(repo, "zz_seed_demo", "go.mod")
                if os.path.exists(gm):
                    s = open(gm).read()
                    s = re.sub(r"/tmp/wt/[A-Za-z0-9]+", repo, s)
                    open(gm, "w").write(s)
        def del_demo():
            for f in demofiles:
                p = os.path.join(repo, copy_to, ("" if a.keep_name else "zz_seed_") + f)
                if os.path.exists(p):
                    os.remove(p)
            shutil.rmtree(os.path.join(repo, "zz_seed_demo"), ignore_errors=True)
        rundir = os.path.join(repo, sub) if sub else repo
        if os.path.isdir(os.path.join(seed, "demo")) and not demofiles:
            rundir = os.path.join(repo, "zz_seed_demo")
        put_demo()
        rc, out = sh(gocmd, rundir)
        res["demo_without_patch"] = "pass" if rc == 0 else "FAIL(rc=%d)" % rc
        if rc != 0:
            res["demo_without_patch_out"] = out[-1500:]
        del_demo()
        rc, out = sh("patch -s -p1 < %s" % os.path.join(seed, "patch.diff"), repo)
        if rc != 0:
            res["patch"] = "does not apply: " + out[-500:]
            print(json.dumps(res, indent=1)); return
        if not a.skip_suites:
            suites = {}
            for m_ in [".", "exp", "zapgrpc/internal/test"]:
                rc, out = sh("go build ./... && go vet ./... && go test -count=1 ./...", os.path.join(repo, m_))
                suites[m_] = "pass" if rc == 0 else "FAIL: " + out[-800:]
            res["suites_with_patch"] = suites
        put_demo()
        rc, out = sh(gocmd, rundir)
        res["demo_with_patch"] = "fails(rc=%d)" % rc if rc != 0 else "PASSES (demo does not show the defect)"
        res["demo_with_patch_tail"] = out[-600:]
        del_demo()
        checks = (a.checks.split(",") if a.checks else [prop])
        res["checks"] = {}
        for c in checks:
            outdir = os.path.join(root, "out-" + c)
            os.makedirs(outdir, exist_ok=True)
            env = dict(ENV, VERIF_REPO=repo, VERIF_OUT=outdir)
            try:
                p = subprocess.run(["/verif/check", c, a.tier], env=env, capture_output=True, text=True, errors="replace", timeout=3000)
                out = p.stdout + p.stderr
                cls = re.findall(r"class=([^:\s]+)", out)
                first = ""
                mm = re.search(r"^  case=.*$", out, re.M)
                if mm:
                    first = mm.group(0)[:500]
                res["checks"][c] = {"exit": p.returncode, "classes": sorted(set(cls))[:6], "first": first, "tail": out[-300:] if p.returncode not in (0, 1) else ""}
            except subprocess.TimeoutExpired:
                res["checks"][c] = {"exit": "timeout"}
        print(json.dumps(res, indent=1))
    finally:
        shutil.rmtree(root, ignore_errors=True)

if __name__ == "__main__":
    main()
