#!/usr/bin/env python3
"""Keeps a confirmed seeded change under /verif/seeded/<name>/ and records what the checks say about it.

  seed-keep.py <seed-dir> [--checks C04,C12] [--copy-to DIR] [--cmd '...'] [--tier quick]

The change is applied to /repo itself (git -C /repo apply), the named checks are run, and the change is undone
(git -C /repo checkout -- . ; git clean) straight afterwards. Confirmation of the change itself (suites pass, demo
fails with / passes without) is done beforehand by tools/seedcheck.py on a scratch copy; its JSON result can be
passed with --confirmed <file> and is stored in meta.json.
"""
import argparse, json, os, re, shutil, subprocess, sys

def main():
    ap = argparse.ArgumentParser()
    ap.add_argument("seed")
    ap.add_argument("--checks")
    ap.add_argument("--tier", default="quick")
    ap.add_argument("--confirmed")
    a = ap.parse_args()
    seed = os.path.abspath(a.seed)
    name = os.path.basename(seed)
    src = json.load(open(os.path.join(seed, "meta.json")))
    prop = src.get("property")
    checks = a.checks.split(",") if a.checks else [prop]
    if subprocess.run(["git", "-C", "/repo", "diff", "--quiet"]).returncode != 0:
        print("/repo is dirty"); sys.exit(9)
    dst = os.path.join("/verif/seeded", name)
    os.makedirs(dst, exist_ok=True)
    shutil.copy(os.path.join(seed, "patch.diff"), os.path.join(dst, "patch.diff"))
    for f in os.listdir(seed):
        if f.endswith("_test.go"):
            shutil.copy(os.path.join(seed, f), os.path.join(dst, f + ".txt"))  # .txt: not compiled as part of anything
    if os.path.isdir(os.path.join(seed, "demo")):
        shutil.copytree(os.path.join(seed, "demo"), os.path.join(dst, "demo"), dirs_exist_ok=True)
    ran = []
    results = {}
    try:
        subprocess.run(["git", "-C", "/repo", "apply", os.path.join(dst, "patch.diff")], check=True)
        ran.append("git -C /repo apply /verif/seeded/%s/patch.diff" % name)
        for c in checks:
            env = dict(os.environ, VERIF_OUT="/tmp/seedkeep-out")
            os.makedirs("/tmp/seedkeep-out", exist_ok=True)
            p = subprocess.run(["/verif/check", c, a.tier], env=env, capture_output=True, text=True, errors="replace", timeout=3000)
            out = p.stdout + p.stderr
            first = ""
            m = re.search(r"^  case=.*$", out, re.M)
            if m:
                first = m.group(0).strip()[:700]
            results[c] = {"exit": p.returncode, "violation_lines": len(re.findall(r"^VIOLATION", out, re.M)), "classes": sorted(set(re.findall(r"class=([^:\s]+)", out)))[:6], "first_violation": first}
            ran.append("./check %s %s   # exit %d" % (c, a.tier, p.returncode))
    finally:
        subprocess.run(["git", "-C", "/repo", "checkout", "--", "."])
        subprocess.run(["git", "-C", "/repo", "clean", "-fdq"])
        shutil.rmtree("/tmp/seedkeep-out", ignore_errors=True)
        ran.append("git -C /repo checkout -- .")
    confirmed = {}
    if a.confirmed and os.path.exists(a.confirmed):
        c = json.load(open(a.confirmed))
        confirmed = {k: c.get(k) for k in ("demo_cmd", "demo_dir", "demo_without_patch", "demo_with_patch", "suites_with_patch")}
    meta = {
        "name": name,
        "breaks_property": prop,
        "summary": src.get("summary"),
        "needs_to_manifest": src.get("needs_to_manifest"),
        "files_changed": src.get("files"),
        "origin": "written by an independent sub-agent that saw only the property text and a scratch worktree of /repo (nothing from /verif)",
        "demonstration": {"files": sorted(f for f in os.listdir(dst) if f.endswith(".txt") or f == "demo"), "note": "demo_test.go is stored with a .txt suffix; copy it (as *_test.go) into the package directory given by demo_dir and run demo_cmd", "confirmed_on_scratch_copy": confirmed},
        "what_was_run": ran,
        "check_results_on_repo_with_patch_applied": results,
        "detected_by": sorted(c for c, v in results.items() if v["exit"] == 1),
    }
    json.dump(meta, open(os.path.join(dst, "meta.json"), "w"), indent=1)
    print(name, {c: v["exit"] for c, v in results.items()})

if __name__ == "__main__":
    main()
