#!/bin/bash
# Runs every registered check of one tier on /repo as it is and prints one line per check.
tier="${1:-quick}"
cd "$(dirname "$0")/.."
for id in $(python3 -c "import json;print(' '.join(c['property_id'] for c in json.load(open('MANIFEST.json'))['checks']))"); do
  s=$(date +%s)
  out=$(./check "$id" "$tier" 2>&1); rc=$?
  echo "$id $tier exit=$rc $(( $(date +%s) - s ))s $(echo "$out" | grep -a -c '^KNOWN-FINDING') known $(echo "$out" | grep -a -c '^INCONCLUSIVE') inconclusive | $(echo "$out" | grep -a '^OK\|^VIOLATION\|^INCOMPLETE\|^NOTHING' | head -2 | tr '\n' ' ' | cut -c1-160)"
done
