#!/bin/bash
# Apply a mutant patch to /repo, run one check, always revert. Usage: mutant-run.sh <patch-file-or-name> <ID> [tier]
p="$1"; [ -f "$p" ] || p="/verif/mutants/$1.diff"
id="$2"; tier="${3:-quick}"
if ! git -C /repo diff --quiet; then echo "/repo is dirty"; exit 9; fi
git -C /repo apply "$p" || { echo "patch does not apply"; exit 9; }
cd /verif && timeout 1800 ./check "$id" "$tier" > "/tmp/mut.$$.out" 2>&1; rc=$?
git -C /repo checkout -- . ; git -C /repo clean -fdq
# the mutant run rewrote the evidence file; restore the committed one
git -C /verif checkout -- "evidence/$id.json" 2>/dev/null
rm -f /verif/replays/$id-*.json
echo "mutant=$(basename $p) check=$id tier=$tier exit=$rc $(grep -c '^VIOLATION' /tmp/mut.$$.out) violation lines"
grep -m2 -A1 '^VIOLATION\|^BUILD-FAILED\|^NOTHING' "/tmp/mut.$$.out" | cut -c1-400
rm -f "/tmp/mut.$$.out"
exit $rc
