#!/bin/bash
# Re-runs, for every kept seeded change (or those matching $1), the quick check of the property it is filed
# under against a scratch copy of /repo with the patch applied (removed afterwards).
# Writes /verif/seeded/RECHECK.tsv:  change  property  exit  first-violation-class
# Usage: tools/seeded-recheck.sh [glob] [parallelism]
glob="${1:-*}"; par="${2:-4}"
export GOFLAGS=-mod=mod GOPROXY=off GOSUMDB=off GOTOOLCHAIN=local
root=/tmp/sr.$$; mkdir -p "$root"
run_one() {
  dir="$1"; root="$2"; name=$(basename "$dir")
  id=$(python3 -c "import json,sys;print(json.load(open(sys.argv[1]))['breaks_property'])" "$dir/meta.json")
  d="$root/$name"; mkdir -p "$d/repo" "$d/out"
  rsync -a --exclude .git /repo/ "$d/repo/"
  if ! patch -s -p1 -d "$d/repo" < "$dir/patch.diff" > "$d/patch.log" 2>&1; then echo -e "$name\t$id\tpatch-failed\t-"; rm -rf "$d"; return; fi
  VERIF_REPO="$d/repo" VERIF_OUT="$d/out" timeout 1800 /verif/check "$id" quick > "$d/log" 2>&1; rc=$?
  cls=$(grep -a -m1 -o 'class=[^: ]*' "$d/log" | head -1)
  echo -e "$name\t$id\t$rc\t${cls:--}"
  rm -rf "$d"
}
export -f run_one
ls -d /verif/seeded/$glob/ | grep -v RECHECK | xargs -P "$par" -I{} bash -c 'run_one {} '"$root" | sort > "$root/results.tsv"
cat "$root/results.tsv"
if [[ "$glob" == "*" ]]; then cp "$root/results.tsv" /verif/seeded/RECHECK.tsv; fi
rm -rf "$root"
