#!/bin/bash
# Save the current uncommitted /repo diff as a mutant patch and revert /repo.
set -e
name="${1:?name}"
git -C /repo diff > "/verif/mutants/$name.diff"
test -s "/verif/mutants/$name.diff" || { echo "empty diff"; exit 1; }
git -C /repo checkout -- .
echo "saved /verif/mutants/$name.diff"
