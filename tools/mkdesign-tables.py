#!/usr/bin/env python3
"""Regenerates the generated tables of DESIGN.md (between the BEGIN/END markers) from
/verif/mutants/RESULTS.tsv and /verif/seeded/*/meta.json."""
import json, glob, os, re, collections
V = os.path.dirname(os.path.dirname(os.path.abspath(__file__)))
rows = [l.rstrip("\n").split("\t") for l in open(os.path.join(V, "mutants", "RESULTS.tsv")) if l.strip()]
by = collections.defaultdict(list)
for name, prop, rc, cls in rows:
    by[prop].append((name, rc, cls))
mt = ["| property | own mutants (patches in `/verif/mutants/`) | caught by its quick check |", "|---|---|---|"]
for prop in sorted(by):
    names = ", ".join(n.split("-", 1)[1] for n, _, _ in by[prop])
    caught = sum(1 for _, rc, _ in by[prop] if rc == "1")
    mt.append("| %s | %s | %d / %d |" % (prop, names, caught, len(by[prop])))
missed = [(n, p, rc) for n, p, rc, _ in rows if rc != "1"]
if missed:
    mt.append("")
    mt.append("Not caught: " + ", ".join("%s (exit %s)" % (n, rc) for n, p, rc in missed))
st = ["| seeded change | breaks | what it needs to manifest (short) | detected by (quick tier, patch applied to /repo) | not detected by |", "|---|---|---|---|---|"]
for f in sorted(glob.glob(os.path.join(V, "seeded", "*", "meta.json"))):
    m = json.load(open(f))
    res = m.get("check_results_on_repo_with_patch_applied", {})
    det = []
    for c, v in sorted(res.items()):
        if v["exit"] == 1:
            det.append("%s (%s)" % (c, ", ".join(v["classes"][:2])))
    nd = [c for c, v in sorted(res.items()) if v["exit"] != 1]
    need = (m.get("needs_to_manifest") or "").replace("|", "/").replace("\n", " ")
    if len(need) > 170:
        need = need[:167] + "..."
    st.append("| %s | %s | %s | %s | %s |" % (m["name"], m["breaks_property"], need, "; ".join(det) or "-", ", ".join(nd) or "-"))
d = open(os.path.join(V, "DESIGN.md")).read()
def put(tag, lines, d):
    b, e = "<!-- BEGIN %s -->" % tag, "<!-- END %s -->" % tag
    return re.sub(re.escape(b) + r".*?" + re.escape(e), lambda _: b + "\n" + "\n".join(lines) + "\n" + e, d, flags=re.S)
d = put("MUTANTS", mt, d)
d = put("SEEDED", st, d)
open(os.path.join(V, "DESIGN.md"), "w").write(d)
print("mutants:", len(rows), "seeded:", len(st) - 2)
