#!/bin/bash
# Runs every patch in /verif/mutants (or those matching $1) against the quick check of the property
# named by its file-name prefix, each on its own scratch copy of /repo under /tmp (removed afterwards).
# Writes /verif/mutants/RESULTS.tsv:  mutant  property  exit  first-violation-class
# Usage: tools/mutants-all.sh [glob] [parallelism]
glob="${1:-*}"; par="${2:-4}"
export GOFLAGS=-mod=mod GOPROXY=off GOSUMDB=off GOTOOLCHAIN=local
root=/tmp/mw.$$; mkdir -p "$root"
run_one() {
  f="$1"; root="$2"; name=$(basename "$f" .diff); id=$(echo "${name%%-*}" | tr a-z A-Z)
  d="$root/$name"; mkdir -p "$d/repo" "$d/out"
  rsync -a --exclude .git /repo/ "$d/repo/"
  if ! patch -s -p1 -d "$d/repo" < "$f" > "$d/patch.log" 2>&1; then echo -e "$name\t$id\tpatch-failed\t-"; rm -rf "$d"; return; fi
  VERIF_REPO="$d/repo" VERIF_OUT="$d/out" timeout 1800 /verif/check "$id" quick > "$d/log" 2>&1; rc=$?
  cls=$(grep -m1 -o 'class=[^:]*' "$d/log" | head -1)
  echo -e "$name\t$id\t$rc\t${cls:--}"
  rm -rf "$d"
}
export -f run_one
ls /verif/mutants/$glob.diff | xargs -P "$par" -I{} bash -c 'run_one {} '"$root" | sort > "$root/results.tsv"
cat "$root/results.tsv"
if [[ "$glob" == "*" ]]; then cp "$root/results.tsv" /verif/mutants/RESULTS.tsv; fi
rm -rf "$root"
