#!/usr/bin/env python3
"""Regenerates /verif/MANIFEST.json from the table below (keeps it schema-valid)."""
import json, os, subprocess
V = os.path.dirname(os.path.dirname(os.path.abspath(__file__)))
# id: (category, technique, level text, level note, design ref)
CHECKS = {
 "C01": ("exploration", "runtime monitor: generated hostile configs/entries/fields through the real JSON encoder; independent strict RFC 8259 parser + encoding/json as oracle on every emitted line",
         "Every line produced for N seeded hostile cases (all field constructors, nested/failing marshalers, nil/no-op sub-encoders, hostile keys/layouts/zone names, With-chains) is exactly one well-formed JSON object plus the configured line ending, via EncodeEntry and via an IO core over a recording sink. Held on the cases generated, not a proof.",
         "Trusts the harness's own JSON parser (cross-checked against encoding/json; disagreement = inconclusive) and the Go runtime.", "3/C01"),
 "C02": ("exploration", "runtime monitor: decoded output compared member-by-member with a generator-carried expected-value tree and with zapcore.MapObjectEncoder",
         "For N seeded cases over all built-in level/time/duration/caller/name encoders the emitted line decodes (independent parser, numbers kept as literal text) to exactly the expected ordered tree: 64-bit integers, floats bit-for-bit, strings with U+FFFD replacement, base64, complex parts, errors (message/verbose/causes), times/durations per encoder, correct nesting; a third of the cases is also compared with MapObjectEncoder.",
         "Trusts strconv/time/base64/encoding-json of the Go standard library as reference decoders.", "3/C02"),
 "C03": ("exploration", "runtime monitor: encoder spy records the exact call sequence each constructor / zap.Any delivers; compared bitwise with the value given; constructor list enumerated from /repo's source at run time",
         "Every exported Field constructor found by parsing field.go/array.go/error.go/zapfield.go is driven with boundary-biased values; an ObjectEncoder/ArrayEncoder spy must receive exactly the value (bits, zone, order), Any must pick the same representation, and Equals must be reflexive/symmetric/panic-free on (f, rebuilt f, unrelated h). A constructor without a table row makes the run exit 3.",
         "Reflexivity is not judged for payloads reflect.DeepEqual itself cannot equate (funcs, NaN inside reflected containers/slices).", "3/C03"),
 "C13": ("fault_enumeration", "runtime monitor: programmed sinks; every per-sink outcome vector of a multi-WriteSyncer enumerated; payload table on every zap writer; Lock exclusion under the race detector with an unsynchronised in-flight counter",
         "All outcome vectors over {full,short,zero}x{nil,error} for 2..4 (quick) / 5 (thorough) sinks are enumerated on Write and Sync (identical bytes, minimum count, all errors, every sink synced); every zap-provided writer is driven with the payload table and must return (len(p), nil); AddSync/Lock relay table; concurrent Write/Sync through Lock in a -race child.",
         "Zero-sink multi-syncers are a recorded don't-care. Schedules of the Lock part are sampled.", "3/C13"),
 "C17": ("exploration", "runtime monitor: chunking-independent line-splitter state machine as reference; all partitions of all short streams enumerated, random streams/partitions/Syncs/level toggles beyond",
         "Every stream over {a,\\n} up to length 9 (quick) / 12 (thorough) is written in every one of its 2^(n-1) partitions (plus a Sync at one cut) and the logged messages must equal the reference splitter's; 20k (quick) / 1.5M (thorough) random programs add arbitrary bytes, 100 KiB lines, empty writes, Syncs and disabled-level phases.",
         "With disabled phases only 'nothing logged while disabled' and the return values are judged.", "3/C17"),
 "C05": ("exploration", "runtime monitor: generated core compositions carry a recursive delivery model; per-leaf recorders, hook counters and counting marshalers observed for all 256 levels through all front ends; reported levels compared with observed delivery; AtomicLevel change histories",
         "For N seeded compositions (tee/increase-level/hooks/lazy/with/sampler over observer, JSON and console leaves with static, atomic and arbitrary non-monotone enablers) every one of the 256 level values is logged and the set of leaves that recorded the entry, the hook invocation counts and marshaler calls must equal the model; Enabled/Level/LevelOf/gRPC V/slog Enabled must agree with delivery; shared AtomicLevels are changed and everything is re-judged.",
         "Samplers appear only as pass-through (their drops are C11). V(g) outside 0..3 is a recorded don't-care.", "3/C05"),
 "C20": ("exploration", "runtime monitor: own classifier of the accepted level texts vs 9 parsing entry points with sentinel targets; HTTP handler driven by intent-carrying request templates and random requests, invariants checked after every request against live loggers",
         "All 256 values x text forms, every case mix of every name, special and random byte strings through Level/AtomicLevel UnmarshalText, Set, ParseLevel, ParseAtomicLevel, JSON, YAML and flag parsing (accepted set exact, target untouched on failure); seeded sequences of 1-30 HTTP requests (in-process recorder and a real loopback server for a subset) with per-request invariants: change only by PUT naming a valid level, exact level, reported level = level in force, 4xx otherwise, live loggers follow.",
         "Non-ASCII case folding, JSON {\"level\":\"\"}, trailing JSON bytes and content types with parameters are recorded don't-care zones judged by the invariants only.", "3/C20"),
 "C14": ("exploration", "runtime monitor: reference sweep written from the statement; observer core + encoder spy compare the main entry's fields; conservation check that every malformed argument is identified in an error-level diagnostic; fmt as oracle for messages",
         "Every argument list over an 8-symbol alphabet up to length 4 (quick) / 5 (thorough) is enumerated and longer lists over 12 symbols sampled, through With, WithLazy, every *w method and Logw at every level: well-formed arguments must appear exactly as the reference sweep (typed fields unchanged, string-keyed pairs as zap.Any, first bare error under 'error'), every dangling key / non-string-key pair (position, key, value) / additional error must be identified in an error-level entry, nothing may panic. Seeded templates and argument lists through all 42 print/printf/println methods are compared with fmt.Sprint/Sprintf/Sprintln.",
         "Caller annotation of zap's own diagnostic entries is a don't-care. Open known finding D13 (empty template with arguments).", "3/C14"),
 "C07": ("exploration", "runtime monitor: derivation-program model (per-node name, ordered field segments, evaluation moment of each With/WithLazy segment via version-probe marshalers) compared with JSON, console and observer output of every entry",
         "N seeded derivation programs (trees of With/WithLazy/Named/WithOptions(Fields)/Sugar/Desugar and sugared With/WithLazy, 1-20 fields per step incl. namespaces) run over tee(JSON, console, observer) under transparent wrappers; nodes log in random order interleaved with further derivations and all log again at the end, so parents are re-checked after children were derived and used; every entry must carry exactly its own path's name and fields in order, with With fields evaluated at derivation and WithLazy fields at first use.",
         "First use of a WithLazy logger is the first log call through it, the first With-style derivation from it, or either of those on a logger that shares its core (Named/Sugar/Desugar clones).", "3/C07"),
 "C10": ("fault_enumeration", "runtime fault injection: every fault-capable site of generated field trees is made to fail in turn and the emitted line compared with the expected tree (other fields intact + <key>Error); every outcome vector of failing sinks/cores enumerated over tees, multi-syncers and a user-style wrapper; recording sinks and error output observed",
         "For each seeded base case each fault site (marshaler error at a chosen position, panicking Stringer/error, unencodable reflected value, failing zap.Stringers element) fails in turn (plus a multi-fault variant); the entry goes through a real Logger and must be one valid line with all other fields exact and a '<key>Error' member where the failing field's AddTo saw the error. All vectors over {ok,(0,err),(short,err),(full,err),sync error,failing core} for 1..3 (quick) / 4 (thorough) destinations are enumerated and rotated over 2 (quick) / 5 (thorough) entries: healthy destinations get the line, failures are named on the error output, the call returns.",
         "Marshalers that panic (instead of returning an error), short writes with a nil error and the reporting of Sync errors are recorded don't-care zones.", "3/C10"),
 "C16": ("exploration", "runtime monitor: column list learned by running the configured sub-encoders against a recorder, known-prefix matching (no splitting), context object parsed by the independent JSON parser and compared with the JSON encoder's output and the expected-value tree",
         "All 128 presence patterns (six metadata keys x context) x N seeded cases (built-in, nil, no-op sub-encoders; separators incl. multi-byte and '{'; line endings; With-chains and field trees of C01/C02, failing fields included) through EncodeEntry and an IO core: the line must be exactly the present columns in the fixed order joined by the separator, then separator + one valid JSON object equal to the JSON encoder's fields for the same chain (and to the logged values for decodable configs), then the stack on the following lines, then the line ending. A run that does not hit all 128 patterns exits 3.",
         "Separators belonging to empty-text columns, the separator before a context when no column exists, and a context for fields that emit nothing are recorded don't-care zones.", "3/C16"),
 "C18": ("exploration", "runtime monitor: reference model of the slog.Handler contract (groups, inline groups, empty attrs/groups, LogValuers, pending WithGroup names) compared with the decoded JSON entry per handler of a derivation tree; threshold model for Enabled / handled-iff-enabled",
         "N seeded handler derivation trees (WithGroup incl. empty names, WithAttrs) and records with attribute trees mixing typed kinds, named/inline/empty groups, empty attrs and LogValuers, at slog levels -20..20, driven through Handle directly and through slog.Logger; every emitted entry must decode to the contract's tree for that handler's own path (order, nesting, typed values), Enabled and delivery must follow the core's threshold under the four-threshold level map, and handlers are re-used in random order to expose aliasing between parent and siblings.",
         "Groups that have attributes all of which are ignorable ('effectively empty') are a recorded don't-care zone: such cases are generated and counted but their tree is not judged. slog.NewJSONHandler is deliberately not the oracle (it emits invalid JSON in that zone on go1.23).", "3/C18"),
 "C15": ("exploration", "runtime monitor: the Go runtime's own call stack, captured on the same source line as every logging call, is the ground truth for caller and stack annotations",
         "Every logging method of *zap.Logger and *zap.SugaredLogger (list checked by reflection; a method without a row exits 3), the std-log bridge (NewStdLog, NewStdLogAt, RedirectStdLog(At) incl. package-level log functions) and the slog handler are called through random Sugar/Desugar/With/WithLazy/Named/WithOptions chains, 0-8 wrapper frames with AddCallerSkip(k), call-stack depths on both sides of the pooled 64-frame capacity, every stack-trace threshold and caller on/off: caller must equal runtime frame k of the call site, the stack must be the complete runtime chain from that frame, attached exactly at the configured levels.",
         "Trailing runtime.* frames of the stack are a don't-care. Open known finding D16 (std-log paths through log.(*Logger).Output).", "3/C15"),
 "C19": ("fault_enumeration", "runtime fault injection observed from the boundary: counting custom sinks registered under fresh schemes, the /proc/self/fd table (GC held off so finalizers cannot hide a leak), the sandbox directory, and the standard logger's flags/prefix/writer",
         "Open over path lists of 0-5 entries with every failing subset (failing custom sinks, unopenable files, directories, unknown schemes, unparsable URLs); Config.Build over every error path (bad output / error-output path, unknown or empty encoding, missing time encoder, missing level) combined with otherwise valid sink lists; RedirectStdLogAt / NewStdLogAt at all 256 levels under random prior flags, prefix and writer; file URLs assembled from components (scheme case, host, user info, port, query, fragment, percent-escapes) classified without net/url; sink scheme and encoder names. Error returns must leave every opened sink closed once and no new descriptor; successes must deliver every write to every destination; exactly the URL's path is opened.",
         "Empty query/fragment/port, an empty user-info marker and host LOCALHOST are recorded don't-care zones. Descriptors that vanish are never a finding; only descriptors pointing into the case's sandbox are attributed.", "3/C19"),
 "C11": ("exploration", "runtime monitor: 12-line reference sampler (window/count per level and FNV-1a bucket) checked online against the forwarded entries and decision-hook calls; concurrent part under the race detector with lock-free per-entry slots and an injected yield between counter reset and window CAS",
         "N seeded sequential programs over (N, M, tick) with timestamps placed exactly on window ends, one nanosecond either side, equal, backwards and jumping, hash-colliding messages, disabled (moving AtomicLevel threshold) and out-of-range levels, With-derived cores, plus Config.Build samplers through a real Logger: the ordered forwarded entries and ordered (entry, decision) hook calls must equal the model's. Concurrent runs in a -race child: one key inside one already-open window (exact admitted count) and rollover storms (one decision, one hook call, forwarded iff sampled per entry).",
         "Entries carry strictly positive Unix timestamps. Under concurrent window rollover only the per-entry accounting is judged, as the statement says.", "3/C11"),
 "C12": ("fault_enumeration", "runtime monitor: stream/alignment/held-back/flushed-and-synced invariants evaluated on the recorded sink event log after every operation with harness-driven ticks; concurrent histories under the race detector with unique records parsed back out of the sink; crash-point enumeration by self-kill at every operation and sink-event boundary in child processes; quiescence-based deadlock verdicts",
         "Sequential histories over Size in {1,2,7,64,4096,default} with Write lengths 0/1/free/free+1/size-1/size/size+1/3*size, Sync, tick, Stop (repeated, before the first Write, Write after Stop): after every operation the sink stream must be an aligned prefix of the accepted stream with at most Size held back, and after Sync/Stop/tick equal to it and synced; the flush goroutine must be gone after Stop. Concurrent histories (2-8 goroutines mixing Write, Sync, Stop and racing ticks, injected yields at both hook points) in a -race child: exactly-once, per-goroutine order, whole-record sink writes, Sync guarantee, no deadlock, no leak. For each crash history a child is SIGKILLed at every boundary (exhaustive per history) and the file must be an aligned prefix holding everything acknowledged.",
         "A watchdog that fires while goroutines still move is inconclusive; a deadlock is declared only when, with no harness event pending, every goroutine inside the syncer is blocked with an unchanged stack in two snapshots. Crash = process kill at boundaries (no system call in flight), not power loss.", "3/C12"),
 "C06": ("exploration", "runtime monitor: each call runs in its own goroutine and its outcome (returned / panic value / goroutine exit / custom hook ran) is observed together with sink snapshots taken when control is lost; the real default Fatal action is observed from outside child processes (exit status, sentinel file, data file, W/S event side file)",
         "The in-process product {16 front ends: Logger, every SugaredLogger variant, Check/Write, std-log bridge, gRPC} x {DPanic, Panic, Fatal} x {9 core compositions incl. no-op, disabled, sampled-out, tee, lazy, increase-level, buffered sink} x {hook unset, nil, WriteThenNoop, WriteThenGoexit, WriteThenPanic, custom} x {development on/off} is enumerated completely (4536 cells): the terminal action must run exactly when required, with the right action, and every accepting core must hold the entry and IO sinks must show write-then-sync at that moment. The default os.Exit path is observed in real child processes (250 of 576 cells in quick, all in thorough): exit status 1, code after the call never runs, complete final line in the file, sink synced after the last write.",
         "Custom hooks that return normally are outside the statement. Exit observation uses real processes, no stubbing of zap's exit function.", "3/C06"),
}
NOT_YET = {}
props = [json.loads(l) for l in open(os.path.join(V, "properties.jsonl"))]
checks = []
na = []
for p in props:
    i = p["id"]
    if i in CHECKS:
        cat, tech, text, note, ref = CHECKS[i]
        checks.append({
            "property_id": i,
            "quick_cmd": f"./check {i} quick",
            "thorough_cmd": f"./check {i} thorough",
            "evidence_file": f"/verif/evidence/{i}.json",
            "replay_cmd_template": f"./check {i} --replay {{path}}",
            "engine": "zverify",
            "level_claimed": {"category": cat, "text": text, "design_ref": "DESIGN.md section " + ref},
            "level_note": note,
            "technique": tech,
        })
    else:
        na.append({"property_id": i, "reason": NOT_YET.get(i, "monitor not built yet in this round (planned in DESIGN.md section 3); no claim is made")})
hooks_commits = subprocess.run(["git", "-C", "/repo", "log", "--format=%H %s", "--grep=^verif:"], capture_output=True, text=True).stdout.strip().splitlines()
m = {
 "version": 1,
 "setup_cmd": "./setup.sh",
 "hooks": {
   "guard": "verif (Go build tag)",
   "enable": "go build -tags verif (done by ./check for the harness module, which replaces go.uber.org/zap with /repo)",
   "baseline_off_cmd": "for m in . exp zapgrpc/internal/test; do (cd /repo/$m && GOFLAGS=-mod=mod GOPROXY=off GOSUMDB=off GOTOOLCHAIN=local go test -vet=off -count=1 -timeout 25m ./...) || exit 1; done",
   "source_commits": [c.split()[0] for c in hooks_commits],
   "add_only": True,
 },
 "engines": [{"name": "zverify", "path": "/verif/harness", "serves_properties": [c["property_id"] for c in checks],
              "kind_free_text": "Go harness (module go.uber.org/zap/verif, replace => /repo) built per invocation with -tags verif (and -race for the concurrent properties): seeded workload generators, recorders at the client/sink boundary, reference models, Go race detector, child processes for crash/exit observation"}],
 "checks": checks,
 "not_applicable": na,
 "notes": "All checks are runtime monitors (see DESIGN.md). Exit 0 = held on everything explored, 1 = VIOLATION line, 2 = /repo does not build, 3 = the monitor observed too little to conclude. Known findings: /verif/known_findings.json.",
}
if not na:
    del m["not_applicable"]
json.dump(m, open(os.path.join(V, "MANIFEST.json"), "w"), indent=1)
print("checks:", len(checks), "not_applicable:", len(na))
